"""Run-level observation of the GP training data (C15): real BADS(...).optimize() runs with wrappers
installed FROM OUTSIDE on
    pybads.bads.gaussian_process_train.get_grid_search_neighbors / udist
    pybads.bads.bads.local_gp_fitting / add_and_update_gp / acq_fcn_lcb, pybads.search.es_search.acq_fcn_lcb
    pybads.function_logger.FunctionLogger.__call__, gpyreg.GP.fit
At every selection / local fit / posterior update / hyper-parameter fit the GP data (gp.X, gp.y, gp.s2) and
the logger state (X, Y, S, X_max_idx) are snapshotted at the same instant and the declarative monitor
(harness/comp_gpset.monitor_selection + the checks below) is applied.  A sample of the recorded selection
calls is returned so that ./check can evaluate the Coq model on them.
"""
from __future__ import annotations

import math
import os
import random
import sys

import numpy as np

from harness import comp_gpset as C


STALE_KEY = "stale-pair-after-merged-repeat"


def target(kind, D):
    if kind == "bowl":
        return lambda x: float(np.sum((np.asarray(x) - 0.3) ** 2))
    if kind == "rosen":
        def f(x):
            x = np.asarray(x, dtype=float)
            if x.size == 1:
                return float((x[0] - 0.5) ** 2 + 0.1 * math.cos(3 * x[0]))
            return float(np.sum(100.0 * (x[1:] - x[:-1] ** 2) ** 2 + (1 - x[:-1]) ** 2)) / 50.0
        return f
    if kind == "abs":
        return lambda x: float(np.sum(np.abs(np.asarray(x) + 0.25)) + 0.5 * np.sum(np.asarray(x) ** 2))
    raise ValueError(kind)


def gen_configs(rng, n):
    """n run configurations, cycling through the four noise modes."""
    modes = ["det", "spec", "decl", "auto", "det", "spec", "det", "decl"]
    cfgs = []
    for i in range(n):
        mode = modes[i % len(modes)]
        D = [2, 1, 3, 2, 1, 2, 3, 2][i % 8] if i < 8 else rng.choice([1, 2, 3])
        budget = rng.choice([40, 60, 80, 100, 120])
        if mode in ("spec", "decl", "auto"):
            budget = max(budget, 70)
        small = (i % 2 == 1) or mode == "det" and i % 4 == 0      # small training-set options: selection is non-trivial
        opts = {}
        if i % 3 == 0:
            opts["cache_size"] = rng.choice([8, 20, 35])             # the evaluation log outgrows its initial capacity during the run
        if small:
            opts.update(n_train_min=rng.choice([4, 6, 8]), n_train_max=rng.choice([10, 12, 15]), buffer_ntrain=rng.choice([2, 3, 5]))
            if mode != "det":
                opts["buffer_ntrain"] = rng.choice([170, 180, 185])     # noisy modes raise n_train_max to >= 200
                opts["gp_radius"] = rng.choice([0.3, 0.5, 1.0])          # few points within the radius
        cfgs.append(dict(mode=mode, D=D, budget=budget, seed=rng.randrange(1, 10 ** 6), fun=rng.choice(["bowl", "rosen", "abs"]),
                         sd=rng.choice([0.05, 0.1, 0.3]), hetero=rng.random() < 0.5, opts=opts, sample=6,
                         upd_fault_every=(3 if i % 4 == 2 else 0)))
    return cfgs


def _logged(fl):
    """(X, Y, S, xmax, noise_flag) of the logger right now; S = list of float/None."""
    n = int(fl.Xn) + 1
    X = fl.X[:n].tolist()
    Y = fl.Y[:n, 0].tolist()
    S = fl.S[:n, 0].tolist() if fl.noise_flag else [None] * n
    return X, Y, S, int(fl.X_max_idx), bool(fl.noise_flag)


def _pairs_logged(gX, gy, gs2, X, Y, S, check_noise):
    """Every (gX[j], gy[j]) is a distinct logged pair (and gs2[j] = S^2 of that row if check_noise)."""
    used = [False] * len(X)
    for j in range(len(gX)):
        hit = None
        why = "no logged row has this input"
        for i in range(len(X)):
            if used[i] or X[i] != gX[j]:
                continue
            if Y[i] != gy[j]:
                why = f"log row {i} holds value {Y[i]} at this input"
                continue
            if check_noise and gs2 is not None:
                if gs2[j] != C._sq(S[i]):
                    why = f"log row {i}: SD {S[i]} (SD^2 {C._sq(S[i])}) but gp.s2 = {gs2[j]}"
                    continue
            hit = i
            break
        if hit is None:
            return f"GP training row {j} (input {gX[j]}, value {gy[j]}) is not a logged evaluation: {why}"
        used[hit] = True
    return None


def run_one(cfg):
    """One real run under observation.  Returns a picklable record."""
    sys.path.insert(0, os.environ.get("VERIF_REPO", "/repo"))
    import logging
    logging.disable(logging.CRITICAL)
    import warnings
    warnings.filterwarnings("ignore")
    import gpyreg
    import pybads.bads.bads as B
    import pybads.bads.gaussian_process_train as G
    import pybads.search.es_search as ES
    from pybads import BADS
    from pybads.function_logger import FunctionLogger

    D, mode = cfg["D"], cfg["mode"]
    noise_rng = np.random.default_rng(cfg["seed"])
    base = target(cfg["fun"], D)
    calls = {"n": 0}

    def fun(x):
        calls["n"] += 1
        v = base(x)
        if mode == "det":
            return v
        sd = cfg["sd"] * (1.0 + (abs(float(np.asarray(x).reshape(-1)[0])) if cfg["hetero"] else 0.0))
        v = v + sd * float(noise_rng.standard_normal())
        return (v, sd) if mode == "spec" else v

    options = {"display": "off", "max_fun_evals": cfg["budget"], "random_seed": cfg["seed"] % 10000}
    options.update(cfg["opts"])
    if mode == "spec":
        options["specify_target_noise"] = True
        options["uncertainty_handling"] = True
    elif mode == "decl":
        options["uncertainty_handling"] = True
    lb, ub = -2.0 * np.ones(D), 2.0 * np.ones(D)
    plb, pub = -1.0 * np.ones(D), 1.5 * np.ones(D)
    x0 = np.clip(np.array([0.9, -0.7, 0.4][:D]), plb, pub)

    viol = []            # (key, message, where)
    stats = dict(gsn=0, gsn_nontrivial=0, gsn_ties=0, local_fit=0, append=0, fit=0, lcb=0, lcb_es=0, s2_det=set(), s2_misaligned_after_append=0,
                 max_ntrain=0, noise_flag=None)
    site_obs = {}        # (caller, centre == incumbent, centre == last evaluated point, centre == own history row) -> count
    gsn_events = []      # Coq-ready inputs for a sample
    st = dict(in_gsn=False, dist=None, last_gsn=None, last_call=None, fl=None, tainted=set())
    rng = random.Random(cfg["seed"])

    def bad(key, msg, where):
        if sum(1 for v in viol if v[0] == key) < 2:
            viol.append((key, msg, where))

    o_gsn, o_udist, o_lgf, o_add = G.get_grid_search_neighbors, G.udist, B.local_gp_fitting, B.add_and_update_gp
    o_lcb_b, o_lcb_es, o_call, o_fit = B.acq_fcn_lcb, ES.acq_fcn_lcb, FunctionLogger.__call__, gpyreg.GP.fit
    o_upd = gpyreg.GP.update
    upd = dict(n=0, faulted=0)
    upd_every = int(cfg.get("upd_fault_every", 0))      # C15 after a FAILED posterior update: every k-th direct gp.update(hyp=...) of
                                                        # local_gp_fitting raises LinAlgError once 20 points are logged (what a Cholesky failure does)

    def w_upd(self, *a, **k):
        if upd_every and sys._getframe(1).f_code.co_name == "local_gp_fitting":
            upd["n"] += 1
            fl = st["fl"]
            if upd["n"] % upd_every == 0 and fl is not None and fl.Xn >= 20:
                upd["faulted"] += 1
                raise np.linalg.LinAlgError("injected posterior-update fault %d" % upd["n"])
        return o_upd(self, *a, **k)

    def w_udist(*a, **k):
        d = o_udist(*a, **k)
        if st["in_gsn"]:
            st["dist"] = np.array(d, dtype=float, copy=True)
        return d

    def w_gsn(function_logger, u, gp, opts, optim_state):
        X, Y, S, xmax, nf = _logged(function_logger)
        if xmax != len(X) - 1:
            # "the logged points": the extent the selection looks at must be the whole log (also after the cache has grown)
            bad("log-extent", f"the training-set selection sees rows 0..{xmax} of the log while {len(X)} evaluations are logged "
                              f"(cache capacity {function_logger.X.shape[0]})", f"get_grid_search_neighbors {stats['gsn']}")
        st["in_gsn"], st["dist"] = True, None
        try:
            U, Yo, S2 = o_gsn(function_logger, u, gp, opts, optim_state)
        finally:
            st["in_gsn"] = False
        k = stats["gsn"]
        stats["gsn"] += 1
        stats["noise_flag"] = nf
        d = st["dist"]
        if d is None:
            bad("harness", "udist not called by get_grid_search_neighbors", f"selection {k}")
            return U, Yo, S2
        dm = d.reshape(d.shape[0], -1)
        dist = dm.min(axis=1).tolist()
        o = dict(n_train_min=int(opts["n_train_min"]), n_train_max=int(opts["n_train_max"]), buffer_ntrain=int(opts["buffer_ntrain"]),
                 gp_radius=opts["gp_radius"])
        eff = gp.temporary_data["effective_radius"]
        r2 = float(np.asarray((opts["gp_radius"] * eff) ** 2).reshape(-1)[0])
        outU, outY = np.asarray(U).tolist(), np.asarray(Yo).reshape(-1).tolist()
        outS = None if S2 is None else np.asarray(S2).reshape(-1).tolist()
        m = None
        if dm.shape[0] == xmax + 1 and not np.any(np.asarray(optim_state.get("periodic_vars", False))):
            # "nearest ... in the GP's length-scaled metric": the distances used are those of the logged rows to the centre handed in
            m = C.metric_check(X[:xmax + 1], u, gp.temporary_data["len_scale"], dm)
            stats["metric_checked"] = stats.get("metric_checked", 0) + 1
        m = m or C.monitor_selection(X, Y, S, xmax, dist, r2, o, outU, outY, outS, int(optim_state["ntrain"]), nf)
        if m:
            bad(m[0], m[1], f"selection {k} (func_count {function_logger.func_count})")
        nontrivial = len(outU) < xmax + 1
        ties = len(set(dist)) < len(dist)
        stats["gsn_nontrivial"] += nontrivial
        stats["gsn_ties"] += ties
        stats["max_ntrain"] = max(stats["max_ntrain"], len(outU))
        st["last_gsn"] = (np.array(U, copy=True), np.array(Yo, copy=True), None if S2 is None else np.array(S2, copy=True))
        # sample for the Coq model: reservoir with preference for non-trivial selections
        ev = dict(X=X, Y=Y, S=S, xmax=xmax, dist=dm.tolist(), r2=r2, opts=o,
                  real=dict(U=outU, Y=outY, S2=outS, ntrain=int(optim_state["ntrain"])), k=k, nontrivial=bool(nontrivial))
        if len(gsn_events) < cfg["sample"]:
            gsn_events.append(ev)
        else:
            j = rng.randrange(k + 1)
            if j < cfg["sample"] and (nontrivial or not gsn_events[j]["nontrivial"]):
                gsn_events[j] = ev
        return U, Yo, S2

    def w_lgf(gp, current_point, function_logger, *a, **k):
        s2_before = None if gp.s2 is None else np.array(gp.s2, copy=True)
        # "nearest to the current incumbent": the surrogate kept across the loop is re-centred on the incumbent b.u -- in the poll
        # step always, in the search step for deterministic targets (noisy targets additionally fit a throw-away copy at the search point)
        caller = sys._getframe(1).f_code.co_name
        bb = st.get("b")
        if bb is not None and (caller == "_poll_step_" or (caller == "_search_step_" and mode == "det")):
            stats["centre_checked"] = stats.get("centre_checked", 0) + 1
            if not np.array_equal(np.ravel(current_point), np.ravel(bb.u)):
                bad("not-centred-on-incumbent", f"local fit in {caller} selects the training set around {np.ravel(current_point).tolist()} "
                    f"while the incumbent is {np.ravel(bb.u).tolist()}", f"local_gp_fitting {stats['local_fit']}")
        if bb is not None and caller == "_search_step_" and mode != "det":
            # stochastic targets, search step: the kept surrogate is re-centred on the incumbent; the throw-away trial copy on the point just evaluated
            stats["centre_checked"] = stats.get("centre_checked", 0) + 1
            cp = np.ravel(current_point)
            le = st.get("last_eval_u")
            if not (np.array_equal(cp, np.ravel(bb.u)) or (le is not None and np.array_equal(cp, le))):
                bad("not-centred-on-incumbent", f"local fit in {caller} selects the training set around {cp.tolist()}, which is neither the incumbent "
                    f"{np.ravel(bb.u).tolist()} nor the point just evaluated {None if le is None else le.tolist()}", f"local_gp_fitting {stats['local_fit']}")
        if bb is not None and caller in ("_poll_step_", "_search_step_"):
            at_inc = np.array_equal(np.ravel(current_point), np.ravel(bb.u))
            if caller == "_poll_step_" or at_inc:
                st["main_gp"] = id(gp)
            elif st.get("main_gp") == id(gp):
                # a TRIAL fit at a search candidate (stochastic targets) must work on a copy: the surrogate kept for ranking and posterior
                # updates stays conditioned on the neighbourhood of the incumbent when the candidate is rejected
                bad("trial-fit-on-working-gp", f"the local fit at the search candidate {np.ravel(current_point).tolist()} was applied to the working surrogate itself "
                    f"(incumbent {np.ravel(bb.u).tolist()})", f"local_gp_fitting {stats['local_fit']}")
        if bb is not None:
            # observation for the validation of the translator's call-site census (props/C15.py, correspondence:gpset_sites): which of
            # "the incumbent self.u", "the point last handed to the logger", "the history row of this very surrogate" the centre equals
            cp_ = np.ravel(np.asarray(current_point, dtype=float))
            le_ = st.get("last_eval_u")
            hist_ = False
            try:
                gps_, uh_ = bb.iteration_history.get("gp"), bb.iteration_history.get("u")
                for i_ in range(len(gps_)):
                    if gps_[i_] is gp and np.array_equal(np.ravel(uh_[i_]), cp_):
                        hist_ = True
            except Exception:
                pass
            key_ = (caller, bool(np.array_equal(cp_, np.ravel(bb.u))), bool(le_ is not None and np.array_equal(cp_, le_)), hist_)
            site_obs[key_] = site_obs.get(key_, 0) + 1
        st["last_gsn"] = None
        st["tainted"].discard(id(gp))
        res = o_lgf(gp, current_point, function_logger, *a, **k)
        g = res[0]
        n = stats["local_fit"]
        stats["local_fit"] += 1
        lg = st["last_gsn"]
        where = f"local_gp_fitting {n} (func_count {function_logger.func_count})"
        if lg is None:
            bad("harness", "local_gp_fitting did not select a training set", where)
            return res
        U, Yo, S2 = lg
        if not (np.array_equal(g.X, U) and np.array_equal(np.asarray(g.y).reshape(-1), Yo.reshape(-1))):
            bad("not-logged", "after local_gp_fitting gp.X / gp.y are not the selected logged rows "
                              "(finite-value substitution or other rewrite)", where)
        if S2 is not None:
            if g.s2 is None or not np.array_equal(np.asarray(g.s2).reshape(-1), S2.reshape(-1), equal_nan=True):
                bad("noise-not-variance", "after local_gp_fitting gp.s2 is not the selected S^2 column", where)
        else:
            same = (g.s2 is None and s2_before is None) or (g.s2 is not None and s2_before is not None
                                                             and np.array_equal(g.s2, s2_before, equal_nan=True))
            if not same:
                bad("noise-column", "gp.s2 changed in a local fit although the logger has no SD column", where)
            stats["s2_det"].add("None" if g.s2 is None else f"array{tuple(np.shape(g.s2))}")
        X, Y, S, xmax, nf = _logged(function_logger)
        msg = _pairs_logged(np.asarray(g.X).tolist(), np.asarray(g.y).reshape(-1).tolist(),
                            None if g.s2 is None else np.asarray(g.s2).reshape(-1).tolist(), X, Y, S,
                            check_noise=(function_logger.he_noise_flag and S2 is not None))
        if msg:
            bad("noise-not-variance" if "SD^2" in msg else "not-logged", msg, where)
        return res

    def w_call(self, x, *a, **k):
        st["last_eval_u"] = np.array(x, dtype=float).reshape(-1).copy()
        r = o_call(self, x, *a, **k)
        st["last_call"] = (np.array(x, dtype=float, copy=True).reshape(-1), r[0], r[1], r[2])
        st["fl"] = self
        return r

    def w_add(function_logger, gp, x_new, y_new, sd_new=None, options=None):
        n0 = gp.X.shape[0]
        X0, y0 = np.array(gp.X, copy=True), np.array(gp.y, copy=True)
        s0 = None if gp.s2 is None else np.array(gp.s2, copy=True)
        g = o_add(function_logger, gp, x_new, y_new, sd_new, options)
        n = stats["append"]
        stats["append"] += 1
        where = f"add_and_update_gp {n} (func_count {function_logger.func_count})"
        lc = st["last_call"]
        yv = float(np.asarray(y_new).reshape(-1)[0])
        if lc is None or not (np.array_equal(lc[0], np.asarray(x_new, dtype=float).reshape(-1))
                              and float(np.asarray(lc[1]).reshape(-1)[0]) == yv
                              and ((lc[2] is None and sd_new is None) or (lc[2] is not None and sd_new is not None and float(lc[2]) == float(sd_new)))):
            bad("append", "the pair handed to add_and_update_gp is not what the logger just returned", where)
        if not (g.X.shape[0] == n0 + 1 and np.array_equal(g.X[:n0], X0) and np.array_equal(g.y[:n0], y0)
                and np.array_equal(g.X[n0], np.asarray(x_new, dtype=float).reshape(-1)) and g.y.shape == (n0 + 1, 1)
                and float(g.y[n0, 0]) == yv):
            bad("append", "gp.X / gp.y after add_and_update_gp are not the old rows followed by the new observation", where)
        if options["specify_target_noise"] and sd_new is not None:
            ok = (g.s2 is not None and s0 is not None and g.s2.shape[0] == s0.shape[0] + 1
                  and np.array_equal(g.s2[:-1], s0, equal_nan=True) and float(g.s2[-1, 0]) == C._sq(float(sd_new)))
            if not ok:
                bad("noise-not-variance", f"appended noise {None if g.s2 is None else float(np.asarray(g.s2).reshape(-1)[-1])} for the returned SD "
                                          f"{float(sd_new)} (SD^2 = {C._sq(float(sd_new))})", where)
        elif g.s2 is not None and g.s2.shape[0] != g.X.shape[0]:
            stats["s2_misaligned_after_append"] += 1          # observation: unknown-noise modes keep a NaN column one row short
        # after the posterior update every training pair is still a logged evaluation
        Xl, Yl, Sl, xmax, nf = _logged(function_logger)
        msg = _pairs_logged(np.asarray(g.X).tolist(), np.asarray(g.y).reshape(-1).tolist(),
                            None if g.s2 is None else np.asarray(g.s2).reshape(-1).tolist(), Xl, Yl, Sl,
                            check_noise=bool(function_logger.he_noise_flag))
        # known finding: the logger MERGED this observation into an existing row (repeat under specified noise); the GP
        # object then carries a stale / wrongly weighted row until its next local_gp_fitting
        if (lc is not None and lc[3] is not None and function_logger.he_noise_flag
                and float(function_logger.n_evals[int(lc[3])].reshape(-1)[0]) > 1):
            st["tainted"].add(id(g))
            stats["merged_repeats"] = stats.get("merged_repeats", 0) + 1
        if msg:
            if id(g) in st["tainted"]:
                bad(STALE_KEY, "after add_and_update_gp following a merged repeat: " + msg, where)
            else:
                bad("noise-not-variance" if "SD^2" in msg else "not-logged", "after add_and_update_gp: " + msg, where)
        # the appended pair is a logged pair; the log row holding it
        if lc is not None and lc[3] is not None:
            i = int(lc[3])
            if not (np.array_equal(function_logger.X[i], g.X[n0]) and float(function_logger.Y[i, 0]) == yv):
                bad("not-logged", f"appended pair is not log row {i}", where)
        return g

    def w_fit(self, X=None, y=None, s2=None, *a, **k):
        n = stats["fit"]
        stats["fit"] += 1
        fl = st["fl"]
        if fl is not None and X is not None and y is not None:
            Xl, Yl, Sl, xmax, nf = _logged(fl)
            msg = _pairs_logged(np.asarray(X).tolist(), np.asarray(y).reshape(-1).tolist(),
                                None if s2 is None or np.isscalar(s2) else np.asarray(s2).reshape(-1).tolist(), Xl, Yl, Sl,
                                check_noise=fl.he_noise_flag)
            if msg:
                bad("noise-not-variance" if "SD^2" in msg else "not-logged", msg, f"GP.fit {n} (func_count {fl.func_count})")
            if fl.he_noise_flag and s2 is None:
                bad("noise-column", "specified-noise run but GP.fit received no noise column", f"GP.fit {n}")
        return o_fit(self, X, y, s2, *a, **k)

    def mk_lcb(orig, tag):
        def w(xi, func_count, gp, sqrt_beta=None, *a, **k):
            z, f_mu, f_s = orig(xi, func_count, gp, sqrt_beta, *a, **k)
            stats["lcb" if tag == "bads" else "lcb_es"] += 1
            where = f"acq_fcn_lcb[{tag}] call {stats['lcb'] + stats['lcb_es']} (func_count {func_count})"
            if sqrt_beta is not None:
                bad("lcb", "acquisition called with a non-default sqrt_beta", where)
                return z, f_mu, f_s
            if func_count != calls["n"]:
                bad("lcb", f"t is computed from func_count {func_count} but the target was called {calls['n']} times", where)
            t = func_count + 1
            nv = xi.shape[1]
            sb = math.sqrt(2 * 0.2 * math.log(nv * t ** 2 * math.pi ** 2 / (6 * 0.1)))
            mu, s2 = gp.predict(xi)
            if not (np.array_equal(mu, f_mu) and np.array_equal(np.sqrt(s2), f_s)):
                bad("lcb", "f_mu / f_s are not the GP posterior mean / standard deviation at the candidates", where)
            want = f_mu - sb * f_s
            err = np.max(np.abs(z - want) / np.maximum(1e-300, np.abs(want) + np.abs(sb * f_s))) if z.size else 0.0
            if not (z.shape == want.shape and err <= 1e-12):
                j = int(np.argmax(np.abs(z - want))) if z.size else 0
                bad("lcb", f"acquisition value {float(z.reshape(-1)[j])} != f_mu - sqrt(beta_t)*f_s = {float(want.reshape(-1)[j])} "
                           f"(D={nv}, t={t}, sqrt(beta_t)={sb}, f_mu={float(f_mu.reshape(-1)[j])}, f_s={float(f_s.reshape(-1)[j])})", where)
            return z, f_mu, f_s
        return w

    G.get_grid_search_neighbors, G.udist = w_gsn, w_udist
    B.local_gp_fitting, B.add_and_update_gp = w_lgf, w_add
    B.acq_fcn_lcb, ES.acq_fcn_lcb = mk_lcb(o_lcb_b, "bads"), mk_lcb(o_lcb_es, "es")
    FunctionLogger.__call__ = w_call
    gpyreg.GP.fit = w_fit
    gpyreg.GP.update = w_upd
    exc = None
    res = {}
    try:
        b = BADS(fun, x0, lb, ub, plb, pub, options=options)
        st["fl"] = b.function_logger
        st["b"] = b
        r = b.optimize()
        res = dict(func_count=int(r["func_count"]), fval=float(r["fval"]), calls=calls["n"])
    except Exception as ex:
        import traceback
        exc = type(ex).__name__ + ": " + str(ex)[:300] + " @ " + traceback.format_exc()[-400:]
    finally:
        G.get_grid_search_neighbors, G.udist = o_gsn, o_udist
        B.local_gp_fitting, B.add_and_update_gp = o_lgf, o_add
        B.acq_fcn_lcb, ES.acq_fcn_lcb = o_lcb_b, o_lcb_es
        FunctionLogger.__call__ = o_call
        gpyreg.GP.fit = o_fit
        gpyreg.GP.update = o_upd
    stats["s2_det"] = sorted(stats["s2_det"])
    stats["update_faults_injected"] = upd["faulted"]
    return dict(cfg=cfg, stats=stats, violations=viol, exc=exc, result=res, gsn_events=gsn_events,
                site_obs=[list(k_) + [v_] for k_, v_ in sorted(site_obs.items())])


def run_many(cfgs, procs=8):
    import multiprocessing as mp
    if procs <= 1 or len(cfgs) <= 1:
        return [run_one(c) for c in cfgs]
    with mp.get_context("fork").Pool(min(procs, len(cfgs))) as pool:
        return pool.map(run_one, cfgs, chunksize=1)


def event_to_coq(ev):
    return C.coq_gsn_case(ev["X"], ev["Y"], ev["S"], ev["xmax"], ev["dist"], ev["r2"], ev["opts"], ev["real"])
