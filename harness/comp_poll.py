"""Correspondence for poll_mads_2n and the poll loop (model M6, Model/PollDirs.v) — property C14.

Component level: the REAL pybads.poll.poll_mads_2n is run with `rnd` (its `from numpy import random
as rnd`) replaced by a shim that serves chosen values (exhaustive enumeration) or draws them from the
harness PRNG inside the ranges the code asks for (sampling), and records every request.  The same
choices go to the Coq model; the returned arrays are compared exactly (1e-9 through q_approx when
poll_scale is not a power of two, where the float division rounds).

Run level: real BADS runs with wrappers installed from outside on pybads.bads.bads.poll_mads_2n,
pybads.bads.bads.contraints_check, BADS._poll_step_ and FunctionLogger.__call__; every poll step is
checked (monitor) and replayed through the model (poll_step_ok).

The monitors restate the property on observables, independently of the Coq model.
"""
from __future__ import annotations

import itertools
import math
import sys
from fractions import Fraction

import numpy as np

from vlib.core import cq, cz, cbool, clist, cqlist, cqmat, cnat


def _mod():
    import pybads.poll  # noqa: F401
    return sys.modules["pybads.poll.poll_mads_2n"]


class ShimError(Exception):
    """the generator no longer asks numpy for (entry draw, sign draw, one row permutation)"""


# ----------------------------------------------------------------------------- numpy.random shims

class BaseShim:
    def __init__(self):
        self.requests = []       # [low, high, *size] per randint call
        self.randint_out = []    # arrays served / observed
        self.perm = None         # row permutation: result[i] = arg[perm[i]]

    @staticmethod
    def _size(size):
        if size is None:
            return ()
        if isinstance(size, (int, np.integer)):
            return (int(size),)
        return tuple(int(s) for s in size)

    def _note(self, low, high, size):
        if len(self.requests) >= 2:
            raise ShimError("more than two randint calls")
        self.requests.append([float(low), float(high)] + [float(s) for s in self._size(size)])

    def contract(self):
        return [x for r in self.requests for x in r]


class EnumShim(BaseShim):
    """serves pre-chosen outcomes"""

    def __init__(self, draws, sdraws, perm):
        super().__init__()
        self.serve = [np.array(draws, dtype=np.int64), np.array(sdraws, dtype=np.int64)]
        self.perm_in = list(perm)

    def randint(self, low, high=None, size=None):
        self._note(low, high, size)
        a = self.serve[len(self.requests) - 1]
        if a.shape != self._size(size):
            raise ShimError(f"randint size {size} where {a.shape} was expected")
        self.randint_out.append(a.copy())
        return a.copy()

    def permutation(self, x):
        if self.perm is not None:
            raise ShimError("second permutation call")
        x = np.asarray(x)
        if x.ndim == 0 or len(x) != len(self.perm_in):
            raise ShimError("permutation of an object that is not the D-row array")
        self.perm = list(self.perm_in)
        return x[self.perm].copy()


class SampleShim(BaseShim):
    """draws inside whatever ranges the code asks for, from the harness PRNG"""

    def __init__(self, rng):
        super().__init__()
        self.rng = rng

    def randint(self, low, high=None, size=None):
        if high is None:
            low, high = 0, low
        self._note(low, high, size)
        lo, hi = int(low), int(high)
        if lo >= hi:
            raise ValueError("low >= high")
        shp = self._size(size)
        n = int(np.prod(shp)) if shp else 1
        a = np.array([self.rng.randrange(lo, hi) for _ in range(n)], dtype=np.int64).reshape(shp)
        self.randint_out.append(a.copy())
        return a

    def permutation(self, x):
        if self.perm is not None:
            raise ShimError("second permutation call")
        x = np.asarray(x)
        if x.ndim == 0:
            raise ShimError("permutation of a scalar")
        p = list(range(len(x)))
        self.rng.shuffle(p)
        self.perm = p
        return x[p].copy()


class RecordShim(BaseShim):
    """passes through to the real numpy.random (run level: the run is not perturbed) and records"""

    def __init__(self, real):
        super().__init__()
        self.real = real

    def randint(self, low, high=None, size=None):
        self._note(low, high, size)
        a = self.real.randint(low, high, size)
        self.randint_out.append(np.array(a).copy())
        return a

    def permutation(self, x):
        if self.perm is not None:
            raise ShimError("second permutation call")
        x = np.asarray(x)
        out = self.real.permutation(x)
        used, p = set(), []
        for row in out:                      # recover the permutation by matching rows
            for k in range(len(x)):
                if k not in used and np.array_equal(x[k], row):
                    used.add(k)
                    p.append(k)
                    break
            else:
                raise ShimError("permutation result is not a row rearrangement")
        self.perm = p
        return out


def choices_of(shim, D):
    if len(shim.randint_out) != 2 or shim.perm is None:
        raise ShimError(f"random-call protocol changed: {len(shim.randint_out)} randint calls, perm={shim.perm}")
    dr, sd = shim.randint_out
    if dr.shape != (D, D) or sd.shape != (D,):
        raise ShimError(f"draw shapes {dr.shape} {sd.shape}")
    return dr.tolist(), sd.tolist(), list(shim.perm)


def run_real(D, ps, sm, m, shim, ps_2d=False, lenient=False):
    """Call the real generator under `shim`.  Returns dict(B | exc, contract, draws, sdraws, perm)."""
    mod = _mod()
    saved = mod.rnd
    mod.rnd = shim
    psa = np.array([ps], dtype=float) if ps_2d else np.array(ps, dtype=float)
    try:
        B = mod.poll_mads_2n(D, psa, sm, m)
        out = dict(B=np.asarray(B, dtype=float).tolist())
    except ShimError as ex:
        if not lenient:
            raise
        out = dict(exc="ShimError: " + str(ex)[:80], protocol=str(ex))
    except Exception as ex:
        out = dict(exc=type(ex).__name__ + ": " + str(ex)[:80])
    finally:
        mod.rnd = saved
    if "exc" not in out:
        try:
            dr, sd, pm = choices_of(shim, D)
            out.update(draws=dr, sdraws=sd, perm=pm)
        except ShimError as ex:
            if not lenient:
                raise
            out["protocol"] = str(ex)       # the call returned an array although it did not draw (entries, signs, permutation): still judged
    out["contract"] = shim.contract()
    return out


# ----------------------------------------------------------------------------- generators

RATIOS = {   # n -> (search_mesh, mesh) pairs with exact float quotient; includes round-half-even ties
    1: [(2.0 ** -10, 1.0), (2.0 ** -13, 2.0 ** -3), (1.0, 1.0), (0.5, 1.0), (0.25, 0.25), (2.0 ** -20, 2.0 ** -6)],
    2: [(2.0, 1.0), (0.5, 0.25), (1.5, 1.0), (2.5, 1.0), (2.0 ** -9, 2.0 ** -10)],
    3: [(3.0, 1.0), (0.75, 0.25), (3.25, 1.0)],
    4: [(4.0, 1.0), (1.0, 0.25), (2.0 ** -8, 2.0 ** -10), (3.5, 1.0), (4.5, 1.0)],
    5: [(5.0, 1.0), (5.5, 1.0)],
    8: [(8.0, 1.0), (1.0, 0.125)],
    16: [(16.0, 1.0), (1.0, 2.0 ** -4)],
}


def enum_cases(D, n, rng):
    """every outcome of the strictly-lower entries, the signs and the permutation for (D, n);
    the draws that np.tril(.,-1) discards are filled from the same range by the harness PRNG."""
    low_pos = [(i, j) for i in range(D) for j in range(i)]
    k = 0
    for lows in itertools.product(range(1, 2 * n), repeat=len(low_pos)):
        for signs in itertools.product((1, 2), repeat=D):
            for perm in itertools.permutations(range(D)):
                draws = [[rng.randrange(1, 2 * n) for _ in range(D)] for _ in range(D)]
                for (i, j), v in zip(low_pos, lows):
                    draws[i][j] = v
                sm, m = RATIOS[n][k % len(RATIOS[n])]
                k += 1
                yield dict(D=D, n=n, ps=[1.0] * D, sm=sm, m=m, draws=draws, sdraws=list(signs), perm=list(perm))


def is_pow2(x):
    return x > 0 and math.frexp(x)[0] == 0.5


def sample_case(rng, idx):
    D = rng.choice([1, 2, 3, 4, 5, 6, 7, 8])
    n = rng.choice([1, 1, 2, 2, 3, 4, 4, 5, 8, 16])
    sm, m = rng.choice(RATIOS[n])
    r = rng.random()
    if r < 0.3:
        ps = [1.0] * D
    elif r < 0.5:
        ps = [2.0 ** rng.randint(-6, 4) for _ in range(D)]
    else:
        ps = [rng.choice([rng.uniform(0.05, 5.0), 0.5133, 0.493, 3.9511, 1.0, 1e-3 * (1 + rng.random()), 37.3])
              for _ in range(D)]
    return dict(D=D, n=n, ps=ps, sm=sm, m=m, ps_2d=rng.random() < 0.3)


# ----------------------------------------------------------------------------- monitor (component)

def frac_rank(rows):
    M = [[Fraction(x) for x in r] for r in rows]
    rank, ncol = 0, (len(M[0]) if M else 0)
    for c in range(ncol):
        piv = next((r for r in range(rank, len(M)) if M[r][c] != 0), None)
        if piv is None:
            continue
        M[rank], M[piv] = M[piv], M[rank]
        for r in range(len(M)):
            if r != rank and M[r][c] != 0:
                f = M[r][c] / M[rank][c]
                M[r] = [a - f * b for a, b in zip(M[r], M[rank])]
        rank += 1
    return rank


def n_of(sm, m):
    return max(1, round(sm / m))        # Python round: half to even, like np.round


def int_dirs(B, ps):
    """B * poll_scale as integers; returns (rows, None) or (None, description)."""
    rows = []
    for r, row in enumerate(B):
        out = []
        for j, b in enumerate(row):
            x = Fraction(b) * Fraction(ps[j])
            k = round(x)
            if abs(x - k) > 2 * Fraction(math.ulp(float(k))):
                return None, f"row {r} col {j}: entry*poll_scale = {float(x)!r} is not an integer (within 2 ulp)"
            out.append(int(k))
        rows.append(out)
    return rows, None


def monitor_dirs(D, B, ps, sm, m):
    """C14 on the array returned by one call.  Returns None or (key, description)."""
    n = n_of(sm, m)
    if len(B) != 2 * D or any(len(r) != D for r in B):
        return "shape", f"returned array has {len(B)} rows (lengths {sorted(set(len(r) for r in B))}), expected {2 * D} x {D}"
    for i in range(D):
        if any(B[D + i][j] != -B[i][j] for j in range(D)):
            return "pairing", f"row {D + i} = {B[D + i]} is not the negation of row {i} = {B[i]}"
    dirs, msg = int_dirs(B, ps)
    if msg:
        return "integer", msg
    H = dirs[:D]
    for i in range(D):
        for j in range(D):
            if abs(H[i][j]) > n:
                return "bound", f"direction {i} has entry {H[i][j]} at coordinate {j}, |.| > mesh ratio n = {n}"
    rk = frac_rank(H)
    if rk != D:
        return "singular", f"the D direction vectors {H} have rank {rk} < {D}: the 2D directions do not positively span"
    if n == 1:
        for i in range(D):
            if sorted(abs(x) for x in H[i]) != [0] * (D - 1) + [1]:
                return "coordinate", f"n = 1 but direction {i} = {H[i]} is not a signed coordinate vector"
        for j in range(D):
            if sum(abs(H[i][j]) for i in range(D)) != 1:
                return "coordinate", f"n = 1 but coordinate {j} is not used by exactly one direction: {H}"
    return None


# ----------------------------------------------------------------------------- Coq side (component)

CASE_TY = "(nat * list Q * Q * Q * list (list Z) * list Z * list nat) * (bool * list Q * list (list Q))"
OK_FUN = ("fun c => let '(D, ps, sm, m, dr, sd, pm) := fst c in let '(ex, ct, B) := snd c in "
          "poll_case_ok D ps sm m dr sd pm ex ct B")
REQUIRES = ["PV.Model.Val", "PV.Model.PollDirs"]


def czmat(rows):
    return clist([clist([cz(x) for x in r]) for r in rows])


def cnats(xs):
    return clist([cnat(x) for x in xs])


def coq_case(c, res):
    exact = all(is_pow2(p) for p in c["ps"])
    return (f"(({cnat(c['D'])}, {cqlist(c['ps'])}, {cq(c['sm'])}, {cq(c['m'])}, {czmat(res['draws'])}, "
            f"{clist([cz(x) for x in res['sdraws']])}, {cnats(res['perm'])}), "
            f"({cbool(exact)}, {cqlist(res['contract'])}, {cqmat(res['B'])}))")


# ----------------------------------------------------------------------------- run level

def _ulp(x):
    return Fraction(math.ulp(float(x)))


def problems():
    """panel of short runs: (name, D, box, x0, target kind, options)"""
    P = []

    def box(D, lo=-3.0, hi=4.0, plo=-1.0, phi=2.0):
        return dict(lb=[lo] * D, ub=[hi] * D, plb=[plo] * D, pub=[phi] * D)
    P.append(dict(name="d1-default", D=1, box=box(1), x0=[1.0], target="quad", budget=40, opts={}))
    P.append(dict(name="d2-default", D=2, box=box(2), x0=[1.0, -0.5], target="rosen", budget=90, opts={}))
    P.append(dict(name="d3-boundary", D=3, box=box(3), x0=[0.5, 0.5, 0.5], target="corner", budget=100, opts={}))
    P.append(dict(name="d4-default", D=4, box=box(4), x0=[1.0, 0.0, -0.5, 1.5], target="quad", budget=120, opts={}))
    P.append(dict(name="d2-ratio124", D=2, box=box(2), x0=[1.5, 1.5], target="quad", budget=80,
                  opts=dict(search_grid_number=-2, search_grid_multiplier=1)))
    P.append(dict(name="d3-ratio-up-to-16", D=3, box=box(3), x0=[1.0, 1.0, 1.0], target="quad", budget=100,
                  opts=dict(search_grid_number=0, search_grid_multiplier=0)))
    P.append(dict(name="d4-ratio124-boundary", D=4, box=box(4), x0=[0.0, 0.0, 0.0, 0.0], target="corner", budget=120,
                  opts=dict(search_grid_number=-2, search_grid_multiplier=1)))
    P.append(dict(name="d2-noisy", D=2, box=box(2), x0=[1.0, 1.0], target="noisy", budget=60,
                  opts=dict(uncertainty_handling=True)))
    P.append(dict(name="d2-noncon", D=2, box=box(2), x0=[0.5, 0.25], target="corner", budget=70, opts={}, con="halfplane"))
    P.append(dict(name="d3-ratio124-complete", D=3, box=box(3), x0=[1.5, -1.0, 0.5], target="rosen", budget=110,
                  opts=dict(search_grid_number=-2, search_grid_multiplier=1, complete_poll=True)))
    # longer noisy runs: the end-of-iteration re-estimation can move the incumbent BACK to an earlier iterate; the next poll must be centred there
    P.append(dict(name="d2-noisy-rosen-long", D=2, box=box(2), x0=[1.0, -0.5], target="noisy_rosen", budget=120, opts=dict(uncertainty_handling=True)))
    P.append(dict(name="d3-noisy-long", D=3, box=box(3), x0=[1.0, 1.0, -0.5], target="noisy", budget=110, opts=dict(uncertainty_handling=True)))
    # the non-default option force_poll_mesh=True snaps the poll set to the SEARCH grid (a no-op for an incumbent that is on it)
    P.append(dict(name="d3-force-poll-mesh", D=3, box=box(3), x0=[0.7, -0.3, 1.1], target="rosen", budget=90, opts=dict(force_poll_mesh=True)))
    P.append(dict(name="d2-force-poll-mesh-boundary", D=2, box=box(2), x0=[0.5, 0.25], target="corner", budget=70, opts=dict(force_poll_mesh=True)))
    # a search stage that EXPANDS the mesh (search_mesh_expand > 0): the next poll works with the expanded mesh
    P.append(dict(name="d2-search-expands-mesh", D=2, box=box(2), x0=[1.5, 1.5], target="quad", budget=90, opts=dict(search_mesh_expand=1)))
    P.append(dict(name="d3-search-expands-mesh", D=3, box=box(3), x0=[1.0, -1.0, 0.5], target="rosen", budget=110, opts=dict(search_mesh_expand=1, search_mesh_increment=1)))
    return P


def _target(kind, seed):
    r = np.random.RandomState(seed + 17)

    def quad(x):
        x = np.asarray(x, dtype=float).ravel()
        return float(np.sum((x - 0.3) ** 2 * (1 + np.arange(x.size))))

    def rosen(x):
        x = np.asarray(x, dtype=float).ravel()
        return float(np.sum(100.0 * (x[1:] - x[:-1] ** 2) ** 2 + (1 - x[:-1]) ** 2))

    def corner(x):                      # optimum in the corner ub of the box: poll rows leave the box
        x = np.asarray(x, dtype=float).ravel()
        return float(np.sum((x - 5.0) ** 2))

    def noisy(x):
        return quad(x) + 0.3 * float(r.randn())

    def noisy_rosen(x):
        return rosen(x) / 20.0 + 0.3 * float(r.randn())
    return dict(quad=quad, rosen=rosen, corner=corner, noisy=noisy, noisy_rosen=noisy_rosen)[kind]


def run_bads(prob, seed):
    """One real run.  Returns (polls, info): polls = list of per-poll-step records."""
    import pybads.bads.bads as bb
    from pybads import BADS
    from pybads.function_logger import FunctionLogger
    mod = _mod()
    real_rnd = mod.rnd
    polls = []
    st = dict(cur=None, inpoll=False, target_calls=0, stray=[])
    orig_poll, orig_cc, orig_step, orig_call = bb.poll_mads_2n, bb.contraints_check, bb.BADS._poll_step_, FunctionLogger.__call__
    fun = _target(prob["target"], seed)

    def target(x):
        st["target_calls"] += 1
        return fun(x)

    def poll_wrap(dim_x, poll_scale, search_mesh_size, mesh_size):
        shim = RecordShim(real_rnd)
        mod.rnd = shim
        try:
            B = orig_poll(dim_x, poll_scale, search_mesh_size, mesh_size)
        finally:
            mod.rnd = real_rnd
        rec = dict(D=int(dim_x), ps=np.asarray(poll_scale, dtype=float).ravel().tolist(),
                   sm=float(search_mesh_size), m=float(mesh_size), B=np.asarray(B, dtype=float).tolist(),
                   contract=shim.contract(), shim=shim, evald=[], n_generated=1)
        bads = st.get("self")
        if bads is not None:
            rec["u"] = np.asarray(bads.u, dtype=float).ravel().tolist()
            rec["attr_mesh"] = float(bads.mesh_size)       # the optimiser's CURRENT mesh size (what the history and the result report)
            rec["state_mesh"] = float(bads.optim_state["mesh_size"])
            rec["state_search_mesh"] = float(bads.optim_state["search_mesh_size"])
            rec["attr_search_mesh"] = float(getattr(bads, "search_mesh_size", bads.optim_state["search_mesh_size"]))
            rec["iter"] = int(bads.optim_state["iter"])
        if st["cur"] is not None and st["inpoll"]:
            st["cur"]["n_generated"] += 1           # a second direction set in one poll step
        elif st["inpoll"]:
            st["cur"] = rec
            polls.append(rec)
        else:
            st["stray"].append("poll_mads_2n called outside _poll_step_")
        return B

    def cc_wrap(U, lb, ub, tol_mesh, function_logger, proj=True, non_box_cons=None):
        out = orig_cc(U, lb, ub, tol_mesh, function_logger, proj, non_box_cons)
        cur = st["cur"]
        if st["inpoll"] and cur is not None and "pre" not in cur:
            cur["pre"] = np.asarray(U, dtype=float).tolist()
            cur["cands"] = np.asarray(out, dtype=float).reshape(-1, cur["D"]).tolist()
            cur["proj"] = bool(proj)
        return out

    def call_wrap(self, x, *a, **k):
        if st["inpoll"]:
            xx = np.asarray(x, dtype=float).ravel().tolist()
            if st["cur"] is None:
                st["stray"].append(f"evaluation at {xx} inside _poll_step_ before any direction was generated")
            else:
                st["cur"]["evald"].append(xx)
        return orig_call(self, x, *a, **k)

    def step_wrap(self, gp):
        st["self"], st["inpoll"], st["cur"] = self, True, None
        t0 = st["target_calls"]
        try:
            return orig_step(self, gp)
        finally:
            if st["cur"] is not None:
                st["cur"]["target_calls"] = st["target_calls"] - t0
            st["inpoll"], st["cur"] = False, None

    bx = prob["box"]
    D = prob["D"]
    opts = dict(display="off", max_fun_evals=prob["budget"], random_seed=seed)
    opts.update(prob["opts"])
    con = None
    if prob.get("con") == "halfplane":
        def con(X):                      # returns VIOLATIONS (True = infeasible), as pybads expects
            X = np.atleast_2d(X)
            return np.sum(X, axis=1) > 1.0
    bb.poll_mads_2n, bb.contraints_check, bb.BADS._poll_step_, FunctionLogger.__call__ = poll_wrap, cc_wrap, step_wrap, call_wrap
    info = {}
    try:
        b = BADS(target, np.array([prob["x0"]], dtype=float), np.array([bx["lb"]]), np.array([bx["ub"]]),
                 np.array([bx["plb"]]), np.array([bx["pub"]]), non_box_cons=con, options=opts)
        res = b.optimize()
        info["func_count"] = int(res["func_count"])
        X = np.asarray(b.function_logger.X[: b.function_logger.Xn + 1], dtype=float)
        logged = {tuple(r) for r in X.tolist()}
        for p in polls:
            p["logged"] = all(tuple(e) in logged for e in p["evald"])
    except ShimError:
        raise
    except Exception as ex:
        info["exc"] = type(ex).__name__ + ": " + str(ex)[:120]
    finally:
        bb.poll_mads_2n, bb.contraints_check, bb.BADS._poll_step_, FunctionLogger.__call__ = orig_poll, orig_cc, orig_step, orig_call
        mod.rnd = real_rnd
    info["stray"] = st["stray"]
    for p in polls:
        shim = p.pop("shim")
        try:
            p["draws"], p["sdraws"], p["perm"] = choices_of(shim, p["D"])
        except ShimError as ex:
            p["shim_error"] = str(ex)
    return polls, info


def monitor_poll_step(p):
    """C14 on one recorded poll step.  Returns None or (key, description)."""
    D = p["D"]
    r = monitor_dirs(D, p["B"], p["ps"], p["sm"], p["m"])
    if r:
        return r
    if p.get("n_generated", 1) != 1:
        return "regenerated", f"{p['n_generated']} direction sets generated in one poll step"
    if "u" in p and (p["m"] != p["state_mesh"] or p["sm"] != p["state_search_mesh"]):
        return "mesh-args", f"generator called with mesh {p['m']}/{p['sm']} but the state has {p['state_mesh']}/{p['state_search_mesh']}"
    if "attr_mesh" in p and p["m"] != p["attr_mesh"]:
        return "mesh-stale", (f"the poll step generated and scaled its directions with mesh size {p['m']} while the optimiser's current mesh size is "
                              f"{p['attr_mesh']} (a search-stage expansion not seen by the poll?)")
    dirs, _ = int_dirs(p["B"], p["ps"])
    if "pre" not in p:
        return ("no-candidates", "directions were generated but no candidate set was built") if p["evald"] else None
    pre, cands, ev, u, mesh = p["pre"], p["cands"], p["evald"], p["u"], p["m"]
    if len(pre) != 2 * D:
        return "pre-shape", f"{len(pre)} candidate rows built from {2 * D} directions"
    # SET-based (the property does not order the candidates): every candidate is incumbent + mesh * (a direction not used by another candidate).
    # That candidate k belongs to direction k is the MODEL's reading (correspondence:poll_step), not the property's.
    def off(row, d):
        for j in range(D):
            step = Fraction(mesh) * d[j]
            want = Fraction(u[j]) + step
            tol = 2 * _ulp(step) + _ulp(row[j])
            if p.get("forced"):     # force_poll_mesh=True: the poll set is snapped to the search grid (half a search-mesh step at most)
                tol += Fraction(p["sm"]) / 2
            if abs(Fraction(row[j]) - want) > tol:
                return j, want
        return None
    unused = list(range(len(dirs)))
    for k, row in enumerate(pre):
        first = off(row, dirs[k])
        hit = k if (first is None and k in unused) else next((i for i in unused if off(row, dirs[i]) is None), None)
        if hit is None:
            j, want = first if first is not None else (0, Fraction(u[0]))
            return "off-mesh", (f"candidate {k} = {row!r} is not incumbent + mesh*direction for any direction not already used by another candidate "
                                f"(e.g. coordinate {j} = {row[j]!r}, direction {k} gives {u[j]!r} + {mesh!r}*{dirs[k][j]} = {float(want)!r})")
        unused.remove(hit)
    pre_t = [tuple(r) for r in pre]
    for c in cands:
        if tuple(c) not in pre_t:
            return "filter-subset", f"filtered candidate {c} is not one of the rows incumbent + mesh*direction"
    if len({tuple(c) for c in cands}) != len(cands):
        return "filter-dup", "filtered candidate set contains the same row twice"
    if len(ev) > 2 * D:
        return "too-many", f"{len(ev)} points polled in one poll step, 2D = {2 * D}"
    if p.get("target_calls") is not None and p["target_calls"] != len(ev):
        return "count", f"{p['target_calls']} target calls but {len(ev)} logger calls during the poll step"
    left = [tuple(c) for c in cands]
    used_dirs = []
    for k, e in enumerate(ev):
        t = tuple(e)
        if t not in left:
            what = "was already polled in this step (direction tried twice)" if t in [tuple(c) for c in cands] \
                else "is not in the candidate set"
            return "not-candidate", f"poll evaluation {k} at {e} {what}"
        left.remove(t)
        if len(set(pre_t)) == len(pre_t):
            used_dirs.append(pre_t.index(t))
    if len(set(used_dirs)) != len(used_dirs):
        return "dir-twice", f"direction indices {used_dirs} contain a repeat"
    if p.get("logged") is False:
        return "not-logged", "an evaluated poll point is not a row of function_logger.X"
    return None


def choices_for(p):
    """index of each evaluated point in the shrinking candidate array (None if not reconstructible)"""
    left = [tuple(c) for c in p["cands"]]
    out = []
    for e in p["evald"]:
        t = tuple(e)
        if t not in left:
            return None
        k = left.index(t)
        out.append(k)
        del left[k]
    return out


RUN_CASE_TY = ("(nat * list Q * Q * Q * list (list Z) * list Z * list nat) * "
               "(bool * list (list Q) * list Q * list (list Q) * list (list Q) * list nat * list (list Q))")
RUN_OK_FUN = ("fun c => let '(D, ps, sm, m, dr, sd, pm) := fst c in "
              "let '(ex, B, u, pre, cands, ch, ev) := snd c in "
              "poll_step_ok D ps sm m dr sd pm ex B u pre cands ch ev")


def coq_run_case(p):
    ch = choices_for(p)
    if ch is None or "pre" not in p or "draws" not in p:
        return None
    exact = all(is_pow2(x) for x in p["ps"])
    return (f"(({cnat(p['D'])}, {cqlist(p['ps'])}, {cq(p['sm'])}, {cq(p['m'])}, {czmat(p['draws'])}, "
            f"{clist([cz(x) for x in p['sdraws']])}, {cnats(p['perm'])}), "
            f"({cbool(exact)}, {cqmat(p['B'])}, {cqlist(p['u'])}, {cqmat(p['pre'])}, {cqmat(p['cands'])}, "
            f"{cnats(ch)}, {cqmat(p['evald'])}))")


# ----------------------------------------------------------------------------- the GENERATED programs (translate/poll.py -> gen/Src_poll.v)
# Translator validation: the same case literals as the hand-written model, evaluated through Model/PollSrc.v's interpreter on
# src_gen / src_cand.  The run-level literal additionally carries the four mesh places of the state at the moment the generator was
# called (the generated block decides which of them it reads) .

REQUIRES_SRC = ["PV.Model.Val", "PV.Model.PollDirs", "PV.Model.PollSrc", "PV.gen.Src_poll"]
OK_FUN_SRC = ("fun c => let '(D, ps, sm, m, dr, sd, pm) := fst c in let '(ex, ct, B) := snd c in "
              "src_case_ok src_gen D ps sm m dr sd pm ex ct B")
RUN_CASE_TY_SRC = "(" + RUN_CASE_TY + ") * (Q * Q * Q * Q)"
RUN_OK_FUN_SRC = ("fun cc => let c := fst cc in let '(ms, ma, ss, sa) := snd cc in "
                  "let '(D, ps, sm, m, dr, sd, pm) := fst c in "
                  "let '(ex, B, u, pre, cands, ch, ev) := snd c in "
                  "src_step_ok src_gen src_cand D "
                  "{| s_u := u; s_ps := ps; s_mesh_state := ms; s_mesh_attr := ma; s_smesh_state := ss; s_smesh_attr := sa; s_force := false |} "
                  "dr sd pm ex B pre cands ch ev")


def coq_run_case_src(p):
    base = coq_run_case(p)
    if base is None or "state_mesh" not in p:
        return None
    return (f"({base}, ({cq(p['state_mesh'])}, {cq(p['attr_mesh'])}, {cq(p['state_search_mesh'])}, "
            f"{cq(p.get('attr_search_mesh', p['state_search_mesh']))}))")


AIMED_RATIOS = [  # (search_mesh, mesh): round-half-even ties, ratios below 1/2 (n would be 0 without the floor at 1), large n
    (0.5, 1.0), (1.5, 1.0), (2.5, 1.0), (3.5, 1.0), (4.5, 1.0), (6.5, 1.0), (0.49, 1.0), (0.51, 1.0), (2.0 ** -30, 1.0), (1.0, 1.0),
    (2.0, 1.0), (3.0, 1.0), (7.0, 2.0), (32.0, 1.0), (1.0, 2.0 ** -6), (1024.0, 1.0), (5.0, 2.0), (1.25, 0.5), (2.0 ** -8, 2.0 ** -10),
]


def aimed_case(rng, idx):
    """component cases placed where an edit of poll_mads_2n shows: D >= 2 with n > 1 (non-zero strictly-lower entries: tril / transpose /
    permutation / draw range), ratio ties and ratios < 1/2 (round / maximum), D = 1, poll scales far from 1 (division), 2-D poll scale"""
    D = rng.choice([1, 2, 2, 3, 3, 4, 5, 6])
    sm, m = AIMED_RATIOS[idx % len(AIMED_RATIOS)]
    r = rng.random()
    if r < 0.25:
        ps = [1.0] * D
    elif r < 0.5:
        ps = [2.0 ** rng.randint(-8, 8) for _ in range(D)]
    else:
        ps = [rng.choice([rng.uniform(0.01, 20.0), 1e-6, 1e6, 0.3, 3.0]) for _ in range(D)]
    return dict(D=D, n=n_of(sm, m), ps=ps, sm=sm, m=m, ps_2d=rng.random() < 0.3)
