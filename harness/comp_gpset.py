"""Component correspondence for the GP training-set selection (model M13, Model/GPSet.v).

Drives the REAL get_grid_search_neighbors / _get_fevals_data / add_and_update_gp on synthetic
FunctionLoggers (repeated points, exact distance ties, noise column absent / NaN / SD, tiny logs,
scalar and per-coordinate len_scale, size-option variations), records the real `udist` output as the
distance oracle, and writes the same inputs as Coq cases.  Also the declarative monitor (the
property restated on observables, independent of the Coq model) used on every case and at run level.
"""
from __future__ import annotations

import math

import numpy as np

from vlib.core import cq, cz, cbool, clist, cqlist

REQUIRES = ["PV.Model.Val", "PV.Model.GPSet"]


class StubGP:
    """Only what get_grid_search_neighbors / add_and_update_gp touch."""

    def __init__(self, len_scale=1.0, effective_radius=1.0):
        self.temporary_data = {"len_scale": len_scale, "effective_radius": effective_radius}
        self.X = self.y = self.s2 = None
        self.updates = 0

    def update(self, *a, **k):
        self.updates += 1


# ----------------------------------------------------------------------------- generator

def gen_case(rng, idx):
    """A dict describing one get_grid_search_neighbors call.  Every choice derives from rng."""
    D = rng.choice([1, 2, 2, 3])
    n = rng.choice([0, 1, 1, 2, 3, 5, 8, 12, 20, 35]) if idx % 9 else rng.choice([60, 90])
    mode = rng.choice(["none", "nan", "sd", "sd"])          # no S column / S all NaN (unknown noise) / SDs logged
    grid = rng.choice([0.5, 0.25, 1.0])
    span = rng.choice([1, 2, 3])
    pts = []
    for _ in range(n):
        r = rng.random()
        if pts and r < 0.25:
            x = list(rng.choice(pts))                        # repeated point
        elif r < 0.85:
            x = [grid * rng.randint(-span, span) for _ in range(D)]   # mesh points: many exact distance ties
        else:
            x = [rng.uniform(-2, 2) for _ in range(D)]
        pts.append(x)
    Y = [rng.choice([rng.uniform(-5, 5), float(rng.randint(-3, 3)), 0.1 * rng.randint(0, 30)]) for _ in range(n)]
    if mode == "sd":
        S = [rng.choice([0.1, 0.25, 0.5, 1.0, 2.0, 3.0, rng.uniform(0.01, 4)]) for _ in range(n)]
    else:
        S = [None] * n
    xmax = n - 1
    if n >= 2 and rng.random() < 0.15:
        xmax = n - 1 - rng.choice([1, 1, 2])                 # rows beyond X_max_idx must be ignored
        xmax = max(xmax, -1)
    r = rng.random()
    if pts and r < 0.7:
        u = [list(rng.choice(pts))]
    elif r < 0.9:
        u = [[grid * rng.randint(-span, span) for _ in range(D)]]
    else:
        u = [[rng.uniform(-2, 2) for _ in range(D)] for _ in range(2)]   # two reference points: row minimum
    ls = rng.random()
    if ls < 0.35:
        len_scale = rng.choice([1, 1.0, 0.5, 2.0])
    elif ls < 0.5:
        len_scale = rng.uniform(0.05, 3)
    else:
        len_scale = [rng.choice([0.5, 1.0, 2.0, rng.uniform(0.05, 3)]) for _ in range(D)]
    opts = dict(
        n_train_min=rng.choice([0, 1, 2, 3, 5, 10, 50]),
        n_train_max=rng.choice([1, 2, 4, 8, 20, 70]),
        buffer_ntrain=rng.choice([0, 1, 3, 100, 100, -2]),
        gp_radius=rng.choice([3, 3, 1, 0.5, 0.1, 2.5]),
    )
    eff = rng.choice([1.0, 1.0, [0.8], [1.7], 2.5, rng.uniform(0.1, 3)])
    return dict(D=D, X=pts, Y=Y, S=S, mode=mode, xmax=xmax, u=u, len_scale=len_scale, opts=opts, eff=eff)


def make_logger(case):
    from pybads.function_logger import FunctionLogger
    D, n = case["D"], len(case["X"])
    noise = case["mode"] != "none"
    fl = FunctionLogger(None, D, noise, 2 if case["mode"] == "sd" else (1 if noise else 0), cache_size=max(n, 1) + 2)
    if n:
        fl.X[:n] = np.array(case["X"], dtype=float).reshape(n, D)
        fl.X_orig[:n] = fl.X[:n]
        fl.Y[:n, 0] = case["Y"]
        fl.Y_orig[:n, 0] = case["Y"]
        if case["mode"] == "sd":
            fl.S[:n, 0] = case["S"]
        fl.X_flag[:n] = True
        fl.n_evals[:n] = 1
    fl.Xn = n - 1
    fl.X_max_idx = case["xmax"]
    fl.func_count = n
    return fl


def radius2_of(opts, eff):
    """(gp_radius * effective_radius)**2 with the same float operations as the code."""
    radius = opts["gp_radius"] * (np.array(eff, dtype=float) if isinstance(eff, list) else eff)
    r2 = radius ** 2
    return float(np.asarray(r2).reshape(-1)[0])


def run_real(case):
    """Call the real function; returns dict(dist=matrix as recorded from udist, U, Y, S2, ntrain) or dict(exc=...)."""
    import pybads.bads.gaussian_process_train as G
    fl = make_logger(case)
    D = case["D"]
    ls = case["len_scale"]
    gp = StubGP(np.array(ls, dtype=float) if isinstance(ls, list) else ls,
                np.array(case["eff"], dtype=float) if isinstance(case["eff"], list) else case["eff"])
    optim_state = dict(lb=-4 * np.ones((1, D)), ub=4 * np.ones((1, D)), scale=np.ones((1, D)),
                       periodic_vars=np.zeros(D, dtype=bool))
    rec = []
    orig = G.udist

    def udist_rec(*a, **k):
        d = orig(*a, **k)
        rec.append(np.array(d, dtype=float, copy=True))
        return d

    G.udist = udist_rec
    try:
        u = np.array(case["u"], dtype=float)
        if u.shape[0] == 1:
            u = u[0]
        try:
            U, Y, S2 = G.get_grid_search_neighbors(fl, u, gp, dict(case["opts"]), optim_state)
        except Exception as ex:  # canonicalised
            return dict(exc=type(ex).__name__, msg=str(ex)[:200])
    finally:
        G.udist = orig
    if len(rec) != 1:
        return dict(exc="HarnessError", msg=f"udist called {len(rec)} times")
    d = rec[0]
    if d.ndim == 1:
        d = d.reshape(-1, 1)
    return dict(dist=d.tolist(), U=np.asarray(U).tolist(), Y=np.asarray(Y).reshape(-1).tolist(),
                S2=None if S2 is None else np.asarray(S2).reshape(-1).tolist(),
                ntrain=int(optim_state["ntrain"]))


# ----------------------------------------------------------------------------- Coq side

def c_optq(v):
    if v is None or (isinstance(v, float) and math.isnan(v)):
        return "None"
    return f"(Some {cq(float(v))})"


def c_lrow(x, y, s):
    return f"({cqlist([float(t) for t in x])}, {cq(float(y))}, {c_optq(s)})"


def coq_gsn_case(X, Y, S, xmax, dist, radius2, opts, real):
    """((xmax, dmat, radius2, n_min, n_max, buffer, full), (real rows, real ntrain))"""
    full = clist([c_lrow(x, y, s) for x, y, s in zip(X, Y, S)])
    dmat = clist([cqlist([float(t) for t in r]) for r in dist])
    s2 = real["S2"] if real["S2"] is not None else [None] * len(real["U"])
    rows = clist([c_lrow(x, y, s) for x, y, s in zip(real["U"], real["Y"], s2)])
    return (f"(({cz(xmax)}, {dmat}, {cq(radius2)}, {cz(opts['n_train_min'])}, {cz(opts['n_train_max'])}, "
            f"{cz(opts['buffer_ntrain'])}, {full}), ({rows}, {cz(real['ntrain'])}))")


REQUIRES_SRC = ["PV.Model.Val", "PV.Model.GPSet", "PV.Model.GPSetSrc", "PV.gen.Src_gpset"]
GSN_OK_SRC = ("fun c => let '(xmax, dmat, r2, nmin, nmax, buf, full) := fst c in "
              "gsn_src_matches src_gsn xmax dmat r2 nmin nmax buf full (fst (snd c)) (snd (snd c))")
ADD_OK_SRC = "fun c => let '(g, x, y, sd, sp) := fst c in opt_gpdata_ok (run_add src_add x y sd sp g) (snd c)"
FEV_OK_SRC = "fun c => lrows_ok (run_fevals src_fevals (fst (fst c)) (snd (fst c))) (snd c)"


def run_cases_both(name, case_ty, ok_fun, ok_fun_src, cases, shard=400, timeout=900, with_src=True):
    """Like core.run_cases, but every shard is evaluated twice on the SAME literals: by the hand-written model (ok_fun) and by the
    interpreters of Model/GPSetSrc.v on the GENERATED programs (ok_fun_src).  with_src=False (the translator failed, gen/Src_gpset.v
    holds no definitions): the model only.  Returns (compiled, bad_model, bad_src or None, log)."""
    from concurrent.futures import ThreadPoolExecutor
    from vlib import core
    req = REQUIRES_SRC if with_src else REQUIRES
    tg = [r[3:].replace(".", "/") + ".vo" for r in req if r.startswith("PV.")]
    okb, logb = core.coq_make(tg)
    if not okb:
        if with_src:      # the generated file does not build: still evaluate the model
            c, bm, _, log = run_cases_both(name, case_ty, ok_fun, ok_fun_src, cases, shard, timeout, with_src=False)
            return c, bm, None, "generated program does not build; " + log
        return False, [], None, "required modules do not build:\n" + logb[-2000:]
    shards = [cases[i:i + shard] for i in range(0, len(cases), shard)] or [[]]

    def one(k):
        body = f"\nDefinition the_cases : list ({case_ty}) := " + clist(["\n  " + c for c in shards[k]]) + ".\n"
        body += f"Eval vm_compute in (bad_indices ({ok_fun}) the_cases).\n"
        if with_src:
            body += f"Eval vm_compute in (bad_indices ({ok_fun_src}) the_cases).\n"
        ok, out = core.coq_eval(f"{name}_{k}", req, body, timeout=timeout)
        ev = core.split_evals(out) if ok else []
        lists = [core.parse_nat_list(e) for e in ev]
        if not ok or len(lists) != (2 if with_src else 1) or any(x is None for x in lists):
            return False, None, None, out
        return True, lists[0], (lists[1] if with_src else None), out
    with ThreadPoolExecutor(max_workers=min(12, len(shards))) as ex:
        res = list(ex.map(one, range(len(shards))))
    allok, bm, bs, log = True, [], [], ""
    for k, (ok, a, b, out) in enumerate(res):
        if not ok:
            allok = False
            log += f"[shard {k}] coqc failed:\n{out[-3000:]}\n"
        else:
            bm += [k * shard + i for i in a]
            if with_src:
                bs += [k * shard + i for i in b]
    return allok, bm, (bs if with_src else None), log


GSN_TY = "(Z * list (list Q) * Q * Z * Z * Z * list lrow) * (list lrow * Z)"
GSN_OK = ("fun c => let '(xmax, dmat, r2, nmin, nmax, buf, full) := fst c in "
          "gsn_matches xmax dmat r2 nmin nmax buf full (fst (snd c)) (snd (snd c))")


def case_to_coq(case, real):
    S = case["S"]
    return coq_gsn_case(case["X"], case["Y"], S, case["xmax"], real["dist"], radius2_of(case["opts"], case["eff"]),
                        case["opts"], real)


# --- add_and_update_gp / _get_fevals_data cases

def gen_add_case(rng):
    D = rng.choice([1, 2, 3])
    n = rng.choice([0, 1, 2, 5])
    has_s2 = rng.random() < 0.6
    X = [[rng.choice([0.0, 0.5, rng.uniform(-1, 1)]) for _ in range(D)] for _ in range(n)]
    y = [rng.uniform(-3, 3) for _ in range(n)]
    s2 = [rng.choice([0.01, 0.25, float("nan")]) for _ in range(n)] if has_s2 else None
    x_new = [rng.uniform(-1, 1) for _ in range(D)]
    y_form = rng.choice(["float", "arr1", "np"])
    y_new = rng.uniform(-3, 3)
    sd = rng.choice([None, 0.1, 0.5, 2.0, rng.uniform(0.01, 3)])
    specify = rng.random() < 0.6
    return dict(D=D, X=X, y=y, s2=s2, x_new=x_new, y_new=y_new, y_form=y_form, sd=sd, specify=specify)


def run_add_real(c):
    import pybads.bads.gaussian_process_train as G
    gp = StubGP()
    D, n = c["D"], len(c["X"])
    gp.X = np.array(c["X"], dtype=float).reshape(n, D)
    gp.y = np.array(c["y"], dtype=float).reshape(n, 1)
    gp.s2 = None if c["s2"] is None else np.array(c["s2"], dtype=float).reshape(n, 1)
    y_new = {"float": c["y_new"], "arr1": np.array([c["y_new"]]), "np": np.float64(c["y_new"])}[c["y_form"]]
    try:
        g2 = G.add_and_update_gp(None, gp, np.array(c["x_new"]), y_new, c["sd"], {"specify_target_noise": c["specify"]})
    except Exception as ex:
        return dict(exc=type(ex).__name__)
    return dict(X=g2.X.tolist(), y=g2.y.reshape(-1).tolist(), s2=None if g2.s2 is None else g2.s2.reshape(-1).tolist(),
                shapes=[list(g2.X.shape), list(g2.y.shape), None if g2.s2 is None else list(g2.s2.shape)], updates=gp.updates)


def c_gpdata(X, y, s2):
    s = "None" if s2 is None else "(Some " + clist([c_optq(v) for v in s2]) + ")"
    return f"(mkG {clist([cqlist([float(t) for t in r]) for r in X])} {cqlist([float(t) for t in y])} {s})"


def coq_add_case(c, real):
    exp = "None" if "exc" in real else "(Some " + c_gpdata(real["X"], real["y"], real["s2"]) + ")"
    sd = "None" if c["sd"] is None else f"(Some {cq(c['sd'])})"
    return (f"(({c_gpdata(c['X'], c['y'], c['s2'])}, {cqlist(c['x_new'])}, {cq(c['y_new'])}, {sd}, {cbool(c['specify'])}), {exp})")


ADD_TY = "(gpdata * list Q * Q * option Q * bool) * option gpdata"
ADD_OK = "fun c => let '(g, x, y, sd, sp) := fst c in opt_gpdata_ok (add_and_update g x y sd sp) (snd c)"


def run_fevals_real(case, flags):
    import pybads.bads.gaussian_process_train as G
    fl = make_logger(case)
    n = len(case["X"])
    fl.X_flag[:] = False
    fl.X_flag[:n] = flags
    x, y, s2, _ = G._get_fevals_data(fl)
    return dict(U=x.tolist(), Y=y.reshape(-1).tolist(), S2=None if s2 is None else s2.reshape(-1).tolist())


def coq_fevals_case(case, flags, real):
    full = clist([c_lrow(x, y, s) for x, y, s in zip(case["X"], case["Y"], case["S"])])
    s2 = real["S2"] if real["S2"] is not None else [None] * len(real["U"])
    rows = clist([c_lrow(x, y, s) for x, y, s in zip(real["U"], real["Y"], s2)])
    return f"(({clist([cbool(f) for f in flags])}, {full}), {rows})"


FEV_TY = "(list bool * list lrow) * list lrow"
FEV_OK = "fun c => lrows_ok (fevals_data (fst (fst c)) (snd (fst c))) (snd c)"


# ----------------------------------------------------------------------------- monitor

def _sq(s):
    return float(np.square(np.float64(s)))


def monitor_selection(X, Y, S, xmax, dist, radius2, opts, out_U, out_Y, out_S2, ntrain_reported=None, noise_flag=None):
    """The property restated on observables (independent of the Coq model).
    X, Y: logged arrays (lists); S: list of SD / None (None = no SD logged); dist: one number per prefix row
    (already the row minimum); out_*: what the GP received.  Returns None or (key, message)."""
    npre = max(0, min(len(X), xmax + 1))
    if len(dist) != npre:
        return ("prefix", f"the selection looked at {len(dist)} logged rows but the log holds {npre} (rows 0..X_max_idx = {xmax})")
    within = sum(1 for d in dist if d <= radius2)
    want = min(max(opts["n_train_min"], opts["n_train_max"] - opts["buffer_ntrain"], min(opts["n_train_max"], within)), xmax + 1)
    m = len(out_U)
    if ntrain_reported is not None and ntrain_reported != want:
        return ("size", f"ntrain {ntrain_reported} != min(max(n_min {opts['n_train_min']}, n_max-buffer "
                        f"{opts['n_train_max'] - opts['buffer_ntrain']}, min(n_max {opts['n_train_max']}, within-radius {within})), logged {xmax + 1}) = {want}")
    if m != max(0, min(want, npre)):
        return ("size", f"training set has {m} rows, the size rule gives {want} (logged {npre}, within radius {within}, options {opts})")
    if opts["n_train_min"] >= 0 and not (min(opts["n_train_min"], npre) <= m <= npre):
        return ("size", f"training set size {m} outside [min(n_min, logged) = {min(opts['n_train_min'], npre)}, logged = {npre}]")
    if len(out_Y) != m or (out_S2 is not None and len(out_S2) != m):
        return ("shape", f"columns of different length: X {m}, y {len(out_Y)}, s2 {None if out_S2 is None else len(out_S2)}")
    if noise_flag is not None and (out_S2 is not None) != bool(noise_flag):
        return ("noise-column", f"noise column {'present' if out_S2 is not None else 'absent'} but logger noise_flag = {noise_flag}")
    used = [False] * npre
    ds = []
    for j in range(m):
        hit = None
        key, why = "not-logged", "no logged row has this input"
        for i in range(npre):
            if used[i] or list(X[i]) != list(out_U[j]):
                continue
            if Y[i] != out_Y[j]:
                if key == "not-logged":
                    why = f"logged value(s) at this input differ (e.g. row {i}: {Y[i]})"
                continue
            if out_S2 is not None:
                s = S[i]
                o = out_S2[j]
                if s is None or (isinstance(s, float) and math.isnan(s)):
                    if not (isinstance(o, float) and math.isnan(o)):
                        key, why = "noise-not-variance", f"row {i} has no logged SD but the GP got noise {o}"
                        continue
                elif o != _sq(s):
                    key = "noise-not-variance"
                    why = (f"row {i}: logged SD {s}, SD^2 = {_sq(s)}, but the GP got noise {o}"
                           + (" (= the SD itself, not the variance)" if o == s else ""))
                    continue
            hit = i
            break
        if hit is None:
            return (key, f"training row {j} (input {list(out_U[j])}, value {out_Y[j]}) is not an unused logged pair: {why}")
        used[hit] = True
        ds.append(dist[hit])
    for j in range(1, m):
        if ds[j] < ds[j - 1]:
            return ("order", f"training rows {j - 1},{j} not ordered by distance to the incumbent: {ds[j - 1]} then {ds[j]}")
    if m:
        far = max(ds)
        for i in range(npre):
            if not used[i] and dist[i] < far:
                return ("not-nearest", f"logged row {i} (distance {dist[i]}) was left out although a kept row is farther ({far})")
    return None


def metric_check(Xpre, u, len_scale, dmat):
    """`nearest ... in the GP's length-scaled metric`: the distances the selection used (as recorded from udist) are, for every
    logged row i and reference point j, sum_k ((X[i][k] - u[j][k]) / len_scale[k])**2 (non-periodic variables), recomputed here
    independently at 1e-9 relative.  Returns None or (key, message)."""
    X = np.asarray(Xpre, dtype=float)
    if X.size == 0:
        return None
    X = X.reshape(len(Xpre), -1)
    U = np.atleast_2d(np.asarray(u, dtype=float))
    ls = np.asarray(len_scale, dtype=float).reshape(-1)
    d = np.asarray(dmat, dtype=float).reshape(X.shape[0], -1)
    if U.shape[1] != X.shape[1] or d.shape[1] != U.shape[0]:
        return ("metric", f"the selection measured {d.shape[1]} distance column(s) for {U.shape[0]} centre point(s) of dimension {U.shape[1]} "
                          f"(log dimension {X.shape[1]})")
    want = np.sum(((X[:, None, :] - U[None, :, :]) / ls) ** 2, axis=2)
    err = np.abs(d - want) - 1e-9 * np.abs(want) - 1e-13
    if np.any(err > 0) or np.any(np.isnan(d) != np.isnan(want)):
        i, j = np.unravel_index(int(np.nanargmax(np.where(np.isnan(err), np.inf, err))), err.shape)
        return ("metric", f"logged row {i} = {X[i].tolist()} is at length-scaled squared distance {want[i, j]} from the centre {U[j].tolist()} "
                          f"(len_scale {ls.tolist()}), but the selection used {d[i, j]}")
    return None


def monitor_case(case, real):
    if "exc" in real:
        return ("exception", f"get_grid_search_neighbors raised {real['exc']}: {real.get('msg')}")
    npre = max(0, min(len(case["X"]), case["xmax"] + 1))
    if len(real["dist"]) == npre:
        mm = metric_check(case["X"][:npre], case["u"], case["len_scale"], real["dist"])
        if mm:
            return mm
    dist = [min(r) for r in real["dist"]]
    return monitor_selection(case["X"], case["Y"], case["S"], case["xmax"], dist, radius2_of(case["opts"], case["eff"]),
                             case["opts"], real["U"], real["Y"], real["S2"], real["ntrain"], case["mode"] != "none")


def monitor_fevals(case, flags):
    """Initial training set: `each training pair is a logged evaluation, supplied noise entering as the logged SD squared` — the flagged
    rows of the log, in log order."""
    try:
        r = run_fevals_real(case, flags)
    except Exception as ex:
        return ("exception", f"_get_fevals_data raised {type(ex).__name__}: {ex}")
    rows = [i for i, f in enumerate(flags) if f]
    if r["U"] != [list(map(float, case["X"][i])) for i in rows] or r["Y"] != [float(case["Y"][i]) for i in rows]:
        return ("not-logged", f"_get_fevals_data does not return the flagged logged rows {rows}: inputs {r['U']}, values {r['Y']}")
    if case["mode"] == "none":
        return None if r["S2"] is None else ("noise-column", "noise column returned although the logger has none")
    if r["S2"] is None or len(r["S2"]) != len(rows):
        return ("noise-column", "noise column missing / of another length")
    for j, i in enumerate(rows):
        s, o = case["S"][i], r["S2"][j]
        if s is None:
            if not math.isnan(o):
                return ("noise-not-variance", f"row {i} has no logged SD but the initial training set got noise {o}")
        elif o != _sq(s):
            return ("noise-not-variance", f"row {i}: logged SD {s}, SD^2 = {_sq(s)}, but the initial training set got noise {o}")
    return None


def monitor_add(c, real):
    if "exc" in real:
        if c["specify"] and c["sd"] is not None and c["s2"] is None:
            return None      # np.concatenate((None, ...)): the model says None too
        return ("append", f"add_and_update_gp raised {real['exc']}")
    n = len(c["X"])
    if real["X"] != [list(map(float, r)) for r in c["X"]] + [list(map(float, c["x_new"]))]:
        return ("append", "gp.X after add_and_update_gp is not the old rows followed by x_new")
    if real["y"] != list(c["y"]) + [c["y_new"]]:
        return ("append", "gp.y after add_and_update_gp is not the old values followed by y_new")
    if real["shapes"][1] != [n + 1, 1]:
        return ("append", f"gp.y has shape {real['shapes'][1]}")
    if c["specify"] and c["sd"] is not None:
        exp = list(c["s2"]) + [_sq(c["sd"])]
        got = real["s2"]
        same = got is not None and len(got) == len(exp) and all((a == b) or (a != a and b != b) for a, b in zip(got, exp))
        if not same:
            return ("noise-not-variance", f"appended noise {None if not got else got[-1]} for supplied SD {c['sd']} (SD^2 = {_sq(c['sd'])})")
    else:
        got, exp = real["s2"], c["s2"]
        same = (got is None and exp is None) or (got is not None and exp is not None and len(got) == len(exp))
        if not same:
            return ("append", "gp.s2 changed although no noise was supplied")
    if real["updates"] != 1:
        return ("append", f"posterior updated {real['updates']} times")
    return None


def shrink_case(case, failing):
    """Greedy row deletion preserving failing(case)."""
    import copy
    c = copy.deepcopy(case)
    i = 0
    while i < len(c["X"]):
        if len(c["X"]) <= 1:
            break
        d = copy.deepcopy(c)
        for k in ("X", "Y", "S"):
            del d[k][i]
        d["xmax"] = min(d["xmax"], len(d["X"]) - 1)
        if d["xmax"] == c["xmax"] and c["xmax"] == len(c["X"]) - 1:
            d["xmax"] = len(d["X"]) - 1
        try:
            bad = failing(d)
        except Exception:
            bad = False
        if bad:
            c = d
        else:
            i += 1
    return c
