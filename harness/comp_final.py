"""The tail of optimize() regenerated from the source (translate/final.py -> gen/Src_final.v): translator validation, a declarative
monitor of the tail's rules, and the directed search used when the translation or an `..._is_source` proof breaks.

(1) tie_final: for every recorded END-GAME of the panel (harness/trace.py: the last probe, the history re-evaluation of the final phase,
    the incumbent seen by every final logger call (`final_sel`), the final calls with their record flag and point, the result) the GENERATED
    definitions (not the skeleton's) are applied by Coq (vm_compute) to the recorded inputs and compared with the recorded outcome: does the
    noisy end-game run, which history row is restored (all four fields), how many logger calls, with which flag, at which point, the stored
    yval_vec / ysd_vec, mean / SEM of the stored vector.  One boolean Coq expression per decision.
(2) tie_result_assembly: the generated (key, source expression) list of OptimizeResult.set_attributes against the REAL OptimizeResult on
    generated optimiser states (every branch of target_type / problem_type / yval_vec / ysd_vec).
(3) mon_final: the tail's rules restated on the observables, independent of the Coq model and of the translator.
(4) search_final: real runs chosen for the edited region (noise_final_samples 0 / 1 / 2 / 10, specified / declared / auto noise, runs stopping in
    iteration 0 and later), the property's monitors applied to them.
"""
from __future__ import annotations

import math
import types

import numpy as np

from harness import skel as S
from harness import runlevel as R
from vlib import core
from vlib.core import cq, clist, cqlist, cstr


class Shape(Exception):
    pass


def _z(v):
    if isinstance(v, bool) or float(v) != int(v):
        raise Shape(f"not an integer: {v!r}")
    return f"({int(v)})%Z"


def _b(v):
    return "true" if v else "false"


def _q(v):
    if v is None or (isinstance(v, float) and not math.isfinite(v)):
        raise Shape(f"non-finite float {v!r}")
    return cq(float(v))


def _ql(l):
    if l is None or any(v is None or not math.isfinite(float(v)) for v in l):
        raise Shape("vector with a missing / non-finite entry")
    return cqlist([float(v) for v in l])


def _inc(u, y, f, s):
    return f"(mkI {_ql(u)} {_q(y)} {_q(f)} {_q(s)})"


def translator():
    from translate import final as TF
    return TF


def available():
    return bool(translator().LAST.get("defs"))


# ------------------------------------------------------------------------------- the recorded end-game

def endgame(tr):
    """-> dict of the recorded inputs / outcomes of the tail, or None when the run has no complete end-game"""
    if "events" not in tr or tr.get("exc") or "result" not in tr or "final" not in tr:
        return None
    ev = tr["events"]
    ip = [i for i, e in enumerate(ev) if e[0] == "probe"]
    if not ip or not ev[ip[-1]][1]["is_finished"]:
        return None
    last = ev[ip[-1]]
    tail = ev[ip[-1] + 1:]
    fin = tr["final"]
    E = dict(level=last[2]["level"], piter=last[1]["poll_iteration"], nfs=int(fin["nfs"]), tail=tail, last=last,
             ran=any(e[0] == "reeval" for e in tail), fcalls=[c for c in tr["calls"] if c["phase"] == "final"],
             sels=[e[1] for e in tail if e[0] == "final_sel"], spec=bool(tr["options0"].get("specify_target_noise")),
             fq=float(fin["final_quantile"]), snap=fin["snap"], hist=fin["hist"], res=tr["result"], logS=fin.get("logS"))
    re = [e for e in tail if e[0] == "reeval"]
    E["fv"], E["fs"] = (re[0][2], re[0][3]) if re else (None, None)
    return E


def sigma_of(fq):
    from scipy.special import erfcinv
    TF = translator()
    return float(np.sqrt(2) * erfcinv(TF.q_eval(TF.LAST["info"]["qarg"], dict(fq=fq))))


def cases_of_trace(tr):
    """[(Coq boolean expression | None, label)] for the end-game of the run"""
    E = endgame(tr)
    if E is None:
        return []
    out = []
    L = lambda what: f"end-game: {what}"
    try:
        level, piter, nfs = E["level"], E["piter"], E["nfs"]
        out.append((f"(Bool.eqb (src_final_guard {_z(level)} {_z(piter)}) {_b(E['ran'])})", L("the noisy end-game runs")))
        out.append((f"(Z.eqb (src_final_calls {_z(level)} {_z(piter)} {_z(nfs)}) {_z(len(E['fcalls']))})", L("number of logger calls after the loop")))
        if not E["ran"]:
            return out
        if E["fcalls"]:
            out.append((f"(src_alloc_ok {_z(nfs)})", L("size of the allocated sample vectors")))
        fv, fs, hu, hy = E["fv"], E["fs"], E["hist"]["u"], E["hist"]["yval"]
        if hu is None or hy is None or not (len(fv) == len(fs) == len(hu) == len(hy)):
            raise Shape("history columns of different lengths")
        sigma = sigma_of(E["fq"])
        t = "[" + "; ".join(f"({cstr(k)}, {_ql(v)})" for k, v in (("yval", hy), ("fval", fv), ("fsd", fs))) + "]"
        hu_c = clist([_ql(u) for u in hu])
        if E["sels"]:
            s0 = E["sels"][0]
            cy, cf, cs, cu = s0["yval"], s0["fval"], s0["fsd"], s0["u"]
        else:
            sn = E["snap"]
            cy, cf, cs, cu = sn["yval"], sn["fval"], sn["fsd"], sn["u"]
        out.append((f"(sel_ok {_q(sigma)} {t} {hu_c} {_z(piter)} {_inc(cu, cy, cf, cs)})", L("the four restored incumbent fields (u, yval, fval, fsd)")))
        sn = E["snap"]
        out.append((f"(sel_uy_ok {_q(sigma)} {t} {hu_c} {_z(piter)} {_ql(sn['u'])} {_q(sn['yval'])})", L("the returned (u, yval)")))
        if E["fcalls"]:
            flags = clist([_b(c.get("record", True)) for c in E["fcalls"]])
            pts = clist([_ql(c["u"]) for c in E["fcalls"]])
            out.append((f"(calls_ok {flags} {pts} {_ql(cu)})", L("record flag and point of the final logger calls")))
        yv = E["res"]["yval_vec"]
        if E["fcalls"] and yv is not None:
            ys = [c["out"][1] for c in E["fcalls"]]
            sds = [(c["out"][2] if E["spec"] else 0.0) for c in E["fcalls"]]
            # the SD supplement is GENERATED from the log (rows X[: Xn + 1], SDs S, the chosen internal point, Xn): only consulted with exactly one final sample
            sup = "(0 # 1)"
            if E["spec"] and len(E["fcalls"]) == 1 and E["logS"] and tr["final"].get("logX"):
                lx = tr["final"]["logX"]
                sup = f"(src_fs_sdsuppl {clist([_ql(r) for r in lx])} {_ql(E['logS'])} {_ql(cu)} {_z(len(lx) - 1)})"
            args = f"{_ql(ys)} {_ql(sds)} {_q(cy)} {_q(cf)} {_q(cs)} {sup} {_b(E['spec'])}"
            out.append((f"(qlist_eqb_v (src_fs_yvec {args}) {_ql(yv)})", L("yval_vec")))
            if E["spec"] and E["res"]["ysd_vec"] is not None:
                out.append((f"(qlist_eqb_v (src_fs_sdvec {args}) {_ql(E['res']['ysd_vec'])})", L("ysd_vec")))
            out.append((f"(est_ok {_ql(yv)} {_q(E['res']['fval'])} {_q(E['res']['fsd'])})", L("fval / fsd are mean / SEM of the stored vector")))
    except (Shape, KeyError, TypeError, ValueError, IndexError) as ex:
        out.append((None, f"end-game not usable ({ex!r})"))
    return out


def tie_final(ctx, broken, out, name):
    """out: [(trace, parsed)] as returned by runlevel.tie_skeleton"""
    if not available():
        ctx.oblige(f"correspondence:final_src:{name}", "correspondence", False, "gen/Src_final.v was not generated")
        broken.append((f"correspondence:final_src:{name}", "the generated definitions of the tail are not available (translator failed)"))
        return
    TF = translator()
    exprs, where, skipped, n_end, n_ran, n_sampled = [], [], 0, 0, 0, 0
    xbad = []
    for ti, (tr, _) in enumerate(out):
        if "harness_exc" in tr or "construct_exc" in tr:
            continue
        cs = cases_of_trace(tr)
        if cs:
            n_end += 1
            E = endgame(tr)
            n_ran += bool(E["ran"])
            n_sampled += bool(E["fcalls"])
            # (e) self.x = inverse_transf(self.u): the returned x is the inverse image of the final internal point
            xs = {d[0]: d[3] for d in TF.LAST["defs"]}.get("x_source")
            if xs == '"inverse_transf(self.u)"' and tr["final"].get("inv_u") is not None and tr["result"]["x"] != tr["final"]["inv_u"]:
                xbad.append((tr["spec"], tr["result"]["x"], tr["final"]["inv_u"]))
        for expr, label in cs:
            if expr is None:
                skipped += 1
                continue
            exprs.append(expr)
            where.append((ti, label))
    okc, bad, log = core.run_cases(f"finalsrc_{ctx.pid}_{name}", ["PV.Model.Val", "PV.Model.Skeleton", "PV.Model.SkeletonNoisy", "PV.Model.FinalLib", "PV.gen.Src_final", "PV.Model.FinalSrc"],
                                   "bool", "fun c => c", exprs, shard=max(20, len(exprs) // 12 + 1))
    ok = ctx.oblige(f"correspondence:final_src:{name}", "correspondence", okc and not bad and not xbad,
                    f"{len(bad)} of {len(exprs)} decisions of {n_end} recorded end-games ({n_ran} noisy end-games, {n_sampled} re-sampled) differ from the generated definitions; "
                    f"{len(xbad)} returned x are not inverse_transf(u); " + log[-300:])
    cv = ctx.coverage
    cv["final_src_decisions_compared"] = cv.get("final_src_decisions_compared", 0) + len(exprs)
    cv["final_src_endgames"] = cv.get("final_src_endgames", 0) + n_end
    cv["final_src_noisy_endgames"] = cv.get("final_src_noisy_endgames", 0) + n_ran
    cv["final_src_resampled"] = cv.get("final_src_resampled", 0) + n_sampled
    cv["final_src_skipped_parts"] = cv.get("final_src_skipped_parts", 0) + skipped
    if not ok:
        ex = []
        for b in bad[:3]:
            ti, label = where[b]
            ex.append(f"{out[ti][0]['spec']} {label}: {exprs[b][:300]}")
            ctx.bad_traces = getattr(ctx, "bad_traces", []) + [out[ti][0]]
        for sp, x, iu in xbad[:1]:
            ex.append(f"{sp} returned x {x} != inverse_transf(u) {iu}")
        broken.append((f"correspondence:final_src:{name}", f"generated definitions of the tail and optimize() differ on {len(bad)} decisions, e.g. {ex} {log[-300:]}"))


# ------------------------------------------------------------------------------- (f) the assembly list against the real OptimizeResult

def _fake_bads(rng):
    D = rng.choice([1, 2, 3])
    level = rng.choice([0, 1, 2])
    inf = rng.random() < 0.4
    ns = types.SimpleNamespace()
    ns.function_logger = types.SimpleNamespace(fun=abs, func_count=rng.randint(1, 500))
    ns.non_box_cons = rng.choice([None, None, len])
    ns.optim_state = dict(uncertainty_handling_level=level, iter=rng.randint(0, 40), overhead=rng.random(), total_time=rng.random() * 10,
                          random_seed=rng.choice([None, 0, 7, 123]), termination_msg=rng.choice(["a", "b", ""]), fsd=rng.random(), fval=rng.random())
    if rng.random() < 0.7:
        ns.optim_state["yval_vec"] = np.array([rng.random() for _ in range(rng.choice([1, 2, 5]))])
    if rng.random() < 0.7:
        ns.optim_state["ysd_vec"] = np.array([rng.random() for _ in range(rng.choice([1, 2, 5]))])
    ns.options = dict(specify_target_noise=rng.random() < 0.5, noise_final_samples=rng.choice([0, 0, 1, 3, 10]))
    ns.lower_bounds = np.full((1, D), -np.inf) if inf else np.array([[-rng.random() - 1 for _ in range(D)]])
    ns.upper_bounds = np.full((1, D), np.inf) if (inf and rng.random() < 0.8) else np.array([[rng.random() + 1 for _ in range(D)]])
    ns.mesh_size = 2.0 ** rng.randint(-12, 0)
    ns.x0 = np.array([[rng.random() for _ in range(D)]])
    ns.x = np.array([[rng.random() for _ in range(D)]])
    ns.fval, ns.fsd = rng.random(), rng.random()
    return ns


def _same(a, b):
    if a is None or b is None:
        return a is b
    if isinstance(a, np.ndarray) or isinstance(b, np.ndarray):
        return isinstance(a, np.ndarray) and isinstance(b, np.ndarray) and a.shape == b.shape and bool(np.array_equal(a, b))
    if callable(a) or callable(b):
        return a is b
    return type(a) == type(b) and a == b


def tie_result_assembly(ctx, broken, n=150):
    if not available():
        return
    import logging
    from importlib.metadata import version, PackageNotFoundError
    from pybads.bads.optimize_result import OptimizeResult
    pairs = translator().LAST["info"]["result_assembly"]
    try:
        ver = version("pybads")
    except PackageNotFoundError:
        ver = None
    bad, branches = [], {}
    logging.disable(logging.CRITICAL)
    try:
        for i in range(n):
            ns = _fake_bads(ctx.rng)
            try:
                real = OptimizeResult(ns)
            except Exception as ex:
                bad.append((i, "constructor raised " + repr(ex)[:120]))
                continue
            if [k for k, _ in pairs] != list(dict.keys(real)):
                bad.append((i, f"keys in assignment order {list(dict.keys(real))} != generated {[k for k, _ in pairs]}"))
                continue
            for k, src in pairs:
                want = ver if k == "version" else eval(src, {"bads": ns, "np": np})      # noqa: S307 (the text was produced by the translator from the source)
                if not _same(dict.__getitem__(real, k), want):
                    bad.append((i, f"key {k}: real {dict.__getitem__(real, k)!r} != generated source `{src}` = {want!r}"))
            for k in ("target_type", "problem_type"):
                branches[real[k]] = branches.get(real[k], 0) + 1
            for k in ("yval_vec", "ysd_vec"):
                tag = f"{k}:{'set' if real[k] is not None else 'None'}"
                branches[tag] = branches.get(tag, 0) + 1
    finally:
        logging.disable(logging.NOTSET)
    ctx.coverage["result_assembly_branches"] = branches
    ctx.coverage["result_assembly_states"] = n
    if not ctx.oblige("correspondence:final_src:result_assembly", "correspondence", not bad,
                      f"{len(bad)} differences between the real OptimizeResult and the generated (key, source) list on {n} generated optimiser states: {bad[:2]}"):
        broken.append(("correspondence:final_src:result_assembly", f"the generated assembly list of set_attributes does not describe the real OptimizeResult: {bad[:2]}"))


# ------------------------------------------------------------------------------- declarative monitor

def mon_final(tr):
    """The rules of the tail of optimize() restated on the observables (independent of model and translator):
      * the noisy end-game (history re-evaluation, choice of the returned iterate) runs iff the target is treated as stochastic and at least one
        poll iteration completed; the deterministic branch leaves the incumbent alone and makes no call;
      * the returned incumbent (u, yval) and the (fval, fsd) the re-sampling starts from are ONE row i >= 1 of the re-estimated history, and that row
        minimises fval + sqrt(2) erfcinv(2 final_quantile) fsd over the rows >= 1;
      * the re-sampling makes noise_final_samples logger calls iff that number is positive, at the chosen internal point, none of them recorded
        (no log row added);
      * yval_vec = the fresh observations (+ the chosen iterate's observed value when there is exactly one), fval / fsd = its mean / SEM;
      * the returned x is inverse_transf(u); fval, fsd, mesh_size, func_count, x0, random_seed of the result are those of the final state.
    """
    E = endgame(tr)
    if E is None:
        return None
    level, piter, nfs = E["level"], E["piter"], E["nfs"]
    due = level > 0 and piter > 0
    if E["ran"] != due:
        return ("final-guard", f"uncertainty level {level}, {piter} completed poll iterations: the noisy end-game {'ran' if E['ran'] else 'did not run'}")
    want = nfs if (due and nfs > 0) else 0
    if len(E["fcalls"]) != want:
        return ("final-count", f"{len(E['fcalls'])} target calls after the loop, expected {want} (noise_final_samples {nfs}, level {level}, poll iterations {piter})")
    res, sn = E["res"], E["snap"]
    if tr["final"].get("inv_u") is not None and res["x"] != tr["final"]["inv_u"]:
        return ("x-inverse", f"returned x {res['x']} is not inverse_transf(u) = {tr['final']['inv_u']}")
    for k, a, b in (("fval", res["fval"], sn["fval"]), ("fsd", res["fsd"], sn["fsd"]), ("mesh_size", res["mesh_size"], sn["mesh"]), ("func_count", res["func_count"], sn["fc"]),
                    ("x0", res["x0"], tr["problem"]["x0"]), ("random_seed", res["random_seed"], tr["options0"].get("random_seed"))):
        if a != b and not (isinstance(a, float) and isinstance(b, float) and math.isnan(a) and math.isnan(b)):
            return ("result-field:" + k, f"OptimizeResult['{k}'] = {a!r} but the final state holds {b!r}")
    if not due:
        if sn["u"] != E["last"][2]["u"] or sn["yval"] != E["last"][2]["yval"] or sn["fval"] != E["last"][2]["fval"]:
            return ("final-det-touched", "the incumbent changed after the loop although the noisy end-game did not run")
        return None
    fv, fs, hu, hy = E["fv"], E["fs"], E["hist"]["u"], E["hist"]["yval"]
    if hu is None or any(v is None for v in fv) or any(v is None for v in fs) or not (len(fv) == len(fs) == len(hu) == len(hy)):
        return None
    s0 = E["sels"][0] if E["sels"] else dict(u=sn["u"], yval=sn["yval"], fval=sn["fval"], fsd=sn["fsd"])
    rows = [i for i in range(1, len(hu)) if hu[i] == s0["u"] and hy[i] == s0["yval"] and fv[i] == s0["fval"] and fs[i] == s0["fsd"]]
    if not rows or sn["u"] != s0["u"] or sn["yval"] != s0["yval"]:
        return ("final-row", f"the returned incumbent (u {sn['u']}, yval {sn['yval']}) with the estimates the re-sampling started from (fval {s0['fval']}, fsd {s0['fsd']}) is not "
                             f"one row i >= 1 of the re-estimated history")
    from scipy.special import erfcinv
    sm = float(np.sqrt(2) * erfcinv(2 * E["fq"]))
    q = [a + sm * b for a, b in zip(fv, fs)]
    if len(q) > 1 and min(q[i] for i in rows) > min(q[1:]):
        return ("final-quantile-row", f"the chosen history row {rows} does not minimise fval + {sm:.4g} * fsd over the rows >= 1 (scores {q})")
    if E["fcalls"]:
        if any(c.get("record", True) for c in E["fcalls"]) or any(c.get("newrow") for c in E["fcalls"]):
            return ("final-recorded", "a final sample was passed to the logger with record_duplicate_data=True / added a row to the log")
        if any(c["u"] != s0["u"] for c in E["fcalls"]):
            return ("final-point", f"a final sample was taken at internal point {[c['u'] for c in E['fcalls'] if c['u'] != s0['u']][0]}, the chosen iterate is {s0['u']}")
        yv = res["yval_vec"]
        ys = [c["out"][1] for c in E["fcalls"]]
        if yv is None or list(yv)[:len(ys)] != ys or len(yv) != (2 if len(ys) == 1 else len(ys)):
            return ("final-yvec", f"yval_vec {yv} does not consist of the fresh observations {ys}" + (" plus one supplement" if len(ys) == 1 else ""))
        if len(ys) == 1 and yv[1] != s0["yval"]:
            return ("final-suppl", f"the supplement {yv[1]} of yval_vec is not the observed value {s0['yval']} of the chosen iterate")
        m, sem = float(np.mean(np.array(yv))), float(np.std(np.array(yv)) / np.sqrt(len(yv)))
        if abs(res["fval"] - m) > 1e-12 * (1 + abs(m)) or abs(res["fsd"] - sem) > 1e-12 * (1 + abs(sem)):
            return ("final-mean-sem", f"fval / fsd {res['fval']} / {res['fsd']} are not mean / SEM {m} / {sem} of yval_vec")
    return None


def mon_c05_sdsuppl(tr):
    """C05, last clause of its first sentence: "ysd_vec holds the SDs the target reported for them [the observations in yval_vec] when noise is specified".
    With exactly one final sample yval_vec is supplemented by the earlier observation at x; the SD paired with it must then be an SD the target reported AT x
    (or the logger's SD of the row of x).  A hit is a CONCRETE violation of C05 (the text states the clause).  History: the unchanged code used to append
    function_logger.S[function_logger.Xn], the SD of the LAST logged row (finding ysd-supplement-not-at-x, repaired: the supplement is now the SD of the first
    logged row equal to the returned internal point; seeded/C05-revert-ysd-supplement restores the old form)."""
    E = endgame(tr)
    if E is None or not E["spec"] or len(E["fcalls"]) != 1 or E["res"]["ysd_vec"] is None or len(E["res"]["ysd_vec"]) != 2:
        return None
    x, fin = E["res"]["x"], tr["final"]
    at_x = [c["out"][2] for c in tr["calls"] if c["xo"] == x and c["out"] and c["out"][0] == "ok"]
    if fin.get("logS"):
        at_x += [sd for xo, sd in zip(fin["logXo"], fin["logS"]) if xo == x]
    sup = E["res"]["ysd_vec"][1]
    if sup not in at_x:
        last = len(fin["logXo"]) - 1
        return ("ysd-supplement-not-at-x", f"noise_final_samples = 1, specified noise: yval_vec is supplemented by the earlier observation at the returned x {x}, but the SD paired with it, "
                                           f"ysd_vec[1] = {sup}, is none of the SDs reported / logged at x ({sorted(set(at_x))}); it is the SD of the last logged row {last}, "
                                           f"the point {fin['logXo'][last]}")
    return None


# Which clauses of mon_final are claims of WHICH property's text (a hit is then a concrete violation of that property).  Every other clause restates a
# rule of the model (when the end-game runs, that all four fields come from one row, the quantile rule, that the samples are not recorded, ...): a hit
# there means the tie between model and code is broken - reported as a failed obligation `correspondence:final_rules`; the property's own monitors
# (mon_c05, mon_c03, the C19 run monitor) decide whether a failing input exists.
PROPERTY_KEYS = {
    "C05": {"final-yvec", "final-mean-sem", "ysd-supplement-not-at-x"},   # (the last key is reported by mon_c05_sdsuppl)  yval_vec = the fresh observations (+ the earlier observation at x), fval / fsd = its mean / SEM
    "C19": {"result-field:mesh_size", "result-field:func_count", "result-field:x0", "result-field:random_seed"},   # ... agree with the problem and the final state
    "C03": {"result-field:func_count"},             # the reported func_count equals the true number of target calls
}


def mon_final_property(pid):
    def mon(tr):
        r = mon_final(tr)
        return r if r and r[0] in PROPERTY_KEYS.get(pid, set()) else None
    mon.__name__ = "mon_final_" + pid
    return mon


def apply_mon_final(ctx, out, broken):
    mine = PROPERTY_KEYS.get(ctx.pid, set())
    model_hits, hits = [], 0
    for tr, _ in out:
        if "harness_exc" in tr:
            continue
        try:
            r = mon_final(tr)
        except Exception as ex:
            ctx.notes.append(f"monitor mon_final crashed on {tr.get('spec')}: {ex!r}")
            ctx.oblige("monitor:mon_final", "harness", False, repr(ex))
            continue
        if not r:
            continue
        key, what = r
        if key in mine:
            hits += 1
            ctx.violate(key, what, dict(kind="run", spec=tr["spec"], fault=tr.get("fault"), how="cd /verif && ./check %s --replay <this file>" % ctx.pid))
            break
        model_hits.append((key, what, tr["spec"]))
    ok = ctx.oblige("correspondence:final_rules", "correspondence", not model_hits,
                    "the rules of the tail of optimize() restated on the observables hold on every recorded end-game" if not model_hits else str(model_hits[:2])[:600])
    if not ok:
        broken.append(("correspondence:final_rules", f"{len(model_hits)} recorded runs do not follow the rules of the model's final phase, e.g. {model_hits[0][0]}: {model_hits[0][1]} "
                       f"(spec {model_hits[0][2]})"))
    return hits


# ------------------------------------------------------------------------------- directed search

def directed_specs(regions, seed):
    sd = seed * 100 + 900
    base = dict(D=2, target="sphere", box="sym")
    specs = []
    for noise, sigma in (("specified", 0.3), ("declared", 0.3), ("auto", 0.3)):
        for nfs, mfe in ((0, 60), (1, 60), (2, 70), (10, 80)):
            specs.append(dict(base, noise=noise, sigma=sigma, options=dict(max_fun_evals=mfe, noise_final_samples=nfs)))
        # runs that stop in iteration 0 (no noisy end-game): max_iter = 1, and a budget that ends right after the design
        specs.append(dict(base, noise=noise, sigma=sigma, options=dict(max_fun_evals=70, noise_final_samples=2, max_iter=1)))
    specs += [
        dict(base, noise="declared", sigma=0.3, options=dict(max_fun_evals=36)),
        dict(base, noise="declared", sigma=0.3, options=dict(max_fun_evals=52, noise_final_samples=4)),
        dict(D=1, target="abs", box="log", noise="auto", sigma=0.05, options=dict(max_fun_evals=50, noise_final_samples=2)),
        dict(D=2, target="sphere", box="log", noise="specified", sigma=0.2, options=dict(max_fun_evals=60, noise_final_samples=1)),
        dict(D=2, target="sphere", box="sym", noise="specified", sigma=0.3, sdjitter=True, options=dict(max_fun_evals=60, noise_final_samples=1)),
        dict(D=2, target="sphere", box="sym", noise="specified", sigma=0.3, sdjitter=True, options=dict(max_fun_evals=70, noise_final_samples=3)),
        dict(D=3, target="ellipsoid", box="sym", noise="declared", sigma=1.0, options=dict(max_fun_evals=110, noise_final_samples=10)),
        dict(base, noise="det", options=dict(max_fun_evals=40)),
        dict(D=2, target="sphere", box="log", noise="det", options=dict(max_fun_evals=40)),
    ]
    return [dict(s, seed=sd + i) for i, s in enumerate(specs)]


def c19_cfgs(seed):
    cfgs = []
    i = 0
    for mode in ("specified", "declared", "auto"):
        for nfs in (0, 1, 2, 10):
            cfgs.append(dict(D=2 if nfs != 1 else 1, mode=mode, nfs=nfs, sigma=1.0, seed=seed * 1000 + 50 + i, budget=70 + 10 * (i % 3), logcoord=(i % 4 == 1)))
            i += 1
    cfgs.append(dict(D=2, mode="det", nfs=10, sigma=0.0, seed=seed * 1000 + 99, budget=50, logcoord=True))
    return cfgs


def final_is_broken(broken):
    return any(b[0].startswith("translate:final") or b[0] == "coq_build" or "final_src" in b[0] or "final_rules" in b[0] for b in broken)


def search_final(ctx, broken, mons, c19=False):
    """directed search: runs exercising the tail, every monitor (the property's own ones, then the property's clauses of mon_final) on each"""
    if not final_is_broken(broken):
        return False
    regions = translator().regions_to_search()
    specs = directed_specs(regions, ctx.seed)
    ctx.notes.append(f"final search: regions {regions or ['any']}, {len(specs)} directed runs")
    out = [(tr, None) for tr in S.traces([(s, None) for s in specs], "finaldir")]
    out += [(tr, None) for tr in getattr(ctx, "bad_traces", [])[:6]]
    crashed = [tr for tr, _ in out if tr.get("exc") and tr["exc"][0] != "LoopGuard" and not R.is_target_fault(tr)]
    if crashed:
        # not a violation of THIS property's text (valid problems must not crash: that is C09's claim); recorded so that the report says what happened
        ctx.notes.append(f"final search: {len(crashed)} directed runs crashed, e.g. {crashed[0]['spec']}: {crashed[0]['exc']}")
        if not any(b[0] == "final_search:crash" for b in broken):
            broken.append(("final_search:crash", f"{len(crashed)} of {len(specs)} directed runs of the tail crashed (not a clause of this property: reported without a failing input of it), "
                           f"e.g. spec {crashed[0]['spec']}: {crashed[0]['exc'][0]}: {str(crashed[0]['exc'][1])[:160]} in {crashed[0]['exc'][2] if len(crashed[0]['exc']) > 2 else '?'}"))
    for mon in list(mons):
        if R.apply_monitor(ctx, out, mon) > 0:
            return True
    if apply_mon_final(ctx, out, []) > 0:
        return True
    if c19:
        from harness import run_history as RH
        recs = RH.run_many(c19_cfgs(ctx.seed), procs=12)
        for r in recs:
            if r["crash"]:
                continue
            for key, msg in RH.monitor(r):
                if key in RH.STRICT_KEYS:
                    continue
                ctx.violate(key, msg, dict(kind="run", cfg=r["cfg"]))
                return True
    return False
