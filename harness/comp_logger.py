"""Component correspondence for FunctionLogger (model M4, Model/Logger.v).

Generates operation sequences (new points, exact repeats, points sharing k<D coordinates,
record/no-record, pre-evaluated additions, faults and invalid values), runs the REAL
FunctionLogger and writes the same sequences as Coq cases; compares result + full state after
every op.  Also provides the declarative monitor used to look for a concrete failing input.
"""
from __future__ import annotations

import math
from fractions import Fraction

import numpy as np

from vlib.core import cq, cz, cbool, clist, cqlist, cstr, cval


class Boom(Exception):
    pass


def gen_sequence(rng, idx):
    """Return (cfg, ops).  Every choice derives from rng."""
    D = rng.choice([1, 2, 2, 3, 3, 4])
    level = rng.choice([0, 2, 2, 2, 1])
    cache = rng.choice([0, 1, 1, 2, 3, 5, 8, 500])
    transform = rng.random() < 0.35
    n = rng.choice([1, 3, 6, 10, 20, 40]) if idx % 7 else rng.choice([60, 120])
    rough = level == 2 and rng.random() < 0.2      # arbitrary floats under specified noise: short sequences only
    if rough:
        n = min(n, 8)
    tiny_sd = level == 2 and rng.random() < 0.2     # reported SDs far below sqrt(eps): a target on a 1e-9 output scale
    alphabet = [[rng.choice([-1.0, -0.5, 0.0, 0.25, 0.5, 1.0]) for _ in range(rng.choice([2, 3]))] for _ in range(D)]
    ops, pts = [], []
    for _ in range(n):
        r = rng.random()
        if pts and r < 0.06 and not transform:
            # a DISTINCT point within rounding distance of a logged one (a refined mesh far from the origin): must never be
            # treated as a repeat (only exactly equal points are merged)
            x = list(rng.choice(pts))
            k = rng.randrange(D)
            x[k] = x[k] + rng.choice([2.0 ** -30, -2.0 ** -30, 2.0 ** -40]) * max(1.0, abs(x[k]))
        elif pts and r < 0.30:
            x = list(rng.choice(pts))                                # exact repeat
        elif pts and r < 0.55:
            base = list(rng.choice(pts))                             # share k<D coordinates
            k = rng.randrange(D)
            base[k] = rng.choice(alphabet[k])
            x = base
        else:
            x = [rng.choice(alphabet[d]) for d in range(D)]
        kind = rng.random()
        if level == 2 and not rough:
            # exact-arithmetic friendly values: merges stay small rationals in the model
            y = rng.choice([rng.randint(-40, 40) / 8.0, float(rng.randint(-3, 3))])
            sd = rng.choice([0.25, 0.5, 1.0, 2.0, 4.0])
            if tiny_sd:
                sd = rng.choice([2.0 ** -30, 2.0 ** -28, 2.0 ** -35])
        else:
            y = rng.choice([rng.uniform(-5, 5), float(rng.randint(-3, 3)), 0.1, 1e-3 * rng.random()])
            sd = rng.choice([0.5, 1.0, 2.0, 0.1, rng.uniform(0.05, 3)])
        if kind < 0.06:
            ops.append(dict(op="call", x=x, out="raise", record=rng.random() < 0.8))
        elif kind < 0.14:
            bad = rng.choice(["nan", "inf", "-inf", "complex", "complex0", "npcomplex", "npcomplex0", "vector", "none", "pair_in_nonhe",
                              "scalar_in_he", "sd_zero", "sd_neg", "sd_nan", "sd_inf", "sd_complex0"])
            ops.append(dict(op="call", x=x, out="bad", bad=bad, y=y, sd=sd, record=rng.random() < 0.8))
        elif kind < 0.22 and (level != 1):
            ops.append(dict(op="add", x=x, y=y, sd=(sd if rng.random() < 0.7 else None)))
        elif kind < 0.24:
            ops.append(dict(op="finalize"))
        else:
            ops.append(dict(op="call", x=x, out="ok", y=y, sd=sd, record=rng.random() < 0.8))
        if ops[-1]["op"] != "finalize":
            pts.append(x)
    # how the caller hands points over: a fresh float array per call, ONE working buffer rewritten in place between calls (what
    # an optimiser loop does), or integer-typed arrays when every coordinate happens to be integral
    arr = rng.choice(["fresh", "fresh", "fresh", "inplace", "inplace", "int"])
    return dict(D=D, level=level, cache=cache, transform=transform, arr=arr), ops


def make_transformer(D):
    from pybads.variable_transformer import VariableTransformer
    lb = np.array([[-4.0] * D]); ub = np.array([[4.0] * D])
    plb = np.array([[-2.0] * D]); pub = np.array([[2.0] * D])
    if D >= 2:   # one log coordinate
        lb[0, 1], plb[0, 1], pub[0, 1], ub[0, 1] = 0.01, 0.1, 10.0, 100.0
    return VariableTransformer(D, lb, ub, plb, pub)


def bad_value(bad, y, sd, he):
    """What the target returns for a given invalid kind (None = not applicable in this mode)."""
    if bad == "nan":
        v = float("nan")
    elif bad == "inf":
        v = float("inf")
    elif bad == "-inf":
        v = float("-inf")
    elif bad == "complex":
        v = complex(1.0, 2.0)
    elif bad == "complex0":            # complex TYPE with zero imaginary part: still not a real-valued scalar
        v = complex(3.0, 0.0)
    elif bad == "npcomplex":
        v = np.complex128(1.0 + 2.0j)
    elif bad == "npcomplex0":
        v = np.complex128(3.0 + 0.0j)
    elif bad == "vector":
        v = np.array([1.0, 2.0])
    elif bad == "none":
        v = None
    elif bad == "pair_in_nonhe":
        return (y, sd) if not he else None
    elif bad == "scalar_in_he":
        return y if he else None
    elif bad.startswith("sd_"):
        if not he:
            return None
        s = dict(sd_zero=0.0, sd_neg=-1.0, sd_nan=float("nan"), sd_inf=float("inf"), sd_complex0=complex(0.5, 0.0))[bad]
        return (y, s)
    return (v, sd) if he else v


def dump_real(fl):
    n = fl.Xn + 1
    rows = []
    S = np.asarray(fl.S) if fl.noise_flag else None     # rank-tolerant: the dump must not fail where the logger did not
    if S is not None:
        S = S.reshape(S.shape[0], -1) if S.size else S.reshape(0, 1)
    for i in range(n):
        s2 = None
        if fl.noise_flag and not math.isnan(S[i, 0]):
            s2 = Fraction(float(S[i, 0])) ** 2
        rows.append([fl.X_orig[i].tolist(), fl.X[i].tolist(), float(fl.Y_orig[i, 0]), float(fl.Y[i, 0]), s2,
                     int(fl.n_evals[i, 0])])
    return dict(rows=rows, Xn=int(fl.Xn), X_max_idx=int(fl.X_max_idx), cap=int(fl.X_orig.shape[0]),
                fc=int(fl.func_count), cc=int(fl.cache_count))


def run_real(cfg, ops):
    """Run the real FunctionLogger.  Returns (trace, oracle) where trace[i] = (result, state_dump) and
    oracle[i] = x_orig used for op i (from the real inverse transform)."""
    from pybads.function_logger import FunctionLogger
    D, level = cfg["D"], cfg["level"]
    he = level == 2
    vt = make_transformer(D) if cfg["transform"] else None
    vt_oracle = make_transformer(D) if cfg["transform"] else None     # the oracle never shares state with the object under test
    arr = cfg.get("arr", "fresh")
    buf = np.zeros(D)
    cur = {}

    def fun(xo):
        o = cur["op"]
        cur["xo"] = np.array(xo, dtype=float).tolist()
        if o["out"] == "raise":
            raise Boom("target failed")
        if o["out"] == "bad":
            return cur["badv"]
        return (o["y"], o["sd"]) if he else o["y"]

    fl = FunctionLogger(fun, D, level > 0, level, cache_size=cfg["cache"], variable_transformer=vt)
    trace, oracle = [], []
    for o in ops:
        cur["op"] = o
        xo = None
        if o["op"] == "finalize":
            fl.finalize()
            res = None
        else:
            x = np.array(o["x"], dtype=float)
            xo = (vt_oracle.inverse_transf(x.copy().reshape(1, -1))[0] if vt is not None else x).tolist()
            if arr == "inplace":
                buf[:] = x
                x = buf
            elif arr == "int" and all(float(v).is_integer() for v in o["x"]):
                x = np.array([int(v) for v in o["x"]], dtype=np.int64)
            try:
                if o["op"] == "call":
                    if o["out"] == "bad":
                        bv = bad_value(o["bad"], o["y"], o["sd"], he)
                        if bv is None and o["bad"] != "none":
                            o["out"] = "ok"          # kind not applicable in this mode: a valid call
                        elif bv is None and he:
                            bv = None
                        cur["badv"] = bv
                    fval, fsd, idx = fl(x, record_duplicate_data=o["record"])
                else:
                    fval, fsd, idx = fl.add(x, o["y"], o["sd"])
                fval = float(np.asarray(fval).reshape(-1)[0])
                res = [fval, None if fsd is None else float(fsd), None if idx is None else int(idx)]
            except Boom:
                res = "Boom"
            except ValueError:
                res = "ValueError"
            except Exception as ex:  # any other class is reported as is
                res = type(ex).__name__
        o["_xo"] = xo                                   # where the observation is made, by the independent oracle
        o["_seen"] = cur.pop("xo", None) if o["op"] == "call" else None      # what the target was handed
        trace.append((res, dump_real(fl)))
        oracle.append(xo)
    return trace, oracle


# ----------------------------------------------------------------------------- Coq side

def coq_outcome(o, he):
    if o["out"] == "raise":
        return '(Raise "Boom"%string)'
    if o["out"] == "bad":
        return f'(BadVal {cstr(o["bad"])})'
    sd = f"(Some {cq(o['sd'])})" if he else "None"
    return f"(OkVal {cq(o['y'])} {sd})"


def coq_ops(cfg, ops, oracle):
    he = cfg["level"] == 2
    out = []
    for o, xo in zip(ops, oracle):
        if o["op"] == "finalize":
            out.append("Finalize")
        elif o["op"] == "call":
            out.append(f"(Call {cqlist(o['x'])} {cqlist(xo)} {coq_outcome(o, he)} {cbool(o['record'])})")
        else:
            sd = "None" if o["sd"] is None else f"(Some {cq(o['sd'])})"
            out.append(f"(Add {cqlist(o['x'])} {cqlist(xo)} {cq(o['y'])} {sd})")
    return clist(out)


def xexpect(trace, he):
    """Expected xval literal: per op (result, counters); full state dump after the last op.
    Exact everywhere except Y / S^2 of merged rows and merged return values."""
    def xv(v):
        return f"(XV {cval(v)})"
    items = []
    for res, st in trace:
        if isinstance(res, str):
            r = xv(res)
        elif res is None:
            r = xv(None)
        else:
            fv = f"(XA {cq(res[0])})" if he else xv(res[0])
            r = "(XL " + clist([fv, xv(res[1]), xv(res[2])]) + ")"
        items.append("(XL " + clist([r, xv([st["Xn"], st["cap"], st["fc"], st["cc"]])]) + ")")
    rows = []
    st = trace[-1][1]
    for (xo, x, yo, y, s2, n) in st["rows"]:
        ycell = f"(XA {cq(y)})" if (he and n > 1) else xv(y)
        scell = xv(None) if s2 is None else f"(XA {cq(s2)})"
        rows.append("(XL " + clist([xv(xo), xv(x), xv(yo), ycell, scell, xv(n)]) + ")")
    return "(XL " + clist(["(XL " + clist(items) + ")", "(XL " + clist(rows) + ")"]) + ")"


def coq_case(cfg, ops, trace, oracle):
    he = cfg["level"] == 2
    return (f"(({cz(cfg['cache'])}, {cbool(cfg['level'] > 0)}, {cbool(he)}, {coq_ops(cfg, ops, oracle)}), "
            f"{xexpect(trace, he)})")


CASE_TY = "(Z * bool * bool * list op) * xval"
OK_FUN = "fun c => let '(cs, nz, he, ops) := fst c in xval_ok (run_logger cs nz he ops) (snd c)"
REQUIRES = ["PV.Model.Val", "PV.Model.Logger"]


# ----------------------------------------------------------------------------- monitor (property restated on observables)

def _close(a, b):
    return len(a) == len(b) and all(abs(p - q) <= 1e-12 * max(1.0, abs(p), abs(q)) for p, q in zip(a, b))


def monitor(cfg, ops, trace):
    """Declarative oracle, independent of the Coq model: replays the sequence against a dict of
    per-point observation lists and checks the log after every op.  Returns None or a description."""
    he = cfg["level"] == 2
    recs = []           # [x, obs list[(y, sd)], hits]
    fc = 0
    for k, (o, (res, st)) in enumerate(zip(ops, trace)):
        if o["op"] == "finalize":
            pass
        elif isinstance(res, str):
            pass
        else:
            x = o["x"]
            if o["op"] == "call":
                fc += 1
                if not o["record"]:
                    for r in reversed(recs):
                        if r[0] == x:
                            r[2] += 1
                            break
                elif he and any(r[0] == x for r in recs):
                    [r for r in recs if r[0] == x][0][1].append((o["y"], o["sd"]))
                else:
                    recs.append([x, [(o["y"], o["sd"] if he else None)], 0, o.get("_xo")])
            else:
                sd = (o["sd"] if o["sd"] is not None else 1) if cfg["level"] > 0 else None
                if sd is not None and any(r[0] == x for r in recs):
                    [r for r in recs if r[0] == x][0][1].append((o["y"], sd))
                else:
                    recs.append([x, [(o["y"], sd)], 0, o.get("_xo")])
        if o["op"] == "call" and o.get("_seen") is not None and o.get("_xo") is not None and not _close(o["_seen"], o["_xo"]):
            return f"op {k}: the target was called at {o['_seen']} but internal point {o['x']} is {o['_xo']} in the original space"
        if st["fc"] != fc:
            return f"op {k}: func_count {st['fc']} != valid calls {fc}"
        if len(st["rows"]) != len(recs):
            return f"op {k}: {len(st['rows'])} rows logged, {len(recs)} distinct recorded points expected"
        if o["op"] != "finalize" and st.get("X_max_idx") is not None and st["X_max_idx"] != st["Xn"]:
            # the extent other components read (training-set selection, candidate filter) covers every record, also after a growth
            return f"op {k}: X_max_idx = {st['X_max_idx']} but the last record is row {st['Xn']} (capacity {st['cap']}): the newest record is invisible to readers of the log"
        for i, (row, r) in enumerate(zip(st["rows"], recs)):
            xo, x, yo, y, s2, n = row
            if x != r[0]:
                return f"op {k}: row {i} internal point {x} != {r[0]} (call order broken)"
            if r[3] is not None and not _close(xo, r[3]):
                return f"op {k}: row {i} is logged at original-space location {xo}, the observation was made at {r[3]} (internal point {x})"
            if n != len(r[1]) + r[2]:
                return f"op {k}: row {i} n_evals {n} != {len(r[1]) + r[2]}"
            if yo != r[1][0][0]:
                return f"op {k}: row {i} Y_orig {yo} != first value returned there {r[1][0][0]}"
            if r[1][0][1] is None:
                if y != r[1][0][0]:
                    return f"op {k}: row {i} Y {y} != value returned there {r[1][0][0]}"
            else:
                tau = sum(1 / Fraction(s) ** 2 for _, s in r[1])
                wy = sum(Fraction(v) / Fraction(s) ** 2 for v, s in r[1])
                if abs(Fraction(y) - wy / tau) > Fraction(1, 10 ** 9) * (1 + abs(wy / tau)):
                    return f"op {k}: row {i} (point {x}) Y {y} is not the precision-weighted mean {float(wy / tau)} of the observations made there"
                if s2 is None or abs(s2 - 1 / tau) > Fraction(1, 10 ** 9) * (1 + 1 / tau):
                    return f"op {k}: row {i} (point {x}) S^2 {s2 and float(s2)} != combined variance {float(1 / tau)}"
    return None


def shrink(cfg, ops, failing):
    """Greedy op-deletion shrink preserving `failing(cfg, ops)`."""
    ops = list(ops)
    i = 0
    while i < len(ops):
        cand = ops[:i] + ops[i + 1:]
        if cand and failing(cfg, cand):
            ops = cand
        else:
            i += 1
    return ops
