"""Component correspondence for FunctionLogger (model M4, Model/Logger.v).

Generates operation sequences (new points, exact repeats, points sharing k<D coordinates,
record/no-record, pre-evaluated additions, faults and invalid values), runs the REAL
FunctionLogger and writes the same sequences as Coq cases; compares result + full state after
every op.  Also provides the declarative monitor used to look for a concrete failing input.
"""
from __future__ import annotations

import math
from fractions import Fraction

import numpy as np

from vlib.core import cq, cz, cbool, clist, cqlist, cstr, cval


class Boom(Exception):
    pass


def gen_sequence(rng, idx):
    """Return (cfg, ops).  Every choice derives from rng."""
    D = rng.choice([1, 2, 2, 3, 3, 4])
    level = rng.choice([0, 2, 2, 2, 1])
    cache = rng.choice([0, 1, 1, 2, 3, 5, 8, 500])
    transform = rng.random() < 0.35
    n = rng.choice([1, 3, 6, 10, 20, 40]) if idx % 7 else rng.choice([60, 120])
    rough = level == 2 and rng.random() < 0.2      # arbitrary floats under specified noise: short sequences only
    if rough:
        n = min(n, 8)
    tiny_sd = level == 2 and rng.random() < 0.2     # reported SDs far below sqrt(eps): a target on a 1e-9 output scale
    alphabet = [[rng.choice([-1.0, -0.5, 0.0, 0.25, 0.5, 1.0]) for _ in range(rng.choice([2, 3]))] for _ in range(D)]
    ops, pts = [], []
    for _ in range(n):
        r = rng.random()
        if pts and r < 0.06 and not transform:
            # a DISTINCT point within rounding distance of a logged one (a refined mesh far from the origin): must never be
            # treated as a repeat (only exactly equal points are merged)
            x = list(rng.choice(pts))
            k = rng.randrange(D)
            x[k] = x[k] + rng.choice([2.0 ** -30, -2.0 ** -30, 2.0 ** -40]) * max(1.0, abs(x[k]))
        elif pts and r < 0.30:
            x = list(rng.choice(pts))                                # exact repeat
        elif pts and r < 0.55:
            base = list(rng.choice(pts))                             # share k<D coordinates
            k = rng.randrange(D)
            base[k] = rng.choice(alphabet[k])
            x = base
        else:
            x = [rng.choice(alphabet[d]) for d in range(D)]
        kind = rng.random()
        if level == 2 and not rough:
            # exact-arithmetic friendly values: merges stay small rationals in the model
            y = rng.choice([rng.randint(-40, 40) / 8.0, float(rng.randint(-3, 3))])
            sd = rng.choice([0.25, 0.5, 1.0, 2.0, 4.0])
            if tiny_sd:
                sd = rng.choice([2.0 ** -30, 2.0 ** -28, 2.0 ** -35])
        else:
            y = rng.choice([rng.uniform(-5, 5), float(rng.randint(-3, 3)), 0.1, 1e-3 * rng.random()])
            sd = rng.choice([0.5, 1.0, 2.0, 0.1, rng.uniform(0.05, 3)])
        if kind < 0.06:
            ops.append(dict(op="call", x=x, out="raise", record=rng.random() < 0.8))
        elif kind < 0.14:
            bad = rng.choice(["nan", "inf", "-inf", "complex", "complex0", "npcomplex", "npcomplex0", "vector", "none", "pair_in_nonhe",
                              "scalar_in_he", "sd_zero", "sd_neg", "sd_nan", "sd_inf", "sd_complex0"])
            ops.append(dict(op="call", x=x, out="bad", bad=bad, y=y, sd=sd, record=rng.random() < 0.8))
        elif kind < 0.22 and (level != 1):
            ops.append(dict(op="add", x=x, y=y, sd=(sd if rng.random() < 0.7 else None)))
        elif kind < 0.24:
            ops.append(dict(op="finalize"))
        else:
            ops.append(dict(op="call", x=x, out="ok", y=y, sd=sd, record=rng.random() < 0.8))
        if ops[-1]["op"] != "finalize":
            pts.append(x)
    # how the caller hands points over: a fresh float array per call, ONE working buffer rewritten in place between calls (what
    # an optimiser loop does), or integer-typed arrays when every coordinate happens to be integral
    arr = rng.choice(["fresh", "fresh", "fresh", "inplace", "inplace", "int"])
    return dict(D=D, level=level, cache=cache, transform=transform, arr=arr), ops


def make_transformer(D):
    from pybads.variable_transformer import VariableTransformer
    lb = np.array([[-4.0] * D]); ub = np.array([[4.0] * D])
    plb = np.array([[-2.0] * D]); pub = np.array([[2.0] * D])
    if D >= 2:   # one log coordinate
        lb[0, 1], plb[0, 1], pub[0, 1], ub[0, 1] = 0.01, 0.1, 10.0, 100.0
    return VariableTransformer(D, lb, ub, plb, pub)


def bad_value(bad, y, sd, he):
    """What the target returns for a given invalid kind (None = not applicable in this mode)."""
    if bad == "nan":
        v = float("nan")
    elif bad == "inf":
        v = float("inf")
    elif bad == "-inf":
        v = float("-inf")
    elif bad == "complex":
        v = complex(1.0, 2.0)
    elif bad == "complex0":            # complex TYPE with zero imaginary part: still not a real-valued scalar
        v = complex(3.0, 0.0)
    elif bad == "npcomplex":
        v = np.complex128(1.0 + 2.0j)
    elif bad == "npcomplex0":
        v = np.complex128(3.0 + 0.0j)
    elif bad == "vector":
        v = np.array([1.0, 2.0])
    elif bad == "none":
        v = None
    elif bad == "pair_in_nonhe":
        return (y, sd) if not he else None
    elif bad == "scalar_in_he":
        return y if he else None
    elif bad.startswith("sd_"):
        if not he:
            return None
        s = dict(sd_zero=0.0, sd_neg=-1.0, sd_nan=float("nan"), sd_inf=float("inf"), sd_complex0=complex(0.5, 0.0))[bad]
        return (y, s)
    return (v, sd) if he else v


def dump_real(fl):
    n = fl.Xn + 1
    rows = []
    S = np.asarray(fl.S) if fl.noise_flag else None     # rank-tolerant: the dump must not fail where the logger did not
    if S is not None:
        S = S.reshape(S.shape[0], -1) if S.size else S.reshape(0, 1)
    # rank-/size-tolerant: after a failed store Xn may point beyond the tables; the dump must not fail where the logger did not
    n = max(0, min([n, len(fl.X_orig), len(fl.X), len(fl.Y_orig), len(fl.Y), len(fl.n_evals)] + ([len(S)] if S is not None else [])))
    for i in range(n):
        s2 = None
        if fl.noise_flag and math.isfinite(S[i, 0]):
            s2 = Fraction(float(S[i, 0])) ** 2
        rows.append([fl.X_orig[i].tolist(), fl.X[i].tolist(), float(fl.Y_orig[i, 0]), float(fl.Y[i, 0]), s2,
                     int(fl.n_evals[i, 0])])
    return dict(rows=rows, Xn=int(fl.Xn), X_max_idx=int(fl.X_max_idx), cap=int(fl.X_orig.shape[0]),
                fc=int(fl.func_count), cc=int(fl.cache_count))


def run_real(cfg, ops):
    """Run the real FunctionLogger.  Returns (trace, oracle) where trace[i] = (result, state_dump) and
    oracle[i] = x_orig used for op i (from the real inverse transform)."""
    from pybads.function_logger import FunctionLogger
    D, level = cfg["D"], cfg["level"]
    he = level == 2
    vt = make_transformer(D) if cfg["transform"] else None
    vt_oracle = make_transformer(D) if cfg["transform"] else None     # the oracle never shares state with the object under test
    arr = cfg.get("arr", "fresh")
    buf = np.zeros(D)
    cur = {}

    def fun(xo):
        o = cur["op"]
        cur["xo"] = np.array(xo, dtype=float).tolist()
        if o["out"] == "raise":
            raise Boom("target failed")
        if o["out"] == "bad":
            return cur["badv"]
        return (o["y"], o["sd"]) if he else o["y"]

    fl = FunctionLogger(fun, D, level > 0, level, cache_size=cfg["cache"], variable_transformer=vt)
    trace, oracle = [], []
    for o in ops:
        cur["op"] = o
        xo = None
        if o["op"] == "finalize":
            fl.finalize()
            res = None
        else:
            x = np.array(o["x"], dtype=float)
            xo = (vt_oracle.inverse_transf(x.copy().reshape(1, -1))[0] if vt is not None else x).tolist()
            if arr == "inplace":
                buf[:] = x
                x = buf
            elif arr == "int" and all(float(v).is_integer() for v in o["x"]):
                x = np.array([int(v) for v in o["x"]], dtype=np.int64)
            try:
                if o["op"] == "call":
                    if o["out"] == "bad":
                        bv = bad_value(o["bad"], o["y"], o["sd"], he)
                        if bv is None and o["bad"] != "none":
                            o["out"] = "ok"          # kind not applicable in this mode: a valid call
                        elif bv is None and he:
                            bv = None
                        cur["badv"] = bv
                    fval, fsd, idx = fl(x, record_duplicate_data=o["record"])
                else:
                    fval, fsd, idx = fl.add(x, o["y"], o["sd"])
                fval = float(np.asarray(fval).reshape(-1)[0])
                res = [fval, None if fsd is None else float(fsd), None if idx is None else int(idx)]
            except Boom:
                res = "Boom"
            except ValueError:
                res = "ValueError"
            except Exception as ex:  # any other class is reported as is
                res = type(ex).__name__
        o["_xo"] = xo                                   # where the observation is made, by the independent oracle
        o["_seen"] = cur.pop("xo", None) if o["op"] == "call" else None      # what the target was handed
        trace.append((res, dump_real(fl)))
        oracle.append(xo)
    return trace, oracle


# ----------------------------------------------------------------------------- Coq side

def coq_outcome(o, he):
    if o["out"] == "raise":
        return '(Raise "Boom"%string)'
    if o["out"] == "bad":
        return f'(BadVal {cstr(o["bad"])})'
    sd = f"(Some {cq(o['sd'])})" if he else "None"
    return f"(OkVal {cq(o['y'])} {sd})"


def coq_ops(cfg, ops, oracle):
    he = cfg["level"] == 2
    out = []
    for o, xo in zip(ops, oracle):
        if o["op"] == "finalize":
            out.append("Finalize")
        elif o["op"] == "call":
            out.append(f"(Call {cqlist(o['x'])} {cqlist(xo)} {coq_outcome(o, he)} {cbool(o['record'])})")
        else:
            sd = "None" if o["sd"] is None else f"(Some {cq(o['sd'])})"
            out.append(f"(Add {cqlist(o['x'])} {cqlist(xo)} {cq(o['y'])} {sd})")
    return clist(out)


def xexpect(trace, he):
    """Expected xval literal: per op (result, counters); full state dump after the last op.
    Exact everywhere except Y / S^2 of merged rows and merged return values."""
    def xv(v):
        return f"(XV {cval(v)})"
    items = []
    for res, st in trace:
        if isinstance(res, str):
            r = xv(res)
        elif res is None:
            r = xv(None)
        else:
            fv = f"(XA {cq(res[0])})" if (he and math.isfinite(res[0])) else xv(res[0])
            r = "(XL " + clist([fv, xv(res[1]), xv(res[2])]) + ")"
        items.append("(XL " + clist([r, xv([st["Xn"], st["cap"], st["fc"], st["cc"]])]) + ")")
    rows = []
    st = trace[-1][1]
    for (xo, x, yo, y, s2, n) in st["rows"]:
        ycell = f"(XA {cq(y)})" if (he and n > 1 and math.isfinite(y)) else xv(y)
        scell = xv(None) if s2 is None else f"(XA {cq(s2)})"
        rows.append("(XL " + clist([xv(xo), xv(x), xv(yo), ycell, scell, xv(n)]) + ")")
    return "(XL " + clist(["(XL " + clist(items) + ")", "(XL " + clist(rows) + ")"]) + ")"


def coq_case(cfg, ops, trace, oracle):
    he = cfg["level"] == 2
    return (f"(({cz(cfg['cache'])}, {cbool(cfg['level'] > 0)}, {cbool(he)}, {coq_ops(cfg, ops, oracle)}), "
            f"{xexpect(trace, he)})")


CASE_TY = "(Z * bool * bool * list op) * xval"
OK_FUN = "fun c => let '(cs, nz, he, ops) := fst c in xval_ok (run_logger cs nz he ops) (snd c)"
REQUIRES = ["PV.Model.Val", "PV.Model.Logger"]


# ----------------------------------------------------------------------------- monitor (property restated on observables)

def _close(a, b):
    return len(a) == len(b) and all(abs(p - q) <= 1e-12 * max(1.0, abs(p), abs(q)) for p, q in zip(a, b))


def monitor(cfg, ops, trace):
    """Declarative oracle, independent of the Coq model: replays the sequence against a dict of
    per-point observation lists and checks the log after every op.  Returns None or a description."""
    he = cfg["level"] == 2
    recs = []           # [x, obs list[(y, sd)], hits]
    fc = 0
    for k, (o, (res, st)) in enumerate(zip(ops, trace)):
        if o["op"] == "call" and o.get("out") == "bad" and res != "ValueError":
            return (f"op {k}: the target returned an invalid value ({o['bad']}) at {o['x']} and the call " +
                    ("was accepted" if not isinstance(res, str) else f"raised {res}") + " (an invalid value must raise ValueError at that call)")
        if o["op"] == "call" and o.get("out") == "raise" and res != "Boom":
            return f"op {k}: the target raised Boom at {o['x']} but the call " + ("returned normally" if not isinstance(res, str) else f"raised {res}")
        if o["op"] == "call" and o.get("out") == "ok" and isinstance(res, str):
            return f"op {k}: a valid evaluation at {o['x']} (value {o['y']}, SD {o['sd'] if he else None}) raised {res}: the evaluation is not recorded"
        if o["op"] == "add" and cfg["level"] > 0 and o["sd"] is not None and not (o["sd"] > 0) and res != "ValueError":
            return f"op {k}: add() with invalid SD {o['sd']} did not raise ValueError"
        if o["op"] == "finalize":
            pass
        elif isinstance(res, str):
            pass
        else:
            x = o["x"]
            if o["op"] == "call":
                fc += 1
                if not o["record"]:
                    for r in reversed(recs):
                        if r[0] == x:
                            r[2] += 1
                            break
                elif he and any(r[0] == x for r in recs):
                    [r for r in recs if r[0] == x][0][1].append((o["y"], o["sd"]))
                else:
                    recs.append([x, [(o["y"], o["sd"] if he else None)], 0, o.get("_xo")])
            else:
                sd = (o["sd"] if o["sd"] is not None else 1) if cfg["level"] > 0 else None
                if sd is not None and any(r[0] == x for r in recs):
                    [r for r in recs if r[0] == x][0][1].append((o["y"], sd))
                else:
                    recs.append([x, [(o["y"], sd)], 0, o.get("_xo")])
        if o["op"] == "call" and o.get("_seen") is not None and o.get("_xo") is not None and not _close(o["_seen"], o["_xo"]):
            return f"op {k}: the target was called at {o['_seen']} but internal point {o['x']} is {o['_xo']} in the original space"
        if st["fc"] != fc:
            return f"op {k}: func_count {st['fc']} != valid calls {fc}"
        if len(st["rows"]) != len(recs):
            return f"op {k}: {len(st['rows'])} rows logged, {len(recs)} distinct recorded points expected"
        if o["op"] != "finalize" and st.get("X_max_idx") is not None and st["X_max_idx"] != st["Xn"]:
            # the extent other components read (training-set selection, candidate filter) covers every record, also after a growth
            return f"op {k}: X_max_idx = {st['X_max_idx']} but the last record is row {st['Xn']} (capacity {st['cap']}): the newest record is invisible to readers of the log"
        for i, (row, r) in enumerate(zip(st["rows"], recs)):
            xo, x, yo, y, s2, n = row
            if x != r[0]:
                return f"op {k}: row {i} internal point {x} != {r[0]} (call order broken)"
            if r[3] is not None and not _close(xo, r[3]):
                return f"op {k}: row {i} is logged at original-space location {xo}, the observation was made at {r[3]} (internal point {x})"
            if isinstance(y, float) and not math.isfinite(y):
                return f"op {k}: row {i} (point {x}) holds the non-finite value {y}"
            if n != len(r[1]) + r[2]:
                return f"op {k}: row {i} n_evals {n} != {len(r[1]) + r[2]}"
            if yo != r[1][0][0]:
                return f"op {k}: row {i} Y_orig {yo} != first value returned there {r[1][0][0]}"
            if r[1][0][1] is None:
                if y != r[1][0][0]:
                    return f"op {k}: row {i} Y {y} != value returned there {r[1][0][0]}"
            else:
                tau = sum(1 / Fraction(s) ** 2 for _, s in r[1])
                wy = sum(Fraction(v) / Fraction(s) ** 2 for v, s in r[1])
                if abs(Fraction(y) - wy / tau) > Fraction(1, 10 ** 9) * (1 + abs(wy / tau)):
                    return f"op {k}: row {i} (point {x}) Y {y} is not the precision-weighted mean {float(wy / tau)} of the observations made there"
                if s2 is None or abs(s2 - 1 / tau) > Fraction(1, 10 ** 9) * (1 + 1 / tau):
                    return f"op {k}: row {i} (point {x}) S^2 {s2 and float(s2)} != combined variance {float(1 / tau)}"
    return None


def shrink(cfg, ops, failing):
    """Greedy op-deletion shrink preserving `failing(cfg, ops)`."""
    ops = list(ops)
    i = 0
    while i < len(ops):
        cand = ops[:i] + ops[i + 1:]
        if cand and failing(cfg, cand):
            ops = cand
        else:
            i += 1
    return ops


# ----------------------------------------------------------------------------- the program regenerated from the source (translate/logger.py)

REQUIRES_SRC = ["PV.Model.XQ", "PV.Model.Val", "PV.Model.Logger", "PV.Model.LoggerSrc", "PV.gen.Src_logger"]
CASE_TY_SRC = "((Z * bool * bool * list op) * xval) * list Z"
COQ_DEFS_SRC = ("Fixpoint zl_eqb (a b : list Z) : bool := match a, b with [] , [] => true | x :: r, y :: s => (x =? y) && zl_eqb r s | _, _ => false end.\n"
                "Definition oc_tag (o : outcome) : string := match o with OkVal _ _ => \"ok\"%string | BadVal _ => \"ValueError\"%string | Raise c => c end.\n")
OK_FUN_M = "fun c => let '(cs, nz, he, ops) := fst (fst c) in xval_ok (run_logger cs nz he ops) (snd (fst c))"
OK_FUN_SRC = ("fun c => let '(cs, nz, he, ops) := fst (fst c) in let r := run_logger_gen src_record src_call_events src_add_events cs nz he ops in "
              "xval_ok (fst r) (snd (fst c)) && zl_eqb (snd r) (snd c)")


def coq_case_src(cfg, ops, trace, oracle):
    """the model's case literal + the X_max_idx observed after every op"""
    return f"({coq_case(cfg, ops, trace, oracle)}, {clist([cz(st['X_max_idx']) for _, st in trace])})"


def run_cases_both(name, cases, shard=150, timeout=900):
    """every shard is evaluated twice on the SAME literals: hand-written model (run_logger) and the interpreter on the GENERATED
    programs (run_logger_gen src_record src_call_events src_add_events).  Returns (compiled, bad_model, bad_src, log)."""
    from concurrent.futures import ThreadPoolExecutor
    from vlib import core
    tg = [r[3:].replace(".", "/") + ".vo" for r in REQUIRES_SRC if r.startswith("PV.")]
    okb, logb = core.coq_make(tg)
    if not okb:
        return False, [], [], "required modules do not build:\n" + logb[-2000:]
    shards = [cases[i:i + shard] for i in range(0, len(cases), shard)] or [[]]

    def one(k):
        body = COQ_DEFS_SRC + f"\nDefinition the_cases : list ({CASE_TY_SRC}) := " + clist(["\n  " + c for c in shards[k]]) + ".\n"
        body += f"Eval vm_compute in (bad_indices ({OK_FUN_M}) the_cases).\n"
        body += f"Eval vm_compute in (bad_indices ({OK_FUN_SRC}) the_cases).\n"
        ok, out = core.coq_eval(f"{name}_{k}", REQUIRES_SRC, body, timeout=timeout)
        ev = core.split_evals(out) if ok else []
        lists = [core.parse_nat_list(e) for e in ev]
        if not ok or len(lists) != 2 or any(x is None for x in lists):
            return False, None, None, out
        return True, lists[0], lists[1], out
    with ThreadPoolExecutor(max_workers=min(12, len(shards))) as ex:
        res = list(ex.map(one, range(len(shards))))
    allok, bm, bs, log = True, [], [], ""
    for k, (ok, a, b, out) in enumerate(res):
        if not ok:
            allok = False
            log += f"[shard {k}] coqc failed:\n{out[-3000:]}\n"
        else:
            bm += [k * shard + i for i in a]
            bs += [k * shard + i for i in b]
    return allok, bm, bs, log


# ---- the validity tests: what the target returned (any Python value) -> pyval literal; real outcome class

VALUE_KINDS = ["nan", "inf", "-inf", "complex", "complex0", "npcomplex", "npcomplex0", "vector", "none", "pair_in_nonhe", "scalar_in_he",
               "sd_zero", "sd_neg", "sd_nan", "sd_inf", "sd_complex0", "sd_none", "sd_vector", "sd_tiny", "val_zero", "val_neg", "ok"]


def value_of_kind(kind, he):
    y, sd = 1.5, 0.5
    if kind == "ok":
        return (y, sd) if he else y
    if kind == "val_zero":
        return (0.0, sd) if he else 0.0
    if kind == "val_neg":
        return (-2.0, sd) if he else -2.0
    if kind == "sd_none":
        return (y, None) if he else None
    if kind == "sd_vector":
        return (y, np.array([0.5, 0.5])) if he else None
    if kind == "sd_tiny":
        return (y, 2.0 ** -40) if he else None
    if kind == "none":
        return None
    v = bad_value(kind, y, sd, he)
    return v


def cxq_(x):
    x = float(x)
    if math.isnan(x):
        return "XNaN"
    if math.isinf(x):
        return "XPInf" if x > 0 else "XNInf"
    return f"(XFin {cq(x)})"


def pyval_lit(v):
    if v is None:
        return "PNone"
    if isinstance(v, tuple) and len(v) == 2:
        return f"(PPair {pyval_lit(v[0])} {pyval_lit(v[1])})"
    if isinstance(v, (complex, np.complexfloating)):
        return "PComplex"
    if isinstance(v, (np.ndarray, list)) and np.size(v) != 1:
        return "PArray"
    if isinstance(v, (float, int, np.floating, np.integer)) and not isinstance(v, bool):
        return f"(PFloat {cxq_(v)})"
    raise ValueError(f"no pyval for {v!r}")


def tie_checks(ctx, broken, label="C12"):
    """correspondence:logger_checks_source - every value kind in every noise mode, first call and later call: the real FunctionLogger's
    outcome class against (i) the generated ordered tests run by Model/LoggerSrc.v checks_outcome and (ii) the hand-written classify_call."""
    from pybads.function_logger import FunctionLogger
    from vlib import core
    cases, meta = [], []
    for level in (0, 1, 2):
        he = level == 2
        for kind in VALUE_KINDS:
            v = value_of_kind(kind, he)
            if v is None and kind != "none":
                continue
            for warm in (0, 2):
                box = {"v": (1.0, 1.0) if he else 1.0}
                fl = FunctionLogger(lambda x: box["v"], 2, level > 0, level, cache_size=4)
                for k in range(warm):
                    fl(np.array([0.25 * k, 0.5]))
                box["v"] = v
                fc0, xn0 = fl.func_count, fl.Xn
                try:
                    fl(np.array([1.0, -1.0]))
                    cls = "ok"
                except Exception as ex:
                    cls = type(ex).__name__
                try:
                    lit = pyval_lit(v)
                except ValueError:
                    continue
                cases.append(f"(({cbool(level > 0)}, {cbool(he)}, {lit}), {cstr(cls)})")
                meta.append(dict(level=level, kind=kind, warm=warm, real=cls, func_count_delta=fl.func_count - fc0, rows_delta=fl.Xn - xn0))
                m = meta[-1]
                expect_ok = kind in ("ok", "val_zero", "val_neg", "sd_tiny")
                if expect_ok != (cls == "ok") or (cls != "ok" and cls != "ValueError") or m["func_count_delta"] != (1 if cls == "ok" else 0) \
                        or m["rows_delta"] != (1 if cls == "ok" else 0):
                    what = (f"level {level}, target returns {v!r} ({kind}) at call {warm + 1}: " +
                            ("accepted and logged" if cls == "ok" else f"raises {cls}") +
                            f"; func_count +{m['func_count_delta']}, rows +{m['rows_delta']}" +
                            ("" if expect_ok else "  (an invalid value must raise ValueError at that call and leave the log alone)"))
                    ctx.violate("invalid-accepted" if cls == "ok" else ("valid-rejected" if expect_ok else "wrong-exception-class"), what,
                                dict(kind="logger_value", level=level, value_kind=kind, warm=warm))
    ty = "(bool * bool * pyval) * string"
    f_src = "fun c => let '(nz, he, v) := fst c in String.eqb (oc_tag (checks_outcome (checks_of src_call_events) nz he v)) (snd c)"
    f_mod = "fun c => let '(nz, he, v) := fst c in String.eqb (oc_tag (classify_call he v)) (snd c)"
    ok1, bad1, log1 = core.run_cases(label + "chk_src", REQUIRES_SRC, ty, f_src, cases, shard=400, defs=COQ_DEFS_SRC)
    ok2, bad2, log2 = core.run_cases(label + "chk_mod", ["PV.Model.XQ", "PV.Model.Val", "PV.Model.Logger", "PV.Model.LoggerSrc"], ty, f_mod, cases, shard=400, defs=COQ_DEFS_SRC)
    ctx.count(len(cases), len(cases))
    ctx.coverage["value_checks"] = dict(cases=len(cases), differing_generated=len(bad1), differing_model=len(bad2))
    g1 = ctx.oblige("correspondence:logger_checks_source", "correspondence", ok1 and not bad1,
                    f"ordered validity tests regenerated from __call__ vs real FunctionLogger: {len(bad1)} of {len(cases)} (mode, value) pairs differ; " + log1[-300:])
    g2 = ctx.oblige("correspondence:logger_checks", "correspondence", ok2 and not bad2,
                    f"classify_call vs real FunctionLogger: {len(bad2)} of {len(cases)} differ; " + log2[-300:])
    if not g1:
        broken.append(("correspondence:logger_checks_source", "generated validity tests and FunctionLogger differ: " + (str(meta[bad1[0]]) if bad1 else log1[-300:])))
    if not g2:
        broken.append(("correspondence:logger_checks", "classify_call and FunctionLogger differ: " + (str(meta[bad2[0]]) if bad2 else log2[-300:])))
    return meta


# ---- sequences AIMED at a construct of the source (translate.logger.regions_of_diff says which)

def _call(x, y, sd, record=True):
    return dict(op="call", x=list(x), out="ok", y=float(y), sd=float(sd), record=record)


def _add(x, y, sd):
    return dict(op="add", x=list(x), y=float(y), sd=sd)


def _bad(x, kind, record=True):
    return dict(op="call", x=list(x), out="bad", bad=kind, y=1.5, sd=0.5, record=record)


def gen_aimed(rng, regions, n):
    """[(note, cfg, ops)]: short sequences built around the construct that changed"""
    out = []
    grid = [-1.0, -0.5, 0.0, 0.25, 0.5, 1.0]

    def pt(D):
        return [rng.choice(grid) for _ in range(D)]

    def cfgof(level, cache, D, transform=False, arr="fresh"):
        return dict(D=D, level=level, cache=cache, transform=transform, arr=arr)

    regs = sorted(regions) or ["dupsearch"]
    for k in range(n):
        reg = regs[k % len(regs)]
        D = rng.choice([1, 2, 2, 3])
        ops = []
        if reg == "dupsearch":
            level = rng.choice([2, 2, 2, 0])
            pts = [pt(D) for _ in range(rng.choice([1, 2, 3, 5]))]
            for p in pts:
                ops.append(_call(p, rng.randint(-8, 8) / 4.0, rng.choice([0.5, 1.0, 2.0])))
            for _ in range(rng.choice([1, 2, 4])):
                how = rng.choice(["first", "last", "any", "near", "near", "share", "zero"])
                base = pts[0] if how == "first" else pts[-1] if how == "last" else rng.choice(pts)
                x = list(base)
                if how == "near":
                    j = rng.randrange(D)
                    x[j] = x[j] + rng.choice([2.0 ** -52, -2.0 ** -52, 1e-9, 1e-7, 2.0 ** -30]) * max(1.0, abs(x[j]))
                elif how == "share" and D > 1:
                    j = rng.randrange(D)
                    x[j] = rng.choice([g for g in grid if g != x[j]])
                elif how == "zero":
                    x = [0.0] * D           # a point equal to what a zero-filled unused row would hold
                ops.append(_call(x, rng.randint(-8, 8) / 4.0, rng.choice([0.5, 1.0, 2.0]), record=rng.random() < 0.75))
            cfg = cfgof(level, rng.choice([1, 2, 8, 500]), D)
        elif reg == "merge":
            p = pt(D)
            q = pt(D)
            ops = [_call(p, rng.randint(-8, 8) / 4.0, rng.choice([0.5, 1.0, 2.0 ** -30, 2.0 ** 20, 1e-8, 1e6, 3.0]))]
            if rng.random() < 0.5:
                ops.append(_call(q, 1.0, 1.0))
            for _ in range(rng.choice([1, 2, 3, 6, 10])):
                ops.append(_call(p, rng.randint(-8, 8) / 4.0, rng.choice([0.25, 0.5, 1.0, 2.0, 2.0 ** -30, 2.0 ** -28, 2.0 ** 20, 1e-8, 1e6, 3.0])))
            cfg = cfgof(2, rng.choice([1, 2, 500]), D)
        elif reg == "notrecorded":
            level = rng.choice([0, 1, 2])
            pts = [pt(D) for _ in range(rng.choice([0, 1, 2, 4]))]
            if level != 2 and pts and rng.random() < 0.5:
                pts.append(list(pts[0]))       # the same point twice in the log (possible without specified noise)
            for p in pts:
                ops.append(_call(p, rng.randint(-8, 8) / 4.0, 1.0))
            for _ in range(rng.choice([1, 2, 3])):
                x = rng.choice(pts) if pts and rng.random() < 0.6 else [rng.choice([3.0, 7.0, -9.0]) for _ in range(D)]
                ops.append(_call(x, rng.randint(-8, 8) / 4.0, 1.0, record=False))
            if rng.random() < 0.5:
                ops.append(_call(pt(D), 2.0, 1.0))
            cfg = cfgof(level, rng.choice([0, 1, 2, 500]), D)
        elif reg in ("growth", "newrow"):
            level = rng.choice([0, 2])
            m = rng.choice([1, 2, 3, 4, 5, 8, 12])
            for i in range(m):
                ops.append(_call([float(i)] + pt(D)[1:], float(i), 1.0))
                if level == 2 and rng.random() < 0.3:
                    ops.append(_call(ops[rng.randrange(len(ops))]["x"], 0.5, 0.5))      # a merged repeat before the next growth
                if rng.random() < 0.1:
                    ops.append(dict(op="finalize"))
            cfg = cfgof(level, rng.choice([0, 1, 2, 3]), D, transform=rng.random() < 0.3)
        elif reg == "add":
            level = rng.choice([0, 2])
            p = pt(D)
            ops = [_add(p, 1.0, rng.choice([None, 0.5, 2.0])), _add(pt(D), 2.0, rng.choice([None, 0.5])), _add(p, 3.0, rng.choice([None, 0.5, 0.0, -1.0])),
                   _call(p, 0.5, 1.0)]
            cfg = cfgof(level, rng.choice([1, 2, 500]), D, transform=rng.random() < 0.3)
        else:       # checks / call
            level = rng.choice([0, 1, 2])
            kinds = ["nan", "inf", "-inf", "complex", "complex0", "npcomplex", "npcomplex0", "vector", "none", "pair_in_nonhe", "scalar_in_he",
                     "sd_zero", "sd_neg", "sd_nan", "sd_inf", "sd_complex0"]
            pre = [_call(pt(D), 1.0, 1.0) for _ in range(rng.choice([0, 1, 3]))]
            ops = pre + [_bad(pt(D), kinds[(k // len(regs)) % len(kinds)], record=rng.random() < 0.8), _call(pt(D), 2.0, 1.0)]
            if rng.random() < 0.3:
                ops.insert(len(pre), dict(op="call", x=pt(D), out="raise", record=True))
            cfg = cfgof(level, rng.choice([1, 500]), D)
        out.append((reg, cfg, ops))
    return out
