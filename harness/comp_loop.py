"""The loop's decision logic regenerated from the source (translate/loop.py -> gen/Src_loop.v): translator validation, a
declarative monitor of the loop rules, and the directed search used when the translation or an `..._is_source` proof breaks.

(1) tie_loop: for every loop iteration of every recorded run (harness/trace.py: snapshots at the start of the iteration, at
    search_begin / search_end / poll_begin / poll_end and at the probe at the end; every _eval_improvement_ call; every
    _update_incumbent_ call; every history record) the GENERATED definitions (not the skeleton's) are applied by Coq (vm_compute)
    to the recorded inputs and compared with the recorded outputs.  One boolean Coq expression per decision; identical
    expressions are evaluated once.
(2) mon_loop: the loop rules restated on the observables, independent of the Coq model and of the translator.
(3) search_loop: real runs chosen for the region of the source that was edited, the monitors applied to them.
"""
from __future__ import annotations

import math

from harness import skel as S
from harness import runlevel as R
from harness.trace import MSGS
from vlib import core
from vlib.core import cq


class Shape(Exception):
    pass


def _z(v):
    if isinstance(v, bool):
        raise Shape("bool where an integer is expected")
    if float(v) != int(v):
        raise Shape(f"not an integer: {v!r}")
    return f"({int(v)})%Z"


def _b(v):
    return "true" if v else "false"


def _q(v):
    if v is None or (isinstance(v, float) and not math.isfinite(v)):
        raise Shape(f"non-finite float {v!r}")
    return cq(float(v))


def _log2(x):
    return S.log2_exact(float(x))


def signatures():
    from translate import loop as TL
    defs = TL.LAST.get("defs")
    if not defs:
        return None
    return {name: (params, [TL.PARAM_TY.get(p, "Z") for p in params]) for name, params, _ in defs}


class Calls:
    def __init__(self, sig):
        self.sig = sig

    def __call__(self, name, **kw):
        params, tys = self.sig[name]
        if set(kw) != set(params):
            raise Shape(f"src_{name}: arguments {sorted(kw)} given, {params} expected")
        args = []
        for p, t in zip(params, tys):
            v = kw[p]
            if isinstance(v, str):            # an already rendered Coq expression
                args.append(v)
            else:
                args.append(_z(v) if t == "Z" else _q(v) if t == "Q" else _b(v))
        return "(src_" + name + "".join(" " + a for a in args) + ")"


def eqz(a, b):
    return f"(Z.eqb {a} {b if isinstance(b, str) else _z(b)})"


def eqb(a, b):
    return f"(Bool.eqb {a} {b if isinstance(b, str) else _b(b)})"


def run_options(tr):
    ev = tr["events"]
    initd = [e for e in ev if e[0] == "init_done"]
    if not initd:
        return None
    o0, oo = tr["options0"], initd[0][2]
    if float(o0["poll_mesh_multiplier"]) != 2.0:
        raise Shape("poll_mesh_multiplier != 2")
    return dict(D=tr["problem"]["D"], maxfe=oo["max_fun_evals"], maxiter=oo["max_iter"], ntry=oo["search_n_try"], stall=oo["tol_stall_iters"],
                tolfun=oo["tol_fun"], tolmesh_exp=_log2(oo["tol_mesh_state"]), tolmesh=float(oo["tol_mesh_state"]), accel=bool(o0["accelerate_mesh"]), steps=o0["accelerate_mesh_steps"],
                skip=bool(o0["skip_poll_after_search"]), sme=o0["search_mesh_expand"], smi=o0["search_mesh_increment"], maxgrid=o0["max_poll_grid_number"],
                sgm=o0["search_grid_multiplier"], sgn=o0["search_grid_number"], locked=bool(o0["search_size_locked"]), sloppy=bool(o0["sloppy_improvement"]),
                stobads=bool(o0.get("stobads")), init_snap=initd[0][1])


def segments(tr):
    """-> list of dict(prev, piter, evs, probe): complete loop iterations (from a probe to the next one)"""
    ev = tr["events"]
    i0 = next((i for i, e in enumerate(ev) if e[0] == "init_done"), None)
    if i0 is None:
        return []
    out, cur, prev, piter = [], [], ev[i0][1], 0
    for e in ev[i0 + 1:]:
        if e[0] == "probe":
            out.append(dict(prev=prev, piter=piter, evs=cur, probe=e))
            prev, piter, cur = e[2], e[1]["poll_iteration"], []
        else:
            cur.append(e)
    return out


def split(seg):
    """the pieces of one iteration"""
    evs = seg["evs"]
    d = dict(sb=None, se=None, pb=None, pe=None, s_evs=[], p_evs=[], l_evs=[])
    mode = "l"
    for e in evs:
        if e[0] == "search_begin":
            d["sb"], mode = e[1], "s"
        elif e[0] == "search_end":
            d["se"], mode = e[1], "l"
        elif e[0] == "poll_begin":
            d["pb"], mode = e[1], "p"
        elif e[0] == "poll_end":
            d["pe"], mode = e[1], "l"
        else:
            d[mode + "_evs"].append(e)
    if (d["sb"] is None) != (d["se"] is None) or (d["pb"] is None) != (d["pe"] is None):
        raise Shape("a search / poll step did not return")
    if any(e[0] == "call_exc" for e in evs):
        raise Shape("an evaluation raised")
    return d


def cases_of_trace(tr):
    """[(Coq boolean expression, label)] for every complete iteration of the run"""
    sig = signatures()
    src = Calls(sig)
    O = run_options(tr)
    if O is None or O["stobads"]:
        return []
    out = []
    for n, seg in enumerate(segments(tr)):
        try:
            d = split(seg)
            prev, piter, pr = seg["prev"], seg["piter"], seg["probe"]
            did_search, did_poll = d["sb"] is not None, d["pb"] is not None
            fin, msg = bool(pr[1]["is_finished"]), MSGS.get(pr[1]["msg"], -1)
            L = lambda what: f"iteration {n}: {what}"
            # --- head: lock, search decision
            first = d["sb"] or d["pb"] or pr[2]
            out.append((eqz(src("lock_ks", locked=O["locked"], k=prev["k"], ks=prev["ks"], sgm=O["sgm"], sgn=O["sgn"]), first["ks"]), L("search-size lock")))
            out.append((eqb(src("want_search", scount=prev["scount"], ntry=O["ntry"], nrows=prev["Xn"] + 1, D=O["D"]), did_search), L("search decision")))
            st = dict(prev, ks=first["ks"])
            # --- search step
            if did_search:
                sb, se = d["sb"], d["se"]
                out.append((eqz(src("search_scount", scount=sb["scount"]), se["scount"]), L("search_count += 1")))
                imprs = [e for e in d["s_evs"] if e[0] == "impr"]
                if len(imprs) != 1:
                    raise Shape(f"{len(imprs)} improvement evaluations in a search step")
                impr, SI = imprs[0][7], sb["SI"]
                succ = src("search_success", impr=impr, SI=SI)
                impd = src("search_improved", impr=impr, SI=SI, sloppy=O["sloppy"])
                moved = any(e[0] == "update_incumbent" for e in d["s_evs"])
                out.append((eqz(src("search_ssucc", improved=impd, success=succ, ssucc=sb["ssucc"]), se["ssucc"]), L("search_success after the search")))
                out.append((eqb(src("search_moves", improved=impd, success=succ), moved), L("incumbent moved by the search")))
                st = se
            # --- poll decision
            nxt = d["pb"] or pr[2]
            pd = dict(scount=st["scount"], ntry=O["ntry"], ssucc=st["ssucc"], skip=O["skip"], spree=st["spree"], sme=O["sme"], smi=O["smi"], k=st["k"], maxgrid=O["maxgrid"])
            out.append((eqb(src("pd_dopoll", **pd), did_poll), L("poll decision")))
            out.append((eqz(src("pd_scount", **pd), nxt["scount"]), L("search_count after the poll decision")))
            out.append((eqz(src("pd_ssucc", **pd), nxt["ssucc"]), L("search_success after the poll decision")))
            out.append((eqz(src("pd_spree", **pd), nxt["spree"]), L("search_spree after the poll decision")))
            out.append((eqz(src("pd_k", **pd), nxt["k"]), L("mesh exponent after the poll decision")))
            # --- poll step
            k_poll = nxt["k"]
            if did_poll:
                pb, pe = d["pb"], d["pe"]
                calls = [i for i, e in enumerate(d["p_evs"]) if e[0] == "call"]
                imprs = [e for e in d["p_evs"] if e[0] == "impr"]
                ncall = len(calls)
                if len(imprs) not in (ncall, ncall + 1):
                    raise Shape("improvement evaluations of a poll do not match its target calls")
                best, good = src("poll_best0"), src("poll_good0")
                SI = pb["SI"]
                for j in range(ncall):
                    out.append((src("poll_guard", have_cand=True, fc=pb["fc"] + j, maxfe=O["maxfe"], cnt=j, D=O["D"]), L(f"poll guard before evaluation {j}")))
                    good = src("poll_good", impr=imprs[j][7], best=best, SI=SI, good=good)
                    best = src("poll_best", impr=imprs[j][7], best=best)
                if ncall:
                    out.append((eqz(src("poll_count", cnt=ncall - 1), ncall), L("poll_count += 1")))
                hist_present = len(imprs) == ncall + 1
                h = imprs[ncall][7] if hist_present else 0.0
                mp = dict(good=good, k=pb["k"], maxgrid=O["maxgrid"], accel=O["accel"], iter=piter, steps=O["steps"], hist=h, tolfun=O["tolfun"],
                          ks=pb["ks"], sgm=O["sgm"], sgn=O["sgn"])
                out.append((eqz(src("poll_k", **mp), pe["k"]), L("mesh exponent after the poll")))
                out.append((eqz(src("poll_ks", **mp), pe["ks"]), L("search-size exponent after the poll")))
                out.append((eqz(src("poll_mesh_exp", **mp), _log2(pe["mesh"])), L("mesh size after the poll")))
                out.append((f"(orb {good} {eqb(src('accel_guard', accel=O['accel'], iter=piter, steps=O['steps']), hist_present)})", L("acceleration test evaluated")))
                moved = any(e[0] == "update_incumbent" for e in d["p_evs"])
                out.append((eqb(src("poll_moved", best=best, SI=SI, sloppy=O["sloppy"]), moved), L("incumbent moved by the poll")))
                k_poll = pe["k"]
            # --- termination
            stall = [e for e in d["l_evs"] if e[0] == "impr"]
            if len(stall) > 1:
                raise Shape("more than one stall test in an iteration")
            out.append((eqb(src("stall_guard", piter=piter, stall=O["stall"]), bool(stall)), L("stall test evaluated")))
            tp = dict(fc=pr[2]["fc"], maxfe=O["maxfe"], piter=piter, maxiter=O["maxiter"], mesh_exp=_log2(pr[2]["mesh"]), tolmesh_exp=O["tolmesh_exp"],
                      stall=O["stall"], hist=stall[0][7] if stall else 0.0, tolfun=O["tolfun"])
            out.append((eqb(src("term_fin", **tp), fin), L("is_finished")))
            out.append((eqz(src("term_msg", **tp), msg), L("termination message")))
            out.append((eqz(src("mesh_obs", dopoll=did_poll, k_head=src("head_mesh_exp", k=prev["k"]), k_poll=k_poll), _log2(pr[2]["mesh"])), L("mesh size seen by the termination test")))
            out.append((eqz(src("next_piter", fin=fin, dopoll=did_poll, piter=piter), pr[1]["poll_iteration"]), L("iteration counter")))
            recorded = any(e[0] == "hist" and e[2] == "u" for e in d["l_evs"])
            out.append((eqb(src("record_hist", dopoll=did_poll, fin=fin), recorded), L("iteration recorded in the history")))
            reeval = any(e[0] == "reeval" for e in d["l_evs"])
            out.append((eqb(src("reeval_guard", level=prev["level"], dopoll=did_poll, piter=piter), reeval), L("history re-evaluated")))
        except (Shape, S.TraceShape, KeyError, TypeError, ValueError) as ex:
            out.append((None, f"iteration {n}: not usable ({ex!r})"))
    return out


def tie_loop(ctx, broken, out, name):
    """out: [(trace, parsed)] as returned by runlevel.tie_skeleton"""
    if signatures() is None:
        ctx.oblige(f"loop_src:{name}", "correspondence", False, "gen/Src_loop.v was not generated")
        broken.append((f"loop_src:{name}", "the generated loop definitions are not available (translator failed)"))
        return
    uniq, where, skipped, n_iter = {}, {}, 0, 0
    for ti, (tr, _) in enumerate(out):
        if "harness_exc" in tr or "construct_exc" in tr or "events" not in tr:
            continue
        try:
            cs = cases_of_trace(tr)
        except Shape:
            continue
        for expr, label in cs:
            if expr is None:
                skipped += 1
                continue
            if expr not in uniq:
                uniq[expr] = len(uniq)
                where[expr] = (ti, label)
        n_iter += len(segments(tr))
    exprs = list(uniq)
    okc, bad, log = core.run_cases(f"loopsrc_{ctx.pid}_{name}", ["PV.Model.Val", "PV.gen.Src_loop"], "bool", "fun c => c", exprs, shard=max(200, len(exprs) // 12 + 1))
    ok = ctx.oblige(f"correspondence:loop_src:{name}", "correspondence", okc and not bad,
                    f"{len(bad)} of {len(exprs)} distinct decisions of {n_iter} recorded loop iterations differ from the generated definitions; " + log[-300:])
    ctx.coverage["loop_src_decisions_compared"] = ctx.coverage.get("loop_src_decisions_compared", 0) + len(exprs)
    ctx.coverage["loop_src_iterations"] = ctx.coverage.get("loop_src_iterations", 0) + n_iter
    ctx.coverage["loop_src_iterations_skipped_parts"] = ctx.coverage.get("loop_src_iterations_skipped_parts", 0) + skipped
    if not ok:
        ex = []
        for b in bad[:3]:
            ti, label = where[exprs[b]]
            ex.append(f"{out[ti][0]['spec']} {label}: {exprs[b]}")
            ctx.bad_traces = getattr(ctx, "bad_traces", []) + [out[ti][0]]
        broken.append((f"correspondence:loop_src:{name}", f"generated loop definitions and optimize() differ on {len(bad)} decisions, e.g. {ex} {log[-300:]}"))


# ------------------------------------------------------------------------------- declarative monitor

def mon_loop(tr):
    """The rules of the main loop restated on the observables (documented option meanings; independent of model and translator):
      * a search step runs iff fewer than search_n_try searches were made in the current round and more than D points are logged;
      * a poll step runs iff a round of searches is complete (or none could be made) and not (skip_poll_after_search and a search of the round succeeded);
      * a poll evaluates at most 2D points, never with the budget exhausted;
      * the acceleration test of a failed poll is made exactly when accelerate_mesh and more than accelerate_mesh_steps iterations were completed;
        the stall test exactly when at least tol_stall_iters iterations were completed; both compare with tol_fun strictly (value < tol_fun);
      * the run stops at the end of the first loop iteration in which a stopping condition holds, and the message names the condition of
        highest precedence (stalled function value > mesh tolerance > max_iter > max_fun_evals);
      * the iteration counter advances by one exactly after a poll step of an unfinished run; an iteration is recorded iff it polled or finished.
    """
    if "events" not in tr or tr.get("exc"):
        return None
    try:
        O = run_options(tr)
    except Shape:
        return None
    if O is None or O["stobads"]:
        return None
    round_n, round_succ = int(O["ntry"]), 0          # searches made in the current round (starts "complete"), successes in it
    segs = segments(tr)
    for n, seg in enumerate(segs):
        try:
            d = split(seg)
        except Shape:
            return None
        prev, piter, pr = seg["prev"], seg["piter"], seg["probe"]
        did_search, did_poll = d["sb"] is not None, d["pb"] is not None
        fin, msg = bool(pr[1]["is_finished"]), MSGS.get(pr[1]["msg"], -1)
        want = round_n < O["ntry"] and prev["Xn"] + 1 > O["D"]
        if did_search != want:
            return ("search-decision", f"loop iteration {n}: {round_n} of {O['ntry']} searches made in this round, {prev['Xn'] + 1} points logged (D={O['D']}): search step "
                                       f"{'ran' if did_search else 'did not run'}")
        if did_search:
            round_n += 1
            imprs = [e for e in d["s_evs"] if e[0] == "impr"]
            if len(imprs) == 1:
                impr, SI = imprs[0][7], d["sb"]["SI"]
                succ = impr > SI
                moved = any(e[0] == "update_incumbent" for e in d["s_evs"])
                if moved != (succ or (impr > 0 and O["sloppy"])):
                    return ("search-move", f"loop iteration {n}: search improvement {impr} vs sufficient {SI} (sloppy_improvement={O['sloppy']}): incumbent "
                                           f"{'moved' if moved else 'not moved'}")
                round_succ += 1 if succ else 0
                if d["se"]["ssucc"] != round_succ:
                    return ("search-success-count", f"loop iteration {n}: {round_succ} successful searches in this round but search_success = {d['se']['ssucc']}")
        round_done = round_n == 0 or round_n == O["ntry"]
        want_poll = round_done and not (round_succ > 0 and O["skip"])
        if did_poll != want_poll:
            return ("poll-decision", f"loop iteration {n}: {round_n} of {O['ntry']} searches made in this round, {round_succ} successful, skip_poll_after_search={O['skip']}: poll step "
                                     f"{'ran' if did_poll else 'did not run'}")
        if round_done:
            round_n, round_succ = 0, 0
        k_seen = prev["k"]
        if did_poll:
            pb, pe = d["pb"], d["pe"]
            ncall = sum(1 for e in d["p_evs"] if e[0] == "call")
            if ncall > 2 * O["D"]:
                return ("poll-size", f"loop iteration {n}: a poll evaluated {ncall} points, more than 2D = {2 * O['D']}")
            if ncall and pb["fc"] + ncall - 1 >= O["maxfe"]:
                return ("poll-budget", f"loop iteration {n}: a poll point was evaluated with func_count {pb['fc'] + ncall - 1} >= max_fun_evals {O['maxfe']}")
            imprs = [e[7] for e in d["p_evs"] if e[0] == "impr"]
            best = max([0.0] + imprs[:ncall])
            good = best > pb["SI"]
            tested = len(imprs) > ncall
            if not good:
                due = O["accel"] and piter > O["steps"]
                if tested != due:
                    return ("acceleration-window", f"loop iteration {n}: failed poll after {piter} completed iterations, accelerate_mesh={O['accel']}, accelerate_mesh_steps={O['steps']}: "
                                                   f"the stalling test was {'made' if tested else 'not made'}")
                exp = pb["k"] - (2 if (tested and imprs[ncall] < O["tolfun"]) else 1)
                if pe["k"] != exp:
                    return ("poll-update", f"loop iteration {n}: failed poll, historic improvement {imprs[ncall] if tested else None} vs tol_fun {O['tolfun']}: mesh exponent {pb['k']} -> {pe['k']}, expected {exp}")
                exp_ks = min(pb["ks"], pe["k"] * O["sgm"] - O["sgn"])
                if pe["ks"] != exp_ks:
                    return ("search-size-update", f"loop iteration {n}: failed poll, mesh exponent now {pe['k']}: search-size exponent {pb['ks']} -> {pe['ks']}, expected min({pb['ks']}, {pe['k']}*{O['sgm']}-{O['sgn']}) = {exp_ks}")
            else:
                exp = min(pb["k"] + 1, O["maxgrid"])
                if pe["k"] != exp:
                    return ("poll-update", f"loop iteration {n}: successful poll: mesh exponent {pb['k']} -> {pe['k']}, expected {exp}")
            moved = any(e[0] == "update_incumbent" for e in d["p_evs"])
            if moved != (good or (best > 0 and O["sloppy"])):
                return ("poll-move", f"loop iteration {n}: best poll improvement {best} vs sufficient {pb['SI']} (sloppy_improvement={O['sloppy']}): incumbent {'moved' if moved else 'not moved'}")
            k_seen = pe["k"]
        # stopping conditions, as they stand at the end of this iteration
        stall = [e[7] for e in d["l_evs"] if e[0] == "impr"]
        due = piter >= O["stall"]
        if bool(stall) != due:
            return ("stall-window", f"loop iteration {n}: {piter} iterations completed, tol_stall_iters={O['stall']}: the stall test was {'made' if stall else 'not made'}")
        conds = {1: pr[2]["fc"] >= O["maxfe"], 2: piter >= O["maxiter"] - 1, 3: pr[2]["mesh"] < O["tolmesh"], 4: bool(stall) and stall[0] < O["tolfun"]}
        holds = [m for m in (1, 2, 3, 4) if conds[m]]
        if fin != bool(holds):
            return ("stop-decision", f"loop iteration {n}: stopping conditions holding: {holds} (1 budget, 2 max_iter, 3 mesh, 4 stall; func_count {pr[2]['fc']}/{O['maxfe']}, "
                                     f"iterations {piter}/{O['maxiter']}, mesh size {pr[2]['mesh']} vs {O['tolmesh']}, stall {stall}) but is_finished = {fin}")
        if fin and msg not in holds:
            # C03 asks that the message names a condition that HOLDS; which one is named when several hold at once is not specified
            # (a reordering of the tests is reported through the broken `C03_termination_is_source`, without a failing input)
            return ("message-untrue", f"loop iteration {n}: stopping conditions holding: {holds}; the message is number {msg}, which does not hold")
        exp_it = piter + (1 if (did_poll and not fin) else 0)
        if pr[1]["poll_iteration"] != exp_it:
            return ("iteration-counter", f"loop iteration {n}: poll iteration {piter} -> {pr[1]['poll_iteration']}, expected {exp_it} (polled={did_poll}, finished={fin})")
        recorded = any(e[0] == "hist" and e[2] == "u" for e in d["l_evs"])
        if recorded != (did_poll or fin):
            return ("history-record", f"loop iteration {n}: polled={did_poll}, finished={fin}, iteration {'recorded' if recorded else 'not recorded'} in the history")
        if fin and n != len(segs) - 1:
            return ("stop-decision", f"the loop went on after is_finished was set in loop iteration {n}")
    return None


# ------------------------------------------------------------------------------- directed search

def directed_specs(regions, seed):
    sd = seed * 100 + 700
    det = dict(box="sym", noise="det")
    mesh = [
        dict(D=2, target="plateau", **det, options=dict(max_fun_evals=120, accelerate_mesh=True, accelerate_mesh_steps=1, search_n_try=0)),
        # integer-valued target and an integer tol_fun: the historic improvement EQUALS tol_fun in some iterations (strict vs non-strict comparison)
        # (started far from the optimum so that the incumbent still descends by single units, through incremental polls, after accelerate_mesh_steps iterations)
        dict(D=2, target="plateau", **det, shift=[3.1, -2.9], options=dict(max_fun_evals=200, accelerate_mesh=True, accelerate_mesh_steps=1, tol_fun=1.0, tol_stall_iters=40, search_n_try=0)),
        dict(D=2, target="plateau", **det, shift=[2.3, 2.6], options=dict(max_fun_evals=200, accelerate_mesh=True, accelerate_mesh_steps=1, tol_fun=1.0, tol_stall_iters=40, search_n_try=0)),
        dict(D=2, target="plateau", **det, shift=[2.3, -1.6], options=dict(max_fun_evals=200, accelerate_mesh=True, accelerate_mesh_steps=2, tol_fun=1.0, tol_stall_iters=40, search_n_try=0)),
        dict(D=3, target="plateau", **det, shift=[3.3, 2.9, -2.7], options=dict(max_fun_evals=200, accelerate_mesh=True, accelerate_mesh_steps=1, tol_fun=1.0, tol_stall_iters=40, search_n_try=0)),
        dict(D=2, target="plateau", **det, shift=[3.6, 3.6], options=dict(max_fun_evals=200, accelerate_mesh=True, accelerate_mesh_steps=1, tol_fun=1.0, tol_stall_iters=40, search_n_try=1)),
        dict(D=2, target="sphere", **det, options=dict(max_fun_evals=150, accelerate_mesh=True, accelerate_mesh_steps=1, search_n_try=0, tol_fun=0.5, tol_stall_iters=40)),
        dict(D=2, target="abs", **det, options=dict(max_fun_evals=150, search_n_try=0, accelerate_mesh=False)),
        dict(D=1, target="abs", **det, options=dict(max_fun_evals=120, search_size_locked=False, tol_mesh=1e-9, tol_stall_iters=60)),
        dict(D=2, target="sphere", **det, options=dict(max_fun_evals=150, search_size_locked=False, search_grid_multiplier=1, search_grid_number=2, tol_mesh=1e-8, tol_stall_iters=60, search_n_try=1)),
        dict(D=3, target="outside", **det, options=dict(max_fun_evals=150, search_n_try=0, max_poll_grid_number=1, init_mesh_size_integer=-2)),
        dict(D=2, target="rosen", **det, options=dict(max_fun_evals=150, search_n_try=0, complete_poll=True, max_poll_grid_number=2)),
        dict(D=2, target="sphere", box="sym", noise="declared", sigma=0.3, options=dict(max_fun_evals=110, accelerate_mesh_steps=1, noise_final_samples=2)),
    ]
    term = [
        dict(D=2, target="sphere", **det, options=dict(max_fun_evals=60, max_iter=1)),
        dict(D=2, target="sphere", **det, options=dict(max_fun_evals=80, max_iter=2)),
        dict(D=2, target="rosen", **det, options=dict(max_fun_evals=80, max_iter=3, search_n_try=1)),
        dict(D=2, target="sphere", **det, options=dict(max_fun_evals=200, tol_mesh=0.5)),
        dict(D=2, target="abs", **det, options=dict(max_fun_evals=200, tol_mesh=0.1, search_n_try=0)),
        dict(D=2, target="plateau", **det, options=dict(max_fun_evals=150, tol_stall_iters=1)),
        dict(D=2, target="plateau", **det, shift=[3.1, -2.9], options=dict(max_fun_evals=150, tol_stall_iters=1, tol_fun=1.0, search_n_try=0)),
        dict(D=2, target="plateau", **det, shift=[2.3, 2.6], options=dict(max_fun_evals=150, tol_stall_iters=1, tol_fun=1.0, search_n_try=0, accelerate_mesh=False)),
        dict(D=3, target="plateau", **det, shift=[3.3, 2.9, -2.7], options=dict(max_fun_evals=200, tol_stall_iters=2, tol_fun=2.0, search_n_try=0)),
        dict(D=2, target="plateau", **det, shift=[3.6, 3.6], options=dict(max_fun_evals=150, tol_stall_iters=2, tol_fun=2.0, search_n_try=1)),
        dict(D=2, target="plateau", **det, shift=[2.3, -1.6], options=dict(max_fun_evals=150, tol_stall_iters=1, tol_fun=1.0, search_n_try=1)),
        # mesh tolerance and stall hold in the SAME iteration (message precedence)
        dict(D=2, target="sphere", **det, x0="atopt", options=dict(max_fun_evals=150, tol_stall_iters=2, tol_mesh=2.0 ** -2, accelerate_mesh=False, search_n_try=0)),
        dict(D=2, target="sphere", **det, x0="atopt", options=dict(max_fun_evals=150, tol_stall_iters=3, tol_mesh=2.0 ** -3, accelerate_mesh=False, search_n_try=0)),
        dict(D=1, target="abs", **det, x0="atopt", options=dict(max_fun_evals=100, tol_stall_iters=2, tol_mesh=2.0 ** -2, accelerate_mesh=False, search_n_try=0, max_iter=3)),
        dict(D=2, target="sphere", **det, x0="atopt", options=dict(max_fun_evals=150, tol_stall_iters=2, tol_mesh=2.0 ** -4, accelerate_mesh_steps=1)),
        dict(D=2, target="sphere", **det, x0="atopt", options=dict(max_fun_evals=150, tol_stall_iters=3, tol_mesh=2.0 ** -3, max_iter=4)),
        dict(D=1, target="abs", **det, options=dict(max_fun_evals=14)),
        dict(D=2, target="sphere", **det, options=dict(max_fun_evals=9, max_iter=1, tol_mesh=2.0)),
        dict(D=2, target="sphere", box="sym", noise="declared", sigma=0.3, x0="atopt", options=dict(max_fun_evals=120, tol_stall_iters=1, noise_final_samples=2)),
    ]
    pollskip = [
        dict(D=2, target="sphere", **det, options=dict(max_fun_evals=100, search_mesh_expand=1, search_mesh_increment=1, init_mesh_size_integer=-3)),
        dict(D=2, target="ellipsoid", **det, options=dict(max_fun_evals=120, search_mesh_expand=2, search_mesh_increment=2, init_mesh_size_integer=-4, search_n_try=2)),
        dict(D=2, target="ellipsoid", **det, options=dict(max_fun_evals=100, skip_poll_after_search=False)),
        dict(D=2, target="rosen", **det, options=dict(max_fun_evals=100, search_n_try=1)),
        dict(D=2, target="rosen", **det, options=dict(max_fun_evals=100, search_n_try=2)),
        dict(D=3, target="sphere", **det, options=dict(max_fun_evals=120, search_n_try=3)),
        dict(D=2, target="sphere", **det, options=dict(max_fun_evals=100, search_n_try=5)),
    ]
    search = [
        dict(D=2, target="sphere", **det, options=dict(max_fun_evals=100, sloppy_improvement=False)),
        dict(D=2, target="rosen", **det, options=dict(max_fun_evals=120, sloppy_improvement=False, search_n_try=2)),
        dict(D=2, target="ellipsoid", **det, options=dict(max_fun_evals=100)),
        dict(D=1, target="abs", **det, options=dict(max_fun_evals=60, search_n_try=1)),
        dict(D=4, target="sphere", **det, options=dict(max_fun_evals=40, fun_eval_start=4)),
    ]
    poll = [
        dict(D=1, target="abs", **det, options=dict(max_fun_evals=40, search_n_try=0)),
        dict(D=2, target="rosen", **det, options=dict(max_fun_evals=37, search_n_try=0, complete_poll=True)),
        dict(D=3, target="sphere", **det, options=dict(max_fun_evals=41, search_n_try=0, complete_poll=True)),
        dict(D=2, target="abs", **det, options=dict(max_fun_evals=120, sloppy_improvement=False, search_n_try=0)),
        dict(D=2, target="plateau", **det, options=dict(max_fun_evals=80, search_n_try=0, complete_poll=True)),
    ]
    table = dict(mesh=mesh, termination=term, pollskip=pollskip, search=search, poll=poll)
    chosen = []
    for r in (regions or ["any"]):
        if r in table:
            chosen += table[r]
        else:
            chosen = mesh + term + pollskip + search + poll
            break
    seen, out = set(), []
    for i, s in enumerate(chosen):
        key = repr(sorted((k, repr(v)) for k, v in s.items()))
        if key in seen:
            continue
        seen.add(key)
        out.append(dict(s, seed=sd + i))
    return out


# Which clauses of mon_loop are claims of WHICH property's text (a hit is then a concrete violation of that property).  Every other clause
# restates a rule of the model (when a search / poll runs, when the stalling tests are evaluated, the iteration counter, the history record,
# which message is chosen when several stopping conditions hold): a hit there means the tie between model and code is broken, not that the
# property is violated - it is reported as a failed correspondence obligation, and the property's own monitors look for a failing input.
PROPERTY_KEYS = {
    "C13": {"poll-update"},                       # doubled after a sufficient improvement (up to the cap), halved / quartered otherwise
    "C03": {"poll-budget", "message-untrue"},     # no target call beyond the budget; the message names a condition that holds
    "C04": set(),
}


def mon_loop_property(pid):
    """mon_loop restricted to the clauses property `pid` states (for replays)"""
    def mon(tr):
        r = mon_loop(tr)
        return r if r and r[0] in PROPERTY_KEYS.get(pid, set()) else None
    mon.__name__ = "mon_loop_" + pid
    return mon


def apply_mon_loop(ctx, out, broken):
    """mon_loop over the traces: concrete violation for the clauses the property states, broken tie for the model-level ones"""
    mine = PROPERTY_KEYS.get(ctx.pid, set())
    model_hits = []
    hits = 0
    for tr, _ in out:
        if "harness_exc" in tr:
            continue
        try:
            r = mon_loop(tr)
        except Exception as ex:
            ctx.notes.append(f"monitor mon_loop crashed on {tr['spec']}: {ex!r}")
            ctx.oblige("monitor:mon_loop", "harness", False, repr(ex))
            continue
        if not r:
            continue
        key, what = r
        if key in mine:
            hits += 1
            ctx.violate(key, what, dict(kind="run", spec=tr["spec"], fault=tr.get("fault"), how="cd /verif && ./check %s --replay <this file>" % ctx.pid))
            break
        model_hits.append((key, what, tr["spec"]))
    ok = ctx.oblige("correspondence:loop_rules", "correspondence", not model_hits,
                    "the loop rules of the model restated on the observables hold on every recorded run" if not model_hits else str(model_hits[:2])[:600])
    if not ok:
        broken.append(("correspondence:loop_rules", f"{len(model_hits)} recorded runs do not follow the loop rules of the model, e.g. {model_hits[0][0]}: {model_hits[0][1]} "
                       f"(spec {model_hits[0][2]})"))
    return hits


def loop_is_broken(broken):
    return any(b[0].startswith("translate:loop") or b[0] == "coq_build" or "loop_src" in b[0] or "loop_rules" in b[0] for b in broken)


def search_loop(ctx, broken, mons):
    """directed search: runs exercising the edited region, every monitor (the property's own ones and mon_loop) on each"""
    if not loop_is_broken(broken):
        return False
    from translate import loop as TL
    regions = TL.regions_to_search()
    specs = directed_specs(regions, ctx.seed)
    ctx.notes.append(f"loop search: regions {regions or ['any']}, {len(specs)} directed runs")
    out = [(tr, None) for tr in S.traces([(s, None) for s in specs], "loopdir")]
    out += [(tr, None) for tr in getattr(ctx, "bad_traces", [])[:6]]
    for mon in list(mons):
        if R.apply_monitor(ctx, out, mon) > 0:
            return True
    return apply_mon_loop(ctx, out, []) > 0
