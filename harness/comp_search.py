"""Correspondence for the search step (model M10, Model/ESSelect.v) — property C18.

Four parts, each driving the REAL code and emitting the same inputs as Coq cases:
  (i)   mask   : ESSearch._get_selection_idx_mask_ for every (mu, lamb) of a square sweep; the float
                 weight vector w0 is obtained by executing the function's own first statements (taken
                 from its AST), the remaining statements are also executed on synthetic w0 vectors;
  (ii)  es     : whole short BADS runs with acq_fcn_lcb / contraints_check wrapped (from outside) inside
                 pybads.search.es_search, recording per generation the survivors and their acquisition values;
  (iii) search : BADS._search_step_ wrapped to count target evaluations and compare the evaluated point
                 with the argmin row of the filtered search set (plain and widened search sets);
  (iv)  hedge  : the REAL ESSearchHedge driven through synthetic update_hedge score histories with the
                 ES classes stubbed out; prob / chosen index read back after every __call__.
Each part has a declarative monitor (the property restated on observables, independent of the model).
"""
from __future__ import annotations

import ast
import inspect
import math
import signal
import textwrap
from fractions import Fraction

import numpy as np

from vlib.core import cq, cz, cnat, clist, cqlist, cstr

REQUIRES = ["PV.Model.Val", "PV.Model.ESSelect"]

# =============================================================================== (i) mask


class SourceChanged(Exception):
    pass


def split_mask_source():
    """Return (w0_fn(mu, lamb), rest_fn(w, lamb), real_fn(mu, lamb)) built from the CURRENT source of
    ESSearch._get_selection_idx_mask_: the statements up to and including the first assignment to
    `w` (the float part), and the statements after it (the integer part)."""
    from pybads.search import es_search as es
    fn = es.ESSearch._get_selection_idx_mask_
    src = textwrap.dedent(inspect.getsource(fn))
    tree = ast.parse(src)
    fdef = tree.body[0]
    if not isinstance(fdef, ast.FunctionDef) or [a.arg for a in fdef.args.args] != ["self", "mu", "lamb"]:
        raise SourceChanged("_get_selection_idx_mask_: unexpected signature")
    body = [s for s in fdef.body if not (isinstance(s, ast.Expr) and isinstance(getattr(s, "value", None), ast.Constant))]
    cut = None
    for k, s in enumerate(body[:6]):
        if isinstance(s, ast.Assign) and len(s.targets) == 1 and isinstance(s.targets[0], ast.Name) and s.targets[0].id == "w":
            cut = k
            break
    if cut is None:
        raise SourceChanged("_get_selection_idx_mask_: no `w = ...` among the first statements")
    head, rest = body[:cut + 1], body[cut + 1:]
    if not rest or not isinstance(rest[-1], ast.Return):
        raise SourceChanged("_get_selection_idx_mask_: does not end with a return")
    for s in head:
        if not isinstance(s, ast.Assign):
            raise SourceChanged("_get_selection_idx_mask_: non-assignment in the float part")

    def mk(name, args, stmts):
        f = ast.FunctionDef(name=name, args=ast.arguments(posonlyargs=[], args=[ast.arg(arg=a) for a in args],
                                                          kwonlyargs=[], kw_defaults=[], defaults=[]),
                            body=stmts, decorator_list=[], type_params=[])
        mod = ast.Module(body=[f], type_ignores=[])
        ast.fix_missing_locations(mod)
        ns = {"np": np}
        exec(compile(mod, "<es_search.py:_get_selection_idx_mask_>", "exec"), ns)
        return ns[name]

    ret_w = ast.Return(value=ast.Name(id="w", ctx=ast.Load()))
    w0_fn = mk("_w0", ["mu", "lamb"], head + [ret_w])
    rest_fn = mk("_rest", ["w", "lamb"], rest)
    return w0_fn, rest_fn, (lambda mu, lamb: fn(None, mu, lamb))


class _Timeout(Exception):
    pass


def _alarm(signum, frame):
    raise _Timeout()


def guarded(f, *a, seconds=5):
    """Call f(*a); canonicalise exceptions to their class name; a non-terminating loop -> 'Timeout'."""
    # CPU time of this process, not wall time: a loop that does not terminate burns CPU; a process that is merely descheduled on a loaded
    # machine does not (a wall-clock alarm fired once on a healthy tree under load 40)
    old = signal.signal(signal.SIGVTALRM, _alarm)
    signal.setitimer(signal.ITIMER_VIRTUAL, seconds)
    try:
        r = f(*a)
        return [int(v) for v in np.asarray(r).reshape(-1)]
    except _Timeout:
        return "Timeout"
    except Exception as ex:
        return type(ex).__name__
    finally:
        signal.setitimer(signal.ITIMER_VIRTUAL, 0)
        signal.signal(signal.SIGVTALRM, old)


def rle(xs):
    out = []
    for x in xs:
        if out and out[-1][0] == x:
            out[-1][1] += 1
        else:
            out.append([x, 1])
    return out


def c_rle(xs):
    return clist([f"({v},{n}%nat)" for v, n in rle(xs)])


def mask_monitor(mu, lamb, w0, mask):
    """Property restated on the real function's output (mu = us.shape[0] >= 1, lamb >= 1):
    premises on w0, shape facts, index safety of us[mask[0:ll]]."""
    if not all(v >= 1 for v in w0):
        return "w0 has an entry < 1"
    if any(b > a for a, b in zip(w0, w0[1:])):
        return "w0 is not non-increasing"
    if sum(w0) < lamb or len(w0) != mu + lamb:
        return "sum(w0) < lamb or wrong length"
    if isinstance(mask, str):
        return f"mask raised {mask}"
    if len(mask) != lamb + 1:
        return f"mask has length {len(mask)}, expected lamb+1 = {lamb + 1}"
    if mask[0] != 0:
        return f"mask[0] = {mask[0]} != 0"
    if any(b - a not in (0, 1) for a, b in zip(mask, mask[1:])):
        return "mask has a step outside {0,1}"
    ll = min(lamb, mu)
    if any(not (0 <= m < mu) for m in mask[:ll]):
        return f"us[mask[0:{ll}]] indexes outside 0..{mu - 1}"
    return None


def mask_sweep(nmax):
    """All 0 <= mu, lamb <= nmax.  Returns (coq_cases, records, problems)."""
    w0_fn, rest_fn, real_fn = split_mask_source()
    cases, recs, problems = [], [], []
    skip_outside = False
    for mu in range(0, nmax + 1):
        for lamb in range(0, nmax + 1):
            if skip_outside and (mu == 0 or lamb == 0):
                continue
            real = guarded(real_fn, mu, lamb, seconds=3)
            w0 = [int(v) for v in w0_fn(mu, lamb)]
            if real == "Timeout":
                if mu >= 1 and lamb >= 1:
                    # inside the property's quantifier: a concrete violation; do not sit through more hangs
                    problems.append((mu, lamb, "the function does not return within 3 s", w0, real))
                    cases.append(f"(({c_rle(w0)}, {cz(lamb)}), (EErr {cstr(real)}))")
                    recs.append((mu, lamb, w0, real))
                    return cases, recs, problems
                skip_outside = True      # mu == 0 or lamb == 0 hangs: keep this one case, skip the other degenerate ones
            split = real if real == "Timeout" else guarded(rest_fn, np.array(w0, dtype=int), lamb)
            if split != real:
                raise SourceChanged(f"AST split of _get_selection_idx_mask_ disagrees with the function at mu={mu} lamb={lamb}")
            if mu >= 1 and lamb >= 1:
                msg = mask_monitor(mu, lamb, w0, real)
                if msg:
                    problems.append((mu, lamb, msg, w0, real))
            if isinstance(real, str):
                exp = f"(EErr {cstr(real)})"
            elif real and real[0] == 0 and all(b - a in (0, 1) for a, b in zip(real, real[1:])):
                mult = [0] * (real[-1] + 1)           # how often each value 0..max occurs
                for v in real:
                    mult[v] += 1
                exp = f"(EMult {c_rle(mult)})"
            else:
                exp = f"(EPlain {clist([cz(v) for v in real])})"
            cases.append(f"(({c_rle(w0)}, {cz(lamb)}), {exp})")
            recs.append((mu, lamb, w0, real))
    return cases, recs, problems


def mask_random(rng, n):
    """Synthetic weight vectors (also ones the float formula never produces: zeros, negative entries,
    increasing runs) through the function's own integer statements."""
    _, rest_fn, _ = split_mask_source()
    cases, recs = [], []
    for k in range(n):
        L = rng.choice([1, 2, 3, 4, 6, 9, 14])
        style = rng.random()
        if style < 0.5:
            w = sorted([rng.choice([0, 1, 1, 1, 2, 3, 5]) for _ in range(L)], reverse=True)
        elif style < 0.85:
            w = [rng.choice([0, 1, 1, 2, 3]) for _ in range(L)]
        else:
            w = [rng.choice([-2, -1, 0, 1, 2, 4]) for _ in range(L)]
        lamb = rng.choice([0, 1, 2, 3, 5, 8, sum(max(0, v) for v in w), max(0, sum(w) - 1)])
        real = guarded(rest_fn, np.array(w, dtype=int), lamb)
        if real == "Timeout":
            continue
        from vlib.core import cval
        cases.append(f"(({clist([cz(v) for v in w])}, {cz(lamb)}), {cval(real)})")
        recs.append((w, lamb, real))
    return cases, recs


MASK_TY = "(list (Z * nat) * Z) * mexp"
MASK_OK = "mask_case_ok"
MASKR_TY = "(list Z * Z) * val"
MASKR_OK = "mask_plain_ok"


# =============================================================================== (ii)+(iii) run level

class Recorder:
    """Wraps, from outside, the seams of the search step for the duration of one BADS run."""

    def __init__(self, widen_rng=None, nan_rng=None):
        self.es_calls = []        # dict(cls, mu, lamb, iters, gens=[(U_in, rows, z)], lb, ub, ret | exc)
        self.steps = []           # dict(set, z, evals=[u], target_calls, exc)
        self.cur_es = None
        self.cur_step = None
        self.widen_rng = widen_rng
        self.target_calls = 0
        self.hard_lb = self.hard_ub = None
        self.nan_rng = nan_rng    # when set: some acquisition values seen by the ES loop are replaced by NaN (from outside)

    def install(self):
        import pybads.search.es_search as es
        import pybads.search.search_hedge as sh
        import pybads.bads.bads as bm
        from pybads.function_logger import FunctionLogger
        R = self
        self._saved = [(es, "contraints_check", es.contraints_check), (es, "acq_fcn_lcb", es.acq_fcn_lcb),
                       (es.ESSearch, "__call__", es.ESSearch.__call__),
                       (bm, "contraints_check", bm.contraints_check), (bm, "acq_fcn_lcb", bm.acq_fcn_lcb),
                       (bm.BADS, "_search_step_", bm.BADS._search_step_),
                       (FunctionLogger, "__call__", FunctionLogger.__call__),
                       (sh.ESSearchHedge, "__call__", sh.ESSearchHedge.__call__)]
        o_escc, o_esacq, o_escall = es.contraints_check, es.acq_fcn_lcb, es.ESSearch.__call__
        o_bmcc, o_bmacq, o_step = bm.contraints_check, bm.acq_fcn_lcb, bm.BADS._search_step_
        o_flcall, o_hcall = FunctionLogger.__call__, sh.ESSearchHedge.__call__

        def es_cc(U, lb, ub, *a, **k):
            out = o_escc(U, lb, ub, *a, **k)
            if R.cur_es is not None:
                R.cur_es["gens"].append([np.array(U, dtype=float), np.array(out, dtype=float), None])
                R.cur_es["lb"], R.cur_es["ub"] = np.array(lb, dtype=float).reshape(-1), np.array(ub, dtype=float).reshape(-1)
            return out

        def es_acq(xi, *a, **k):
            out = o_esacq(xi, *a, **k)
            # "acquisition (lower-confidence-bound) value": every generation is scored with the SAME documented rule
            # z = f_mu - sqrt(beta_t) f_s, beta_t depending on the evaluation count and the DIMENSION only (not on the batch)
            try:
                if R.cur_es is not None and len(a) >= 1 and np.asarray(out[0]).size:
                    t = float(a[0]) + 1.0
                    nv = np.asarray(xi).shape[1]
                    ap = getattr(R, "acq_param", None)     # the CONFIGURED parameter (options['search_acq_fcn'][1]), not what the caller passed on
                    if ap is None:
                        sb = math.sqrt(2 * 0.2 * math.log(nv * t ** 2 * math.pi ** 2 / (6 * 0.1)))
                    elif callable(ap):
                        sb = float(ap(t, nv))
                    else:
                        sb = float(ap)
                    z0, mu0, s0 = (np.asarray(v, dtype=float).reshape(-1) for v in out[:3])
                    want = mu0 - sb * s0
                    ok = np.isnan(want) | (np.abs(z0 - want) <= 1e-9 * (np.abs(want) + np.abs(sb * s0) + 1e-300))
                    if not np.all(ok) and "lcb_bad" not in R.cur_es:
                        j = int(np.argmin(ok))
                        R.cur_es["lcb_bad"] = (f"generation of {z0.shape[0]} candidates: acquisition value {z0[j]} is not f_mu - sqrt(beta_t) f_s = {want[j]} "
                                               f"(D={nv}, t={t}, sqrt(beta_t)={sb}, f_mu={mu0[j]}, f_s={s0[j]})")
            except Exception as ex:      # never let the observer change the run
                R.cur_es.setdefault("lcb_note", repr(ex)[:120]) if R.cur_es is not None else None
            if R.nan_rng is not None and R.cur_es is not None and np.asarray(out[0]).size and R.nan_rng.random() < 0.5:
                # an acquisition function that fails on some candidates: NaN for a random subset (sometimes for all)
                zz = np.array(out[0], dtype=float).copy()
                flat = zz.reshape(-1)
                frac_nan = R.nan_rng.choice([0.2, 0.5, 0.9, 1.0])
                for j in range(flat.shape[0]):
                    if R.nan_rng.random() < frac_nan:
                        flat[j] = np.nan
                out = (zz,) + tuple(out[1:])
            if R.cur_es is not None and R.cur_es["gens"] and R.cur_es["gens"][-1][2] is None:
                g = R.cur_es["gens"][-1]
                if g[1].shape != np.asarray(xi).shape or not np.array_equal(g[1], xi, equal_nan=True):
                    R.cur_es["desync"] = True
                g[2] = np.array(out[0], dtype=float).reshape(-1)
            return out

        def es_call(self_, *a, **k):
            R.cur_es = dict(cls=type(self_).__name__, mu=int(self_.mu), lamb=int(self_.lamb),
                            iters=int(self_.n_search_iter), gens=[], lb=None, ub=None, ret=None, exc=None)
            ost = a[5] if len(a) > 5 else k.get("optim_state")
            R.cur_es["lb_search"] = np.array(ost["lb_search"], dtype=float).reshape(-1)
            R.cur_es["ub_search"] = np.array(ost["ub_search"], dtype=float).reshape(-1)
            # for the box recomputed by the monitor: the hard bounds of the BADS object (internal units, read at
            # construction by run_bads) and the search mesh size of this call
            R.cur_es["hard_lb"], R.cur_es["hard_ub"] = R.hard_lb, R.hard_ub
            R.cur_es["search_mesh"] = float(ost["search_mesh_size"])
            try:
                r = o_escall(self_, *a, **k)
                if np.asarray(r[0]).size == 0:        # the empty search set (no candidate survived)
                    R.cur_es["ret"] = "empty"
                else:
                    R.cur_es["ret"] = (np.array(r[0], dtype=float).reshape(-1), float(np.asarray(r[1]).reshape(-1)[0]))
                return r
            except Exception as ex:
                R.cur_es["exc"] = type(ex).__name__
                raise
            finally:
                # "survived feasibility filtering": every survivor satisfies the USER's constraint (judged at the original-space point)
                try:
                    cf, vt = getattr(R, "cons_fn", None), getattr(R, "vt", None)
                    if cf is not None and vt is not None:
                        for g in R.cur_es["gens"]:
                            rows = g[1]
                            ok_rows = rows[~np.isnan(rows).any(axis=1)] if rows.shape[0] else rows
                            if ok_rows.shape[0]:
                                v = np.asarray(cf(vt.inverse_transf(ok_rows))).reshape(-1) > 0
                                if v.any():
                                    R.cur_es["infeasible_survivor"] = ok_rows[int(np.argmax(v))].tolist()
                                    break
                except Exception as ex:
                    R.cur_es["cons_note"] = repr(ex)[:100]
                R.es_calls.append(R.cur_es)
                R.cur_es = None

        def bm_cc(U, *a, **k):
            out = o_bmcc(U, *a, **k)
            if R.cur_step is not None and R.cur_step["set"] is None:
                R.cur_step["set"] = np.array(out, dtype=float)
            return out

        def bm_acq(xi, *a, **k):
            out = o_bmacq(xi, *a, **k)
            if R.cur_step is not None and R.cur_step["z"] is None:
                R.cur_step["z"] = np.array(out[0], dtype=float).reshape(-1)
                R.cur_step["acq_rows"] = np.array(xi, dtype=float)
            return out

        def step(self_, gp):
            R.cur_step = dict(set=None, z=None, acq_rows=None, evals=[], t0=R.target_calls, target_calls=0, exc=None)
            try:
                return o_step(self_, gp)
            except Exception as ex:
                R.cur_step["exc"] = type(ex).__name__
                raise
            finally:
                R.cur_step["target_calls"] = R.target_calls - R.cur_step["t0"]
                R.steps.append(R.cur_step)
                R.cur_step = None

        def fl_call(self_, x, *a, **k):
            if R.cur_step is not None:
                R.cur_step["evals"].append(np.array(x, dtype=float).reshape(-1))
            return o_flcall(self_, x, *a, **k)

        def h_call(self_, u, lb, ub, fl, gp, optim_state):
            us, z = o_hcall(self_, u, lb, ub, fl, gp, optim_state)
            if R.widen_rng is not None and np.asarray(us).size > 0:
                rr = R.widen_rng
                k = rr.choice([1, 2, 3, 5])
                us = np.atleast_2d(us)
                D = us.shape[1]
                step_ = float(optim_state["search_mesh_size"])
                extra = np.array([[us[0, d] + step_ * rr.randint(-3, 3) for d in range(D)] for _ in range(k)])
                rows = np.vstack([us, extra])
                perm = list(range(rows.shape[0]))
                rr.shuffle(perm)
                us = rows[perm]
            return us, z

        es.contraints_check, es.acq_fcn_lcb, es.ESSearch.__call__ = es_cc, es_acq, es_call
        bm.contraints_check, bm.acq_fcn_lcb, bm.BADS._search_step_ = bm_cc, bm_acq, step
        FunctionLogger.__call__ = fl_call
        sh.ESSearchHedge.__call__ = h_call

    def remove(self):
        for obj, name, val in self._saved:
            setattr(obj, name, val)


CONS = {
    "none": None,
    # infeasible inside a disc around (0.6, ...): ordinary constraint
    "disc": lambda x: np.sum((np.atleast_2d(x) - 0.6) ** 2, axis=1) < 0.09,
    # thin feasible band |x0 - 0.3| <= 0.06 : most candidates die, populations shrink to a few
    "band": lambda x: np.abs(np.atleast_2d(x)[:, 0] - 0.3) > 0.06,
    "wband": lambda x: np.abs(np.atleast_2d(x)[:, 0] - 0.3) > 0.15,
    # feasible only on multiples of 1/4 in x0: populations shrink to zero (the IndexError of C09)
    "lattice": lambda x: np.abs(np.atleast_2d(x)[:, 0] * 4 - np.round(np.atleast_2d(x)[:, 0] * 4)) > 1e-12,
}


def run_bads(cfg):
    """One real BADS run under the recorder.  cfg: D, budget, seed, cons, n_search, iters, widen, noise, box, x0, nan_acq."""
    import logging
    import random
    import warnings
    from pybads import BADS
    D = cfg["D"]
    rec = Recorder(widen_rng=random.Random(cfg["seed"] * 7919 + 11) if cfg.get("widen") else None,
                   nan_rng=random.Random(cfg["seed"] * 104729 + 5) if cfg.get("nan_acq") else None)
    nrng = np.random.default_rng(cfg["seed"] + 5)

    def target(x):
        rec.target_calls += 1
        x = np.atleast_2d(x)
        if cfg.get("obj") == "lin":        # a slope towards the lower bound: long sprees of successful searches, then failures at the bound
            v = float(np.sum(x) + 0.01 * np.sum(x ** 2))
        elif cfg.get("obj") == "rugged":   # many local minima: the poll mesh shrinks and grows again
            v = float(np.sum(x) + 0.8 * np.sum(np.sin(37 * x)))
        else:
            v = float(np.sum((x - cfg.get("opt", 0.3)) ** 2) + 0.3 * np.sum(np.sin(3 * x)))
        if cfg.get("noise"):
            v += float(nrng.normal()) * 0.05
        return v

    opts = dict(max_fun_evals=cfg["budget"], random_seed=cfg["seed"], display="off")
    if cfg.get("n_search"):
        opts["n_search"] = cfg["n_search"]
    if cfg.get("iters"):
        opts["n_search_iter"] = cfg["iters"]
    if cfg.get("noise"):
        opts["uncertainty_handling"] = True
        opts["noise_final_samples"] = 0
    opts.update(cfg.get("opts", {}))
    ACQ = {"zero": 0.0, "two": 2.0, "alt": (lambda t, d: 3.0 if int(t) % 2 else 0.0), "decay": (lambda t, d: 3.0 * 0.9 ** t)}
    rec.acq_param = None
    if cfg.get("acq"):
        rec.acq_param = ACQ[cfg["acq"]]
        opts["search_acq_fcn"] = ("acq_LCB", rec.acq_param)
    if cfg.get("box") == "odd":
        # hard bounds that are NOT multiples of the search mesh in internal units (-1.337, 1.471): the mesh-rounded
        # box [lb_search, ub_search] is strictly inside the hard box
        lb, ub = -13.37 * np.ones(D), 14.71 * np.ones(D)
        plb, pub = -5.0 * np.ones(D), 5.0 * np.ones(D)
        if cfg.get("narrow_plausible"):
            plb, pub = -1.0 * np.ones(D), 1.0 * np.ones(D)
        x0 = float(cfg.get("x0", 4.0)) * np.ones(D)
    else:
        lb, ub = -2.0 * np.ones(D), 2.0 * np.ones(D)
        plb, pub = lb / 2, ub / 2
        x0 = 1.5 * np.ones(D) if cfg.get("opt", 0) > 2 else 0.25 * np.ones(D) if cfg["cons"] == "lattice" else 0.3 * np.ones(D) + (0.0 if cfg["cons"] in ("band", "wband") else -0.55)
    out = dict(cfg=cfg, crash=None)
    rec.install()
    logging.disable(logging.CRITICAL)
    try:
        with warnings.catch_warnings():
            warnings.simplefilter("ignore")
            b = BADS(target, x0, lb, ub, plb, pub, non_box_cons=CONS[cfg["cons"]], options=opts)
            rec.cons_fn, rec.vt = CONS[cfg["cons"]], b.var_transf
            rec.hard_lb = np.array(b.lower_bounds, dtype=float).reshape(-1).copy()
            rec.hard_ub = np.array(b.upper_bounds, dtype=float).reshape(-1).copy()
            b.optimize()
    except Exception as ex:   # crashes are C09's concern; recorded, the partial trace is still checked
        out["crash"] = type(ex).__name__
    finally:
        rec.remove()
        logging.disable(logging.NOTSET)
    out["es_calls"], out["steps"], out["target_calls"] = rec.es_calls, rec.steps, rec.target_calls
    return out


def panel(tier_quick, seed):
    base = [
        dict(D=1, budget=40, cons="none", n_search=32, iters=2),
        dict(D=2, budget=60, cons="none", n_search=64, iters=3),
        dict(D=2, budget=70, cons="disc", n_search=128, iters=2, widen=True),
        dict(D=2, budget=80, cons="band", n_search=256, iters=4),
        dict(D=3, budget=70, cons="wband", n_search=64, iters=2, widen=True),
        dict(D=2, budget=70, cons="wband", n_search=128, iters=3),
        dict(D=2, budget=60, cons="none", n_search=16, iters=1, noise=True),
        dict(D=2, budget=60, cons="lattice", n_search=64, iters=2),
        dict(D=2, budget=60, cons="none", n_search=64, iters=2, opt=2.6),    # optimum outside the box: candidates pile up on the bound
        dict(D=3, budget=90, cons="disc"),                       # default 2**12 candidates: monitor only
        # small populations in a thin band: generations WITHOUT survivors after generations with survivors
        # (last generation empty for iters=2; an empty generation followed by further ones for iters 3, 4)
        dict(D=2, budget=60, cons="band", n_search=32, iters=2),
        dict(D=2, budget=60, cons="band", n_search=48, iters=3),
        dict(D=2, budget=60, cons="band", n_search=32, iters=4),
        dict(D=2, budget=60, cons="lattice", n_search=48, iters=3),
        # hard bounds that are not multiples of the search mesh, optimum beyond a bound: candidates are clamped to the
        # mesh-rounded box, which differs from the hard box
        dict(D=2, budget=70, cons="none", n_search=64, iters=3, box="odd", opt=16.0, x0=4.0),
        dict(D=1, budget=50, cons="none", n_search=64, iters=4, box="odd", opt=-15.0, x0=-4.0),
        dict(D=2, budget=70, cons="none", n_search=96, iters=2, box="odd", opt=16.0, x0=12.0, widen=True),
        # ... and the search mesh COARSENS during the run (search_mesh_expand: after successful searches): the mesh-rounded box
        # must follow the current mesh in both directions
        # a configured acquisition parameter: the constant 0 (rank by the GP mean), a constant, schedules that change from one evaluation to the next
        dict(D=2, budget=50, cons="none", n_search=32, iters=2, acq="zero"),
        dict(D=2, budget=50, cons="none", n_search=32, iters=3, acq="alt"),
        dict(D=2, budget=50, cons="wband", n_search=48, iters=2, acq="two"),
        dict(D=2, budget=70, cons="none", n_search=64, iters=2, box="odd", obj="lin", narrow_plausible=True, x0=0.5, opts=dict(search_mesh_expand=1)),
        dict(D=2, budget=110, cons="none", n_search=64, iters=2, box="odd", obj="rugged", narrow_plausible=True, x0=0.5),
        # acquisition values replaced by NaN for a random subset of the candidates (from outside): np.argsort ranks NaN last
        dict(D=2, budget=50, cons="none", n_search=32, iters=3, nan_acq=True),
        dict(D=2, budget=50, cons="wband", n_search=48, iters=2, nan_acq=True),
    ]
    if not tier_quick:
        base += [
            dict(D=1, budget=60, cons="band", n_search=64, iters=3, widen=True),
            dict(D=2, budget=150, cons="none", widen=True),
            dict(D=3, budget=120, cons="band", n_search=512, iters=4),
            dict(D=2, budget=100, cons="disc", n_search=8, iters=2, noise=True, widen=True),
            dict(D=2, budget=100, cons="lattice", n_search=256, iters=3),
            dict(D=3, budget=150, cons="none", n_search=128, iters=5),
            dict(D=3, budget=120, cons="none", n_search=128, iters=3, box="odd", opt=-15.0, x0=-4.0),
            dict(D=2, budget=120, cons="band", n_search=24, iters=3),
            dict(D=1, budget=60, cons="band", n_search=16, iters=2),
        ]
    for k, c in enumerate(base):
        c["seed"] = 1000 * seed + k + 1
    return base


def extra_band_cfg(seed, j):
    """Further thin-band runs, used by the plug-in until enough later-empty generations have been seen."""
    ns, it = [(32, 4), (48, 3), (24, 3), (32, 2), (64, 4), (16, 2)][j % 6]
    return dict(D=2, budget=60, cons="band", n_search=ns, iters=it, seed=1000 * seed + 500 + j)


def later_empty_generation(c):
    """True when a generation without survivors follows a generation with survivors."""
    seen = False
    for g in c["gens"]:
        if g[1].shape[0] > 0:
            seen = True
        elif seen:
            return True
    return False


def mesh_rounded_box(hard_lb, hard_ub, mesh):
    """The mesh-rounded box recomputed from the hard bounds and the search mesh size alone (exact arithmetic):
    the smallest multiple of the mesh >= lb and the largest multiple <= ub, per coordinate."""
    m = Fraction(mesh)
    lo = [float(m * math.ceil(Fraction(float(v)) / m)) for v in hard_lb]
    hi = [float(m * math.floor(Fraction(float(v)) / m)) for v in hard_ub]
    return np.array(lo), np.array(hi)


def rows_in(rows, pool):
    s = {tuple(r) for r in np.asarray(pool).tolist()}
    return all(tuple(r) in s for r in np.asarray(rows).tolist())


def es_nan_monitor(c):
    """Candidates with NaN coordinates among the survivors of a generation (they are not inside any box)."""
    for k, (U, rows, z) in enumerate(c["gens"]):
        if rows.shape[0] and np.isnan(rows).any():
            n = int(np.isnan(rows).any(axis=1).sum())
            return (f"generation {k + 1} of {len(c['gens'])}: {n} of {rows.shape[0]} surviving candidates have NaN coordinates "
                    f"(generation sizes {[g[1].shape[0] for g in c['gens']]}); they are not inside the mesh-rounded box")
    return None


def es_monitor(c):
    """C18 restated on one recorded ESSearch.__call__: returns (kind, message|None, key|None).
    Survivors = the rows contraints_check returned inside the strategy, over ALL generations; their acquisition
    values = what acq_fcn_lcb returned on them.  NaN-valued survivors are ranked after every number (they can
    only be returned when no survivor has a number); NaN coordinates are reported by es_nan_monitor."""
    gens = c["gens"]
    if c.get("lcb_bad"):
        return "bad", c["lcb_bad"], "es-acquisition-not-lcb"
    if c.get("infeasible_survivor") is not None:
        return "bad", f"a candidate that violates the user's constraint survived the filtering inside the strategy: {c['infeasible_survivor']} (internal coordinates)", "es-infeasible-survivor"
    if c.get("desync") or any(g[2] is None for g in gens) and c["exc"] is None:
        return "unobserved", "acq_fcn_lcb was not called on the filtered population", "es-unobserved"
    done = [g for g in gens if g[2] is not None]
    if any(g[2].shape[0] != g[1].shape[0] for g in done):
        return "unobserved", "acq_fcn_lcb did not return one value per surviving candidate", "es-unobserved"
    lb, ub = c["lb"], c["ub"]
    box_lo = box_hi = None
    if c.get("hard_lb") is not None and c.get("search_mesh"):
        box_lo, box_hi = mesh_rounded_box(c["hard_lb"], c["hard_ub"], c["search_mesh"])
    for U, rows, z in done:
        real = rows[~np.isnan(rows).any(axis=1)] if rows.shape[0] else rows
        if real.shape[0] and not (np.all(real >= c["lb_search"]) and np.all(real <= c["ub_search"])):
            return "bad", "a surviving candidate lies outside the mesh-rounded box [lb_search, ub_search] of optim_state", "es-not-min"
        if real.shape[0] and box_lo is not None and not (np.all(real >= box_lo) and np.all(real <= box_hi)):
            j = int(np.argmax(np.any((real < box_lo) | (real > box_hi), axis=1)))
            return "bad", (f"surviving candidate {real[j].tolist()} lies outside the mesh-rounded box {box_lo.tolist()} .. {box_hi.tolist()} "
                           f"recomputed from the hard bounds {c['hard_lb'].tolist()} .. {c['hard_ub'].tolist()} and the search mesh {c['search_mesh']}"), "es-not-min"
        if real.shape[0] and not rows_in(real, np.maximum(np.minimum(U, ub), lb)):
            return "bad", "a surviving candidate is not the projection of a generated candidate", "es-not-min"
    allz = np.concatenate([g[2] for g in done]) if done else np.zeros(0)
    allr = np.vstack([g[1] for g in done]) if done else np.zeros((0, 1))
    sizes = [g[1].shape[0] for g in gens]
    if c["exc"] is not None:
        if c["exc"] == "IndexError" and allz.size == 0:
            return "stuck", None, None    # pre-692d1d7 behaviour when nothing survives: a crash (C09), not a wrong proposal
        if allz.size:
            return "bad", f"ESSearch.__call__ raised {c['exc']}: no point was proposed although {allz.size} candidates survived (generation sizes {sizes})", "es-survivors-dropped"
        return "bad", f"ESSearch.__call__ raised {c['exc']}", "es-not-min"
    if len(gens) != c["iters"]:
        return "bad", f"{len(gens)} generations recorded, n_search_iter = {c['iters']}", "es-not-min"
    if isinstance(c["ret"], str):         # the empty search set
        if allz.size:
            first = next(k for k, n in enumerate(sizes) if n > 0)
            return "bad", (f"the empty search set was returned although {allz.size} candidates survived the filters "
                           f"(generation sizes {sizes}; generation {first + 1} had {sizes[first]} survivors, best acquisition value "
                           f"{np.nanmin(allz) if not np.isnan(allz).all() else float('nan')})"), "es-survivors-dropped"
        return "empty", None, None
    u0, z0 = c["ret"]
    if allz.size == 0:
        return "bad", "a point was returned although no candidate survived", "es-not-min"
    if np.isnan(allz).all():
        ok = np.isnan(z0) and any(np.array_equal(allr[i], u0, equal_nan=True) for i in range(allz.size))
        return ("ok", None, None) if ok else ("bad", "every survivor has a NaN acquisition value and the returned pair is not one of them", "es-not-min")
    zmin = np.nanmin(allz)
    if not z0 == zmin:
        return "bad", f"returned acquisition value {z0} is not the minimum {zmin} over the {allz.size} survivors of all generations (sizes {sizes})", "es-not-min"
    hit = [i for i in range(allz.size) if allz[i] == z0 and np.array_equal(allr[i], u0)]
    if not hit:
        return "bad", "returned point is not a survivor carrying the minimal acquisition value", "es-not-min"
    return "ok", None, None


def _czv(x):
    x = float(x)
    return "None" if math.isnan(x) else f"(Some {cq(x)})"


def es_case(c):
    """Coq literal ((lamb, gens), expected) or None when too large / not comparable.  Numbers are `Some q`, NaN is `None`
    (coordinates and acquisition values); an infinite value has no literal: not comparable."""
    done = c["gens"]
    if any(g[2] is None or g[2].shape[0] != g[1].shape[0] for g in done):
        return None
    if any(np.isinf(g[2]).any() or np.isinf(g[1]).any() for g in done):
        return None
    if sum(g[1].shape[0] for g in done) > 700:
        return None
    if c["exc"] not in (None, "IndexError"):
        return None
    gl = clist([clist([f"({clist([_czv(v) for v in r])}, {_czv(zz)})" for r, zz in zip(g[1].tolist(), g[2].tolist())]) for g in done])
    if c["exc"] is not None:
        exp = "ESStuck"
    elif isinstance(c["ret"], str):
        exp = "ESEmpty"
    else:
        u0, z0 = c["ret"]
        if np.isinf(u0).any() or math.isinf(z0):
            return None
        exp = f"(ESPoint {clist([_czv(v) for v in u0.tolist()])} {_czv(z0)})"
    return f"(({cnat(c['lamb'])}, {gl}), {exp})"


def step_monitor(s):
    if s["exc"] is not None and s["set"] is not None and s["set"].shape[0] > 0:
        return "crash", None            # a crash inside a non-empty search step: not this property (C09/C10)
    if s["target_calls"] > 1 or len(s["evals"]) > 1:
        return "bad", f"{s['target_calls']} target evaluations ({len(s['evals'])} logger calls) in one search step"
    if s["set"] is None:
        return "crash", None
    n = s["set"].shape[0]
    if n == 0:
        if s["target_calls"] != 0:
            return "bad", "the target was evaluated although the filtered search set is empty"
        return "empty", None
    if s["z"] is None or s["z"].shape[0] != n or not np.array_equal(s["acq_rows"], s["set"]):
        return "bad", "the acquisition function was not evaluated on the filtered search set"
    if np.isnan(s["z"]).any():
        return "nan", None
    if s["target_calls"] != 1 or len(s["evals"]) != 1:
        return "bad", f"{s['target_calls']} target evaluations for a non-empty search set"
    zl = s["z"].tolist()
    i = min(range(n), key=lambda k: (zl[k], k))
    if not np.array_equal(s["evals"][0], s["set"][i]):
        return "bad", f"evaluated point {s['evals'][0].tolist()} is not the argmin row {s['set'][i].tolist()} (z={zl})"
    return "ok", None


def step_case(s):
    if s["set"] is None or s["exc"] is not None:
        return None
    n = s["set"].shape[0]
    if n and (s["z"] is None or s["z"].shape[0] != n or np.isnan(s["z"]).any()):
        return None
    z = s["z"].tolist() if n else []
    return (f"(({clist([cqlist(r) for r in s['set'].tolist()])}, {cqlist(z)}), "
            f"{clist([cqlist(e.tolist()) for e in s['evals']])})")


ES_TY = "(nat * list (list (list zv * zv))) * es_out (list zv)"
ES_OK = "es_case_ok"
STEP_TY = "(list (list Q) * list Q) * list (list Q)"
STEP_OK = "search_case_ok"


# =============================================================================== (iv) hedge

class _StubES:
    def __init__(self, mu, lamb, options_dict):
        pass

    def __call__(self, u, *a):
        return np.array(u, dtype=float), 0.0


class _StubGP:
    def __init__(self, rng):
        self.rng = rng

    def predict(self, x):
        # scalars: with (1,1) arrays the gamma == 0 branch of update_hedge cannot store its result (NumPy 2)
        return np.float64(self.rng.uniform(-1, 1)), np.float64(self.rng.choice([0.0, 0.01, 1.0]))


def hedge_drive(rng, n_steps, gamma, n_funs, D=2):
    """Drive the REAL ESSearchHedge through a synthetic score history.  Returns a list of records
    dict(g, e, gamma, rand, prob, chosen) — one per __call__."""
    import warnings
    import pybads.search.search_hedge as sh
    saved = (sh.ESSearchWM, sh.ESSearchELL)
    sh.ESSearchWM = sh.ESSearchELL = _StubES
    recs = []
    try:
        fcns = [("ES-wcm", 1), ("ES-ell", 1), ("ES-ell", 1), ("ES-wcm", 1)][:n_funs]
        beta = rng.choice([1.0, 1.0, 0.1, 10.0])
        opts = dict(hedge_gamma=gamma, hedge_beta=beta, hedge_decay=0.1 ** (1 / (2 * D)), n_search_iter=2, n_search=64)
        h = sh.ESSearchHedge(fcns, opts, None)
        gp = _StubGP(rng)
        u = np.zeros(D)
        regime = rng.choice(["small"] * 5 + ["mixed"] * 2 + ["large"])
        for t in range(n_steps):
            s = rng.randrange(2 ** 31)
            np.random.seed(s)
            rand = float(np.random.rand())
            np.random.seed(s)
            g = h.g.copy()
            with warnings.catch_warnings():
                warnings.simplefilter("ignore")
                e = np.exp(beta * (g - np.max(g)))
            try:
                h(u, None, None, None, None, {})
                chosen = int(np.asarray(h.chosen_hedge).reshape(-1)[0])
            except IndexError:
                chosen = None
            prob = np.array(h.prob, dtype=float).copy()
            recs.append(dict(g=g.tolist(), e=e.tolist(), gamma=gamma, beta=beta, rand=rand, seed=s, D=D,
                             prob=prob.tolist(), chosen=chosen, n=n_funs))
            if chosen is None:
                break
            fval_old = rng.uniform(-2, 2)
            f = fval_old - rng.choice([0.0, 1e-3, 0.1, 1.0, -0.5]) * rng.random()
            fs = rng.choice([0.0, 1e-3, 0.1, 1.0])
            mesh = 2.0 ** (-rng.randint(0, 2 if regime == "small" else (8 if regime == "mixed" else 30)))
            with warnings.catch_warnings():
                warnings.simplefilter("ignore")
                h.update_hedge(np.zeros((1, D)), fval_old, f, fs, gp, mesh)
    finally:
        sh.ESSearchWM, sh.ESSearchELL = saved
    return recs


def hedge_monitor(r):
    """Proper distribution with floor, and the choice is the first index whose cumulative probability
    exceeds the draw (exact arithmetic on the floats the code produced)."""
    p = r["prob"]
    if any(math.isnan(v) for v in p):
        return "hedge probabilities contain NaN"
    if len(p) != r["n"]:
        return f"{len(p)} probabilities for {r['n']} strategies"
    if abs(sum(Fraction(v) for v in p) - 1) > Fraction(1, 10 ** 12):
        return f"hedge probabilities sum to {float(sum(Fraction(v) for v in p))!r}, not 1"
    if any(v < r["gamma"] for v in p):
        return f"a hedge probability {min(p)!r} is below the exploration floor {r['gamma']}"
    acc, first = Fraction(0), None
    for i, v in enumerate(p):
        acc += Fraction(v)
        if Fraction(r["rand"]) < acc:
            first = i
            break
    if r["chosen"] != first:
        near = min(abs(Fraction(r["rand"]) - sum(Fraction(v) for v in p[:i + 1])) for i in range(len(p)))
        if near > Fraction(1, 10 ** 12):
            return f"strategy {r['chosen']} chosen, but the first index with rand < cumsum(prob) is {first}"
    return None


def hedge_case(r):
    xp = "(XL " + clist([f"(XA {cq(v)})" for v in r["prob"]]) + ")"
    ch = "None" if r["chosen"] is None else f"(Some {cnat(r['chosen'])})"
    return f"(({cqlist(r['e'])}, {cq(r['gamma'])}, {cq(r['rand'])}, {cqlist(r['prob'])}), ({xp}, {ch}))"


HEDGE_TY = "(list Q * Q * Q * list Q) * (xval * option nat)"
HEDGE_OK = "hedge_case_ok"


def hedge_replay(r):
    """Re-run ONE recorded hedge call on the real class (scores g, draw seed) and return the fresh record."""
    import warnings
    import pybads.search.search_hedge as sh
    saved = (sh.ESSearchWM, sh.ESSearchELL)
    sh.ESSearchWM = sh.ESSearchELL = _StubES
    try:
        fcns = [("ES-wcm", 1), ("ES-ell", 1), ("ES-ell", 1), ("ES-wcm", 1)][:r["n"]]
        D = r.get("D", 2)
        opts = dict(hedge_gamma=r["gamma"], hedge_beta=r["beta"], hedge_decay=0.1 ** (1 / (2 * D)), n_search_iter=2, n_search=64)
        h = sh.ESSearchHedge(fcns, opts, None)
        h.g = np.array(r["g"], dtype=float)
        np.random.seed(r["seed"])
        rand = float(np.random.rand())
        np.random.seed(r["seed"])
        try:
            with warnings.catch_warnings():
                warnings.simplefilter("ignore")
                h(np.zeros(D), None, None, None, None, {})
            chosen = int(np.asarray(h.chosen_hedge).reshape(-1)[0])
        except IndexError:
            chosen = None
        out = dict(r)
        out["prob"], out["chosen"], out["rand"] = np.array(h.prob, dtype=float).tolist(), chosen, rand
        return out
    finally:
        sh.ESSearchWM, sh.ESSearchELL = saved


# =============================================================================== the programs regenerated from the source (A.23)
REQUIRES_SRC = REQUIRES + ["PV.Model.ESSrc", "PV.gen.Src_es"]
SRC_OK = {"mask": "mask_case_ok_with src_mask", "maskr": "mask_plain_ok_with src_mask", "es": "es_case_ok_with src_gen src_ret",
          "hedge": "hedge_case_ok_with src_hedge"}


def src_generated_ok():
    """gen/Src_es.v was generated from the current source (not poisoned) and builds"""
    from vlib import core
    p = core.COQ / "gen" / "Src_es.v"
    if not p.exists() or "Definition src_mask " not in p.read_text():
        return False
    ok, _ = core.coq_make(["gen/Src_es.vo"])
    return ok


def run_cases_both(name, case_ty, ok_fun, ok_fun_src, cases, shard=400, timeout=900):
    """Like core.run_cases, but every shard is evaluated twice on the SAME literals: by the hand-written model (ok_fun) and by
    the program regenerated from the source (ok_fun_src).  Returns (compiled, bad_model, bad_src, log)."""
    from concurrent.futures import ThreadPoolExecutor
    from vlib import core
    tg = [r[3:].replace(".", "/") + ".vo" for r in REQUIRES_SRC if r.startswith("PV.")]
    okb, logb = core.coq_make(tg)
    if not okb:
        return False, [], [], "required modules do not build:\n" + logb[-2000:]
    shards = [cases[i:i + shard] for i in range(0, len(cases), shard)] or [[]]

    def one(k):
        body = f"\nDefinition the_cases : list ({case_ty}) := " + core.clist(["\n  " + c for c in shards[k]]) + ".\n"
        body += f"Eval vm_compute in (bad_indices ({ok_fun}) the_cases).\n"
        body += f"Eval vm_compute in (bad_indices ({ok_fun_src}) the_cases).\n"
        ok, out = core.coq_eval(f"{name}_{k}", REQUIRES_SRC, body, timeout=timeout)
        ev = core.split_evals(out) if ok else []
        lists = [core.parse_nat_list(e) for e in ev]
        if not ok or len(lists) != 2 or any(x is None for x in lists):
            return False, None, None, out
        return True, lists[0], lists[1], out
    with ThreadPoolExecutor(max_workers=min(12, len(shards))) as ex:
        res = list(ex.map(one, range(len(shards))))
    allok, bm, bs, log = True, [], [], ""
    for k, (ok, a, b, out) in enumerate(res):
        if not ok:
            allok = False
            log += f"[shard {k}] coqc failed:\n{out[-3000:]}\n"
        else:
            bm += [k * shard + i for i in a]
            bs += [k * shard + i for i in b]
    return allok, bm, bs, log


# --------------------------------------------------------------------------- cases AIMED at the generations loop (search(), A.23)
def es_direct(seed):
    """One call of the real ESSearchELL.__call__ on a synthetic state, aimed at the selection statements of the generations loop:
    the filter and the acquisition function are replaced, inside pybads.search.es_search, by recorders that (a) project onto the box
    they are HANDED and let a prescribed number of rows survive (whole generations without survivors, populations of one or two,
    more survivors than lamb) and (b) score the survivors with prescribed values (ties, NaN, a later generation better or worse than
    the first).  Returns a record in the format of Recorder.es_calls for es_monitor.  Deterministic in `seed` (replay)."""
    import random
    import types
    import logging
    import pybads.search.es_search as es
    rng = random.Random(seed)
    D = rng.choice([1, 2, 2, 3])
    lamb = rng.choice([1, 2, 3, 5, 8])
    iters = rng.choice([1, 2, 2, 3, 4])
    mesh = 2.0 ** rng.choice([-3, -2, -1])
    lbs = np.array([-2.0 + mesh * rng.randint(0, 3) for _ in range(D)])
    ubs = lbs + mesh * np.array([rng.randint(4, 24) for _ in range(D)])
    opts = dict(poll_mesh_multiplier=2.0, es_start=0.25, n_search_iter=iters, search_acq_fcn=("acq_LCB", None), es_beta=1)
    ost = dict(mesh_size=mesh, search_factor=1.0, search_mesh_size=mesh / 2, tol_mesh=1e-6, lb_search=lbs.copy(), ub_search=ubs.copy())
    keep_plan = [rng.choice(["all", "all", "none", "one", "two", "half"]) for _ in range(iters)]
    zmode = [rng.choice(["rand", "rand", "ties", "nan", "better", "worse"]) for _ in range(iters)]
    c = dict(cls="ESSearchELL", mu=lamb, lamb=lamb, iters=iters, gens=[], lb=None, ub=None, ret=None, exc=None,
             lb_search=lbs.copy(), ub_search=ubs.copy(), hard_lb=None, hard_ub=None, search_mesh=mesh / 2, direct_seed=seed)
    o_cc, o_acq = es.contraints_check, es.acq_fcn_lcb

    def cc(U, lb, ub, tol, fl, proj=False, cons=None):
        U = np.array(U, dtype=float)
        lb_, ub_ = np.asarray(lb, dtype=float).reshape(-1), np.asarray(ub, dtype=float).reshape(-1)
        k = len(c["gens"])
        P = np.maximum(np.minimum(U, ub_), lb_) if proj else U[np.all((U >= lb_) & (U <= ub_), axis=1)]
        P = np.unique(P, axis=0) if P.shape[0] else P
        plan = keep_plan[min(k, iters - 1)]
        n = P.shape[0]
        m = dict(all=n, none=0, one=min(1, n), two=min(2, n), half=(n + 1) // 2)[plan]
        idx = sorted(rng.sample(range(n), m)) if n else []
        out = P[idx] if m else P[:0]
        c["gens"].append([U, np.array(out), None])
        c["lb"], c["ub"] = lb_, ub_
        return out

    def acq(xi, t, gp, sb=None):
        xi = np.asarray(xi)
        n = xi.shape[0]
        k = len(c["gens"]) - 1
        mode = zmode[min(max(k, 0), iters - 1)]
        z = np.array([rng.choice([-1.0, 0.0, 0.5, 1.0, 2.0]) + (0.0 if mode == "ties" else rng.random()) for _ in range(n)])
        if mode == "nan":
            z = np.where(np.array([rng.random() < 0.6 for _ in range(n)]), np.nan, z)
        z = z + (-5.0 if mode == "better" else 5.0 if mode == "worse" else 0.0)
        if c["gens"] and c["gens"][-1][2] is None:
            c["gens"][-1][2] = np.array(z, dtype=float)
        return z.reshape(-1, 1), z.copy(), np.ones(n)

    es.contraints_check, es.acq_fcn_lcb = cc, acq
    st = np.random.get_state()
    lvl = logging.getLogger("BADS").level
    logging.getLogger("BADS").setLevel(logging.CRITICAL)
    try:
        np.random.seed(seed % (2 ** 31))
        s = es.ESSearchELL(lamb, lamb, opts)
        gp = types.SimpleNamespace(X=np.zeros((4, D)), y=np.zeros((4, 1)), temporary_data=dict(poll_scale=np.ones(D)))
        fl = types.SimpleNamespace(func_count=10)
        u = (lbs + ubs) / 2
        import warnings
        with warnings.catch_warnings():
            warnings.simplefilter("ignore")
            r = s(u, lbs, ubs, fl, gp, ost, True, None)
        if np.asarray(r[0]).size == 0:
            c["ret"] = "empty"
        else:
            c["ret"] = (np.array(r[0], dtype=float).reshape(-1), float(np.asarray(r[1]).reshape(-1)[0]))
    except Exception as ex:
        c["exc"] = type(ex).__name__
        c["exc_msg"] = str(ex)[:120]
    finally:
        es.contraints_check, es.acq_fcn_lcb = o_cc, o_acq
        np.random.set_state(st)
        logging.getLogger("BADS").setLevel(lvl)
    return c
