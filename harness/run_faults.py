"""Fault injection on REAL BADS runs (C16): gpyreg.GP.fit is wrapped from outside and raises
np.linalg.LinAlgError at chosen global invocation indices (gpyreg.GP.update for the posterior-update
fallback of local_gp_fitting).  A faulted fit behaves like a real numerical failure inside GP.fit: the
arguments go through GP._convert_shapes (which raises ValueError on misaligned lengths exactly as the real
fit does) and are stored on the GP object (self.X/self.y/self.s2, as GP.fit does before it factorises),
THEN LinAlgError is raised.

Each run records, at the seam, the lengths handed to every fit attempt (len(X), len(y), size of s2,
size of the GP's stored s2), which controller made the call (init_and_train_gp / _robust_gp_fit_), the
value returned by every _robust_gp_fit_ call, and the basic run monitors (box, budget, truthful result).
"""
from __future__ import annotations

import os
import sys
import traceback

import numpy as np

LB, UB = -2.0, 2.0


def base_configs():
    """(name, mode, seed, budget): short D=2 runs."""
    return [
        dict(name="det-a", mode="det", seed=11, budget=60, D=2),
        dict(name="det-b", mode="det", seed=23, budget=45, D=2),
        dict(name="decl-a", mode="decl", seed=5, budget=70, D=2),
        dict(name="spec-a", mode="spec", seed=7, budget=70, D=2),
        dict(name="spec-b", mode="spec", seed=31, budget=60, D=2),
        dict(name="det-clip", mode="det", seed=13, budget=60, D=2, target="clip"),
        dict(name="det-const", mode="det", seed=17, budget=50, D=2, target="const"),
    ]


def run_faulted(cfg):
    """cfg: mode, seed, budget, D, faults (list of fit invocation indices), upd_faults (indices of the direct
    gp.update(hyp=...) call of local_gp_fitting), upd_double (also fail the recomputation inside the handler)."""
    sys.path.insert(0, os.environ.get("VERIF_REPO", "/repo"))
    import logging
    logging.disable(logging.CRITICAL)
    import warnings
    warnings.filterwarnings("ignore")
    import gpyreg
    import pybads.bads.bads as B
    import pybads.bads.gaussian_process_train as G
    from pybads import BADS
    from pybads.function_logger import FunctionLogger

    D, mode = cfg["D"], cfg["mode"]
    faults = set(cfg.get("faults", []))
    upd_faults = set(cfg.get("upd_faults", []))
    noise_rng = np.random.default_rng(cfg["seed"])
    calls = []           # (x, value)
    out_of_box = []

    def fun(x):
        x = np.asarray(x, dtype=float).reshape(-1)
        if np.any(x < LB) or np.any(x > UB) or not np.all(np.isfinite(x)):
            out_of_box.append(x.tolist())
        v = float(np.sum((x - 0.3) ** 2) + 0.3 * np.sum(np.abs(x)))
        if cfg.get("target") == "clip":       # a saturated objective: the largest values of the training set are exactly tied
            v = min(v, 0.5)
        elif cfg.get("target") == "const":    # all values tied
            v = 1.25
        if mode != "det":
            v = v + 0.1 * float(noise_rng.standard_normal())
        calls.append((x.tolist(), v))
        return (v, 0.1) if mode == "spec" else v

    options = {"display": "off", "max_fun_evals": cfg["budget"], "random_seed": cfg["seed"]}
    if mode == "spec":
        options["specify_target_noise"] = True
        options["uncertainty_handling"] = True
    elif mode == "decl":
        options["uncertainty_handling"] = True
    options.update(cfg.get("opts", {}))

    cnt = dict(fit=0, upd=0, merged=0)
    attempts = []        # dict(j, caller, nX, nY, s2, tmp, faulted)
    sessions = []        # dict(kind, first_j, n_attempts, ret / exc, rpat)
    o_fit, o_upd, o_rob, o_init, o_call = gpyreg.GP.fit, gpyreg.GP.update, G._robust_gp_fit_, B.init_and_train_gp, FunctionLogger.__call__
    LinAlgError = np.linalg.LinAlgError

    def size_of(s2):
        if s2 is None:
            return None
        if np.isscalar(s2):
            return "scalar"
        return int(np.size(s2))

    def start_kind(h):
        """the start point handed to fit: 'none' | 'zeros' (every entry exactly 0) | 'other'"""
        if h is None:
            return "none"
        try:
            h = np.asarray(h, dtype=float)
            return "zeros" if h.size > 0 and bool(np.all(h == 0.0)) else "other"
        except Exception:        # noqa: BLE001
            return "other"

    def w_fit(self, X=None, y=None, s2=None, *a, **k):
        j = cnt["fit"]
        cnt["fit"] += 1
        caller = sys._getframe(1).f_code.co_name
        attempts.append(dict(j=j, caller=caller, nX=None if X is None else int(np.shape(X)[0]), nY=None if y is None else int(np.shape(y)[0]),
                             s2=size_of(s2), tmp=size_of(self.s2), faulted=j in faults, raised=False,
                             start=start_kind(k.get("hyp0"))))
        if j in faults:
            Xc, yc, s2c = self._convert_shapes(X, y, s2)
            if Xc is not None:
                self.X = Xc
            if yc is not None:
                self.y = yc
            if s2c is not None:
                self.s2 = s2c
            attempts[-1]["raised"] = True
            raise LinAlgError(f"injected fault at fit invocation {j}")
        try:
            return o_fit(self, X, y, s2, *a, **k)
        except LinAlgError:
            attempts[-1]["raised"] = True      # a REAL numerical failure: same oracle answer as an injected one
            raise

    def w_upd(self, *a, **k):
        caller = sys._getframe(1).f_code.co_name
        if caller == "local_gp_fitting":
            u = cnt["upd"]
            cnt["upd"] += 1
            if u in upd_faults:
                cnt["upd_pending_double"] = bool(cfg.get("upd_double"))
                raise LinAlgError(f"injected fault at posterior update {u}")
        elif caller == "set_hyperparameters" and cnt.get("upd_pending_double"):
            cnt["upd_pending_double"] = False
            if sys._getframe(2).f_code.co_name == "local_gp_fitting":
                raise LinAlgError("injected fault in the fallback handler's recomputation")
        return o_upd(self, *a, **k)

    def w_rob(gp, x_train, y_train, s2_train, hyp_gp, gp_train, optim_state, opts):
        s = dict(kind="robust", first_j=cnt["fit"], nX=int(x_train.shape[0]), nY=int(y_train.shape[0]), s2=size_of(s2_train),
                 tmp=size_of(gp.s2), rpat=int(opts["remove_points_after_tries"]))
        sessions.append(s)
        try:
            r = o_rob(gp, x_train, y_train, s2_train, hyp_gp, gp_train, optim_state, opts)
            s["ret"] = int(r[3])
            s["res_bound"] = True
            return r
        except BaseException as ex:
            s["exc"] = type(ex).__name__
            raise
        finally:
            s["n_attempts"] = cnt["fit"] - s["first_j"]

    def w_init(*a, **k):
        s = dict(kind="init", first_j=cnt["fit"])
        sessions.append(s)
        try:
            r = o_init(*a, **k)
            s["ret"] = "ok"
            return r
        except BaseException as ex:
            s["exc"] = type(ex).__name__
            raise
        finally:
            s["n_attempts"] = cnt["fit"] - s["first_j"]

    def w_call(self, x, *a, **k):
        r = o_call(self, x, *a, **k)
        if isinstance(r[0], np.ndarray):
            cnt["merged"] += 1
        return r

    exit_flags = []
    o_lgf = B.local_gp_fitting

    def w_lgf(*a, **k):
        r = o_lgf(*a, **k)
        exit_flags.append(float(r[1]))
        return r

    gpyreg.GP.fit, gpyreg.GP.update, G._robust_gp_fit_, B.init_and_train_gp = w_fit, w_upd, w_rob, w_init
    FunctionLogger.__call__ = w_call
    B.local_gp_fitting = w_lgf
    exc = tb = None
    res = None
    try:
        lb, ub = LB * np.ones(D), UB * np.ones(D)
        b = BADS(fun, np.array([0.9, -0.7, 0.4][:D]), lb, ub, -np.ones(D), 1.5 * np.ones(D), options=options)
        r = b.optimize()
        res = dict(func_count=int(r["func_count"]), fval=float(r["fval"]), x=np.asarray(r["x"], dtype=float).reshape(-1).tolist(),
                   success=bool(r["success"]), message=str(r["message"])[:80])
    except BaseException as ex:     # noqa: BLE001 - every abort is an observation
        exc = type(ex).__name__ + ": " + str(ex)[:200]
        tb = traceback.format_exc()[-1500:]
    finally:
        gpyreg.GP.fit, gpyreg.GP.update, G._robust_gp_fit_, B.init_and_train_gp = o_fit, o_upd, o_rob, o_init
        FunctionLogger.__call__ = o_call
        B.local_gp_fitting = o_lgf

    # ---- basic run monitors
    viol = []
    budget = cfg["budget"]
    if exc is not None:
        unrelated = ("setting an array element with a sequence" in exc and "_is_gp_refit_time_" in (tb or "") and cnt["merged"] > 0)
        viol.append(("unrelated-crash" if unrelated else "abort", exc))
    else:
        if out_of_box:
            viol.append(("box", f"target called outside the hard box at {out_of_box[0]}"))
        if len(calls) > budget:
            viol.append(("budget", f"{len(calls)} target calls > max_fun_evals {budget}"))
        if res["func_count"] != len(calls):
            viol.append(("func_count", f"result.func_count {res['func_count']} != {len(calls)} target calls"))
        if mode == "det":
            vals = [v for _, v in calls]
            if res["fval"] != min(vals):
                viol.append(("truthful", f"result.fval {res['fval']} != min observed {min(vals)}"))
            if not any(np.array_equal(np.array(x), np.array(res["x"])) and v == res["fval"] for x, v in calls):
                viol.append(("truthful", "result.x is not an evaluated point with value result.fval"))
    return dict(cfg=cfg, exc=exc, tb=tb, result=res, n_fit=cnt["fit"], n_upd=cnt["upd"], attempts=attempts, sessions=sessions,
                violations=viol, n_calls=len(calls), merged=cnt["merged"], exit_flags=exit_flags)


def run_pool(cfgs, procs=12):
    import multiprocessing as mp
    if procs <= 1 or len(cfgs) <= 1:
        return [run_faulted(c) for c in cfgs]
    with mp.get_context("fork").Pool(min(procs, len(cfgs))) as pool:
        return pool.map(run_faulted, cfgs, chunksize=1)
