"""C06 panel: random rotated quadratics (eigenvalues in [1,100]), minimiser in [-4,4]^D inside the plausible box,
random start in the plausible box, D 1..5, default options.  Used as a SEARCH for a failing panel."""
from __future__ import annotations

import logging
import os
import numpy as np


def make(i, seed):
    rs = np.random.RandomState(100003 * seed + i)
    D = 1 + i % 5
    lam = np.exp(rs.uniform(0, np.log(100.0), D))
    Qm, _ = np.linalg.qr(rs.randn(D, D))
    A = Qm @ np.diag(lam) @ Qm.T
    xstar = rs.uniform(-4, 4, D)
    plb, pub = np.full(D, -5.0), np.full(D, 5.0)
    lb, ub = np.full(D, -20.0), np.full(D, 20.0)
    if stratum(i) == "wide":        # a generous plausible box: the family fixes the minimiser, not the width of the box
        plb, pub, lb, ub = np.full(D, -50.0), np.full(D, 50.0), np.full(D, -200.0), np.full(D, 200.0)
    elif stratum(i) == "unbounded":   # no hard bounds at all
        lb, ub = np.full(D, -np.inf), np.full(D, np.inf)
    elif stratum(i) == "huge":        # huge finite hard bounds used as "no bound"
        lb, ub = np.full(D, -1.0e15), np.full(D, 1.0e15)
    elif stratum(i) == "lopsided":    # one tight and one very loose hard bound, the minimiser close to the tight one
        lb, ub = np.full(D, -5.0), np.full(D, 995.0)
        xstar = rs.uniform(-4.9, -4.2, D)
    x0 = rs.uniform(plb, pub)
    return D, A, xstar, x0, lb, ub, plb, pub


def stratum(i):
    """standard: f* = 0, plausible box [-5,5]^D;  offset: the same with a minimum VALUE far from zero (either sign);
    wide: plausible box [-50,50]^D;  unbounded: no hard bounds;  huge: hard bounds +-1e15;  lopsided: hard box [-5,995]^D, plausible
    box [-5,5]^D, minimiser within 0.8 of the tight bound."""
    return ("standard", "offset", "standard", "wide", "unbounded", "huge", "lopsided")[(i // 5) % 7]


def offset_of(i, seed):
    if stratum(i) != "offset":
        return 0.0
    return (2.0e3, -1.0e4, 2.0e4)[(i + seed) % 3]


def run_one(args):
    i, seed = args
    os.environ.setdefault("OMP_NUM_THREADS", "1")
    import warnings
    warnings.filterwarnings("ignore")
    from pybads import BADS
    logging.disable(logging.CRITICAL)
    D, A, xstar, x0, lb, ub, plb, pub = make(i, seed)
    vals = []
    c = offset_of(i, seed)

    def f(x):
        d = np.asarray(x).reshape(-1) - xstar
        v = float(0.5 * d @ A @ d)
        vals.append(v)
        return v + c
    try:
        b = BADS(f, x0, lb, ub, plb, pub, options=dict(display="off", random_seed=seed * 1000 + i))
        u0val = None
        r = b.optimize()
        best = np.minimum.accumulate(np.array(vals))
        to_1e2 = int(np.argmax(best <= 1e-2)) + 1 if np.any(best <= 1e-2) else None
        return dict(i=i, D=D, stratum=stratum(i), fval=float(r.fval) - c, start=vals[0], n=len(vals), to_1e2=to_1e2, exc=None)
    except Exception as ex:
        return dict(i=i, D=D, stratum=stratum(i), fval=None, start=vals[0] if vals else None, n=len(vals), to_1e2=None, exc=repr(ex)[:200])
