"""harness/run_repro.py — dynamic tie of C07 (fixed random_seed => reproducible, independent of process history).

For one CONFIGURATION (problem + options + random_seed) a worker process executes a list of HISTORIES
one after the other IN THE SAME PROCESS.  For each history it

    1. runs the history's `pre` operations           (foreign draws / seeds / BADS constructions / optimisations),
    2. constructs the instance under test            (records the starting point: the random x0 when omitted),
    3. runs the history's `mid` operations           (interleaved between construction and optimisation),
    4. runs optimize()                               (records every target call and the result),

so history k also has, as part of its process history, histories 0..k-1 and their runs under test.
History 0 is always the empty one in a fresh interpreter: the reference.  All observables are compared
bit for bit (float.hex / bytes.hex; no tolerance):

    x0 of the instance, the sequence of target arguments (x.tobytes()), the values the target returned,
    result x, fval, fsd, func_count, message (and the exception class + text if the run raised).

A second worker runs the reference (and one more history) with a DIFFERENT PYTHONHASHSEED: two processes
that satisfy the property's premise (same target, problem, options, seed) and differ only in interpreter
state, so str-hash / set-iteration-order dependence shows up as a difference too.

Nothing here forces single-threaded BLAS: the environment is inherited from ./check (which sets
OMP_NUM_THREADS=1 and OPENBLAS_NUM_THREADS=1 unless the caller set them).

The module is used in two ways:  imported by props/C07.py (generators, driver, comparison, shrinker), and
executed as `python harness/run_repro.py --worker` (reads one job as JSON on stdin, writes one JSON line).
"""
from __future__ import annotations

import json
import os
import subprocess
import sys
from concurrent.futures import ThreadPoolExecutor
from pathlib import Path

HERE = Path(__file__).resolve().parent
PY = "/venv/bin/python"

# =========================================================================== worker side


def _fhex(v):
    """bit-exact canonical form of a scalar / array / None."""
    import numpy as np
    if v is None:
        return None
    if isinstance(v, (bool, np.bool_)):
        return bool(v)
    if isinstance(v, (int, np.integer)):
        return int(v)
    if isinstance(v, (float, np.floating)):
        return float(v).hex()
    if isinstance(v, np.ndarray):
        return dict(shape=list(v.shape), dtype=str(v.dtype), hex=[float(t).hex() for t in v.astype(float).ravel()]) \
            if v.dtype.kind in "fiub" else dict(repr=repr(v))
    if isinstance(v, (list, tuple)):
        return [_fhex(t) for t in v]
    if isinstance(v, str):
        return v
    return dict(repr=repr(v))


def make_problem(cfg, calls, probe=None):
    """cfg -> kwargs of BADS(...).  The target appends (x bytes, returned value) to `calls`."""
    import numpy as np
    D = cfg["D"]
    shift = np.array(cfg["shift"], dtype=float)
    kind = cfg["target"]
    sigma = cfg.get("sigma", 0.5)

    def base(x):
        z = np.atleast_2d(x).astype(float) - shift
        if cfg["shape"] == "quad":
            return float(np.sum(z ** 2 * (1.0 + np.arange(D))))
        if cfg["shape"] == "abs":
            return float(np.sum(np.abs(z)) + 0.1 * np.sum(z ** 2))
        # rosen-like (D >= 2), quartic for D == 1
        zz = z.ravel() + 1.0
        if D == 1:
            return float((zz[0] - 1.0) ** 4 + 0.5 * (zz[0] - 1.0) ** 2)
        return float(np.sum(10.0 * (zz[1:] - zz[:-1] ** 2) ** 2 + (1.0 - zz[:-1]) ** 2))

    def fun(x):
        if not calls and probe is not None:
            # model tie: at the first target call of optimize() (nothing has drawn since the re-seed) the
            # global stream must be exactly the freshly seeded one == draw index 0 of (seed, .)
            st, ref = np.random.get_state(), np.random.RandomState(int(cfg["seed"])).get_state()
            probe["opt_starts_at_seeded0"] = bool(st[0] == ref[0] and np.array_equal(st[1], ref[1]) and st[2:] == ref[2:])
        xb = np.ascontiguousarray(np.atleast_2d(x), dtype=float).tobytes().hex()
        y = base(x)
        if kind == "det":
            out = y
        elif kind == "noisy_global":
            out = y + sigma * np.random.randn()              # the target draws from NumPy's GLOBAL generator
        else:                                                # noisy_specified: returns (value, sd); noise from the global generator
            sd = sigma * (1.0 + 0.1 * abs(y) ** 0.5)
            out = (y + sd * np.random.randn(), sd)
        calls.append([xb, _fhex(out)])
        return out

    box = cfg["box"]
    w = float(cfg.get("width", 4.0))
    plb, pub = -0.5 * w * np.ones(D), 0.5 * w * np.ones(D)
    if box == "bounded":
        lb, ub = -w * np.ones(D), w * np.ones(D)
    elif box == "tight":                                     # plausible box == hard box
        lb, ub = plb.copy(), pub.copy()
    elif box == "positive":                                  # strictly positive box (log-transform eligible region)
        lb, ub = 0.01 * np.ones(D), (2 * w) * np.ones(D)
        plb, pub = 0.5 * np.ones(D), w * np.ones(D)
    else:                                                    # "unbounded"
        lb, ub = None, None
    x0 = None
    if cfg["x0"] == "given":
        x0 = np.array(cfg["x0_value"], dtype=float)
    cons = None
    if cfg.get("cons"):
        c = np.array(cfg["cons"]["center"], dtype=float)
        r2 = float(cfg["cons"]["r2"])

        def cons(x):                                         # violation function: True where infeasible
            return np.sum((np.atleast_2d(x) - c) ** 2, axis=1) > r2
    opts = dict(cfg.get("options", {}))
    opts["random_seed"] = cfg["seed"]
    opts["max_fun_evals"] = cfg["budget"]
    opts.setdefault("display", "off")
    if kind == "noisy_global":
        opts["uncertainty_handling"] = True
        opts.setdefault("noise_size", sigma)
    elif kind == "noisy_specified":
        opts["uncertainty_handling"] = True
        opts["specify_target_noise"] = True
    return dict(fun=fun, x0=x0, lower_bounds=lb, upper_bounds=ub, plausible_lower_bounds=plb,
                plausible_upper_bounds=pub, non_box_cons=cons, options=opts)


def foreign_spec_problem(spec):
    """an unrelated BADS problem described by a small dict (other D / options / seed or none)."""
    import numpy as np
    D = spec["D"]
    c = 0.1 * (1 + np.arange(D))
    noisy = spec.get("noisy", False)

    def f(x):
        y = float(np.sum((np.atleast_2d(x) - c) ** 2))
        return y + 0.3 * np.random.randn() if noisy else y
    opts = {"display": spec.get("display", "off"), "max_fun_evals": spec.get("budget", 25)}
    if spec.get("seed") is not None:
        opts["random_seed"] = spec["seed"]
    if noisy:
        opts["uncertainty_handling"] = True
    opts.update(spec.get("options", {}))
    x0 = None if spec.get("x0_omitted") else 0.5 * np.ones(D)
    return dict(fun=f, x0=x0, lower_bounds=-3.0 * np.ones(D), upper_bounds=3.0 * np.ones(D),
                plausible_lower_bounds=-2.0 * np.ones(D), plausible_upper_bounds=2.0 * np.ones(D), options=opts)


class _Proc:
    """state shared by the operations of one worker process."""

    def __init__(self, cfg):
        self.cfg = cfg
        self.kept = {}

    def run_op(self, op):
        import random as pyrandom

        import numpy as np
        from pybads import BADS
        k = op["op"]
        if k == "draw":
            np.random.rand(int(op["k"]))
        elif k == "draw_normal":
            np.random.standard_normal(int(op["k"]))
        elif k == "seed":
            np.random.seed(int(op["s"]))
        elif k == "np_state":                                 # process-global NumPy settings other than the generator
            pr = dict(op["print"])
            fk = pr.pop("formatter_kind", None)
            if fk:
                pr["formatter"] = {fk: (lambda v: "<%s>" % (v,))}
            np.set_printoptions(**pr)
            np.seterr(**op.get("err", {}))
        elif k == "pyrandom":
            pyrandom.seed(op.get("s"))
            [pyrandom.random() for _ in range(int(op["k"]))]
        elif k == "construct":
            b = BADS(**foreign_spec_problem(op["spec"]))
            if op.get("keep"):
                self.kept[op["keep"]] = b
        elif k == "optimize":
            try:
                BADS(**foreign_spec_problem(op["spec"])).optimize()
            except Exception:
                pass                                          # a crashing foreign run is still process history
        elif k == "optimize_kept":
            b = self.kept.pop(op["keep"], None)
            if b is not None:
                try:
                    b.optimize()
                except Exception:
                    pass
        elif k == "same":                                     # the configuration under test itself, run to completion
            self.run_under_test([], record=False)
        elif k == "same_construct":                           # ... or only constructed (and dropped)
            BADS(**self._reuse_arrays(make_problem(self.cfg, [])))
        else:
            raise ValueError("unknown history op %r" % (op,))

    def _reuse_arrays(self, kw):
        """The caller keeps ITS OWN x0 / bound arrays and hands the same objects to every construction of the configuration in this
        process (what a user re-running a problem does): an earlier instance that wrote into them is process history."""
        keep = self.kept.setdefault("__arrays__", {})
        for k in ("x0", "lower_bounds", "upper_bounds", "plausible_lower_bounds", "plausible_upper_bounds"):
            if kw.get(k) is not None:
                kw[k] = keep.setdefault(k, kw[k])
        return kw

    def run_under_test(self, mid, record=True):
        from pybads import BADS
        import numpy as np
        calls, probe = [], {}
        obs = dict(x0=None, calls=calls, result=None, error=None, model_tie=probe)
        try:
            kw = self._reuse_arrays(make_problem(self.cfg, calls, probe))
            # model tie: at the moment the constructor draws the random x0 the global stream must be the
            # freshly seeded one (== the draw is draw 0 of (seed, .)).  A forwarding wrapper around
            # np.random.uniform looks at the state and passes the call through unchanged.
            orig_uniform = np.random.uniform
            ref_state = np.random.RandomState(int(self.cfg["seed"])).get_state()

            def uniform_probe(*a, **k):
                if "x0_is_seeded_draw0" not in probe:
                    st = np.random.get_state()
                    probe["x0_is_seeded_draw0"] = bool(st[0] == ref_state[0] and np.array_equal(st[1], ref_state[1]) and st[2:] == ref_state[2:])
                return orig_uniform(*a, **k)
            np.random.uniform = uniform_probe
            try:
                b = BADS(**kw)
            finally:
                np.random.uniform = orig_uniform
            obs["x0"] = _fhex(b.x0)
            if kw["x0"] is not None:
                probe.pop("x0_is_seeded_draw0", None)
            n_ctor_calls = len(calls)
            for op in mid:
                self.run_op(op)
            r = b.optimize()
            obs["result"] = dict(x=_fhex(r["x"]), fval=_fhex(r["fval"]), fsd=_fhex(r["fsd"]),
                                 func_count=_fhex(r["func_count"]), message=str(r["message"]))
            obs["ctor_calls"] = n_ctor_calls
        except Exception as ex:                               # an exception is an observable too
            obs["error"] = [type(ex).__name__, str(ex)[:300]]
        return obs if record else None


def worker_main():
    job = json.loads(sys.stdin.read())
    out_fd = os.dup(1)
    devnull = open(os.devnull, "w")
    os.dup2(devnull.fileno(), 1)                              # BADS logs to stdout; keep the channel clean
    sys.stdout = devnull
    import warnings
    warnings.simplefilter("ignore")
    sys.path.insert(0, os.environ.get("VERIF_REPO", "/repo"))
    import numpy as np  # noqa: F401
    proc = _Proc(job["cfg"])
    results = []
    for h in job["histories"]:
        for op in h.get("pre", []):
            proc.run_op(op)
        results.append(proc.run_under_test(h.get("mid", [])))
    cover = None
    if job.get("coverage"):
        cover = _coverage_run(proc)
    with os.fdopen(out_fd, "w") as f:
        f.write(json.dumps(dict(results=results, coverage=cover, hashseed=os.environ.get("PYTHONHASHSEED"),
                                threads=dict(OMP=os.environ.get("OMP_NUM_THREADS"), OPENBLAS=os.environ.get("OPENBLAS_NUM_THREADS")))) + "\n")


def _coverage_run(proc):
    """one more run of the configuration with counting wrappers around the legacy np.random functions:
    which draw sites (file:function) were exercised.  The wrappers forward call for call, so the run
    must again be bit-identical (returned as an extra history 'same configuration again')."""
    import numpy as np
    names = ["rand", "randn", "randint", "random", "random_sample", "normal", "uniform", "standard_normal", "choice",
             "permutation", "shuffle", "lognormal"]
    counts, orig = {}, {}

    def wrap(nm, f):
        def g(*a, **k):
            fr = sys._getframe(1)
            while fr.f_back is not None and fr.f_code.co_filename == __file__ and fr.f_code.co_name == "uniform_probe":
                fr = fr.f_back
            fn = fr.f_code.co_filename
            for tag in ("pybads", "gpyreg", "scipy"):
                i = fn.rfind("/" + tag + "/")
                if i >= 0:
                    fn = fn[i + 1:]
                    break
            else:
                fn = "<target/harness>"
            key = fn + ":" + fr.f_code.co_name + ":" + nm
            counts[key] = counts.get(key, 0) + 1
            return f(*a, **k)
        return g
    for nm in names:
        orig[nm] = getattr(np.random, nm)
        setattr(np.random, nm, wrap(nm, orig[nm]))
    try:
        obs = proc.run_under_test([])
    finally:
        for nm in names:
            setattr(np.random, nm, orig[nm])
    return dict(obs=obs, counts=counts)


# =========================================================================== driver side


def run_job(job, hashseed=None, timeout=900):
    env = dict(os.environ)
    if hashseed is not None:
        env["PYTHONHASHSEED"] = str(hashseed)
    try:
        p = subprocess.run([PY, str(Path(__file__).resolve()), "--worker"], input=json.dumps(job), env=env,
                           stdout=subprocess.PIPE, stderr=subprocess.PIPE, text=True, timeout=timeout)
    except subprocess.TimeoutExpired:
        return dict(failed="timeout after %ss" % timeout)
    line = p.stdout.strip().splitlines()[-1] if p.stdout.strip() else ""
    try:
        return json.loads(line)
    except Exception:
        return dict(failed="worker died rc=%s: %s" % (p.returncode, p.stderr[-1500:]))


def run_jobs(jobs, workers=12):
    """jobs: list of (job, hashseed).  Returns results in order."""
    with ThreadPoolExecutor(max_workers=workers) as ex:
        return list(ex.map(lambda jh: run_job(jh[0], jh[1]), jobs))


def first_difference(a, b):
    """None if the two observations are identical; otherwise a short description of the first difference."""
    a, b = dict(a, model_tie=None), dict(b, model_tie=None)
    if a == b:
        return None
    if a["error"] != b["error"]:
        return "outcome differs: %s vs %s" % (a["error"] or "returned", b["error"] or "returned")
    if a["x0"] != b["x0"]:
        return "starting point differs: x0 = %s vs %s" % (_unhex(a["x0"]), _unhex(b["x0"]))
    ca, cb = a["calls"], b["calls"]
    for i, (u, v) in enumerate(zip(ca, cb)):
        if u[0] != v[0]:
            return "target call #%d evaluated at a different point: %s vs %s" % (i, _xbytes(u[0]), _xbytes(v[0]))
        if u[1] != v[1]:
            return "target call #%d (same x) returned a different value: %s vs %s" % (i, _unhex(u[1]), _unhex(v[1]))
    if len(ca) != len(cb):
        return "number of target calls differs: %d vs %d" % (len(ca), len(cb))
    ra, rb = a["result"] or {}, b["result"] or {}
    for k in ("x", "fval", "fsd", "func_count", "message"):
        if ra.get(k) != rb.get(k):
            return "result.%s differs: %s vs %s" % (k, _unhex(ra.get(k)), _unhex(rb.get(k)))
    return "observations differ"


def _unhex(v):
    if isinstance(v, str):
        try:
            return float.fromhex(v)
        except ValueError:
            return v
    if isinstance(v, dict) and "hex" in v:
        return [float.fromhex(t) for t in v["hex"]]
    if isinstance(v, list):
        return [_unhex(t) for t in v]
    return v


def _xbytes(h):
    import struct
    b = bytes.fromhex(h)
    return list(struct.unpack("<%dd" % (len(b) // 8), b))


# --------------------------------------------------------------------------- generators (all from ctx.rng)


def gen_config(rng, i, budget_scale=1):
    """the panel: cycles deterministically through the design factors, random in the rest."""
    target = ["det", "noisy_global", "noisy_specified", "det", "noisy_global"][i % 5]
    x0 = ["omitted", "given"][(i // 2) % 2] if i % 7 else "omitted"
    D = 1 + (i % 3)
    if i % 6 == 4:
        D = 8 + (i % 2) + ((i // 6) % 2)      # high dimension: anything derived from the TEXT of the start point (its hash, its length) changes regime
    shape = rng.choice(["quad", "abs", "rosen"])
    box = ["bounded", "unbounded", "tight", "positive"][(i // 3) % 4] if i % 4 else "bounded"
    width = rng.choice([2.0, 4.0, 6.0])
    with_cons = (i % 5 == 3) or (i % 11 == 7)
    cfg = dict(D=D, target=target, shape=shape, box=box, width=width, x0=x0,
               seed=(0 if i % 6 == 5 else rng.randrange(0, 2 ** 31 - 1)),          # random_seed = 0 is a seed like any other
               sigma=rng.choice([0.1, 0.5, 1.0]))
    if box == "positive":
        cfg["shift"] = [round(rng.uniform(0.8, width * 0.8), 3) for _ in range(D)]
    else:
        cfg["shift"] = [round(rng.uniform(-0.4, 0.4) * width, 3) for _ in range(D)]
    if x0 == "given":
        if box == "positive":
            cfg["x0_value"] = [round(rng.uniform(0.6, width * 0.9), 3) for _ in range(D)]
        else:
            cfg["x0_value"] = [round(rng.uniform(-0.45, 0.45) * width, 3) for _ in range(D)]
    if with_cons:
        # a ball: around the plausible box when x0 is random (always feasible), cutting it when x0 is given
        if x0 == "omitted":
            centre = [width * 0.5 + 0.25 if box == "positive" else 0.0] * D
            cfg["cons"] = dict(center=centre, r2=float(D * (width) ** 2 + 1.0))
        else:
            cfg["cons"] = dict(center=list(cfg["x0_value"]), r2=float((0.35 * width) ** 2 * D))
    if target == "det":
        cfg["budget"] = rng.choice([30, 40, 50, 60])
    else:
        cfg["budget"] = rng.choice([50, 60, 60])      # noisy runs keep evaluations for the final estimate
    cfg["budget"] *= budget_scale
    if i % 6 == 2:
        # a LONG run (the hedge over search strategies only matters after many search steps): history-dependent option defaults
        # such as hedge_beta = 1e-3 / tol_fun show up late
        cfg["budget"] = max(cfg["budget"], 120)
        cfg["long"] = True
    opts = {}
    if target != "det" and rng.random() < 0.5:
        opts["noise_final_samples"] = rng.choice([3, 5, 10])
    if rng.random() < 0.3:
        opts["fun_eval_start"] = rng.choice([D, 2 * D, 8])
    if rng.random() < 0.2:
        opts["search_n_try"] = rng.choice([1, 2])
    cfg["options"] = opts
    return cfg


def gen_foreign_spec(rng, avoid_D=None):
    D = rng.choice([d for d in (1, 2, 3, 4, 5) if d != avoid_D] if rng.random() < 0.6 else ([avoid_D] if avoid_D else [1, 2, 3, 4, 5]))
    spec = dict(D=D, seed=(rng.randrange(0, 10 ** 6) if rng.random() < 0.5 else None),
                x0_omitted=rng.random() < 0.5, noisy=rng.random() < 0.3, budget=rng.choice([15, 25, 40]))
    if spec["noisy"]:
        spec["budget"] = max(spec["budget"], 40 + 10 * D)
    if rng.random() < 0.15:
        spec["display"] = rng.choice(["iter", "full"])
    if rng.random() < 0.3:
        spec["options"] = {"fun_eval_start": rng.choice([1, 4, 16])}
    if rng.random() < 0.35:                                  # user options that dependent defaults are derived from
        spec.setdefault("options", {})["tol_fun"] = rng.choice([0.5, 1e-6, 0.05])
    return spec


def gen_np_state(rng):
    pr = dict(linewidth=rng.choice([1, 1, 8, 200, 75]), threshold=rng.choice([3, 1000]), precision=rng.choice([2, 8]),
              edgeitems=rng.choice([1, 3]), sign=rng.choice(["-", "+", " "]))
    if rng.random() < 0.3:
        pr["formatter_kind"] = rng.choice(["int_kind", "all"])       # realised as a formatter function in the worker
    return dict(op="np_state", print=pr, err=dict(all=rng.choice(["ignore", "warn"])))


HISTORY_KINDS = ["none", "draws", "seed", "foreign_opt", "interleaved_construct", "same_twice", "mixed", "interleaved_opt",
                 "interleaved_draws", "np_state", "same_D_other_options"]


def gen_history(rng, kind, cfg):
    D = cfg["D"]
    pre, mid = [], []
    if kind == "none":
        pass
    elif kind == "draws":
        pre = [dict(op="draw", k=rng.randrange(1, 2000))]
        if rng.random() < 0.5:
            pre.append(dict(op="draw_normal", k=rng.randrange(1, 50)))
        if rng.random() < 0.5:
            pre.append(gen_np_state(rng))
    elif kind == "same_D_other_options":
        # an earlier instance of the SAME dimension with different user options that dependent defaults are derived from
        # (what a process-wide cache of evaluated defaults keyed by D would remember)
        sp = gen_foreign_spec(rng, None)
        sp["D"] = D
        sp.setdefault("options", {})["tol_fun"] = rng.choice([0.5, 1e-6])
        pre = [dict(op="construct", spec=sp)]
        if rng.random() < 0.5:
            pre.append(dict(op="optimize", spec=dict(sp, budget=25)))
    elif kind == "np_state":
        pre = [gen_np_state(rng)]
        if rng.random() < 0.5:
            mid = [gen_np_state(rng)]
    elif kind == "seed":
        pre = [dict(op="seed", s=rng.randrange(0, 2 ** 31 - 1)), dict(op="draw", k=rng.randrange(0, 20))]
    elif kind == "foreign_opt":
        pre = [dict(op="optimize", spec=gen_foreign_spec(rng, D)) for _ in range(rng.randrange(1, 4))]
    elif kind == "interleaved_construct":
        mid = [dict(op="construct", spec=gen_foreign_spec(rng, D)) for _ in range(rng.randrange(1, 4))]
        if rng.random() < 0.5:
            mid.append(dict(op="same_construct"))
    elif kind == "interleaved_draws":
        mid = [dict(op="draw", k=rng.randrange(1, 500))]
        if rng.random() < 0.5:
            mid.append(dict(op="seed", s=rng.randrange(0, 10 ** 6)))
    elif kind == "same_twice":
        pre = [dict(op="same")]
    elif kind == "foreign_first":
        # the first BADS objects this interpreter ever sees are foreign ones of ANOTHER dimension
        sp = gen_foreign_spec(rng, D)
        sp["D"] = D + 1 + rng.randrange(0, 3)
        pre = [dict(op="construct", spec=sp), dict(op="optimize", spec=gen_foreign_spec(rng, D))]
        mid = [dict(op="construct", spec=gen_foreign_spec(rng, D))]
    elif kind == "interleaved_opt":
        # A.construct, B.construct, A.optimize ... and the other way round
        pre = [dict(op="construct", spec=gen_foreign_spec(rng, D), keep="b0")]
        mid = [dict(op="optimize_kept", keep="b0"), dict(op="construct", spec=gen_foreign_spec(rng, D))]
    else:  # mixed
        pre = [dict(op="pyrandom", s=rng.randrange(0, 100), k=rng.randrange(1, 50)),
               dict(op="optimize", spec=gen_foreign_spec(rng, D)), dict(op="draw", k=rng.randrange(1, 300))]
        mid = [dict(op="construct", spec=gen_foreign_spec(rng, D)), dict(op="draw", k=rng.randrange(1, 100)),
               dict(op="optimize", spec=gen_foreign_spec(rng, None))]
    return dict(kind=kind, pre=pre, mid=mid)


def gen_histories(rng, cfg, n, i):
    """history 0 is always 'none' (the reference); the others rotate through the kinds so that a small
    panel still contains each kind, interleaved kinds first."""
    order = ["interleaved_draws", "foreign_opt", "np_state", "same_D_other_options", "interleaved_construct", "mixed", "same_twice", "draws", "seed", "interleaved_opt"]
    out = [gen_history(rng, "none", cfg)]
    if cfg.get("long"):
        out.append(gen_history(rng, "same_D_other_options", cfg))
        n -= 1
    for j in range(n - 1):
        out.append(gen_history(rng, order[(i * (n - 1) + j) % len(order)], cfg))
    return out


# --------------------------------------------------------------------------- panel

NONE = dict(kind="none", pre=[], mid=[])


def model_tie_failure(obs):
    mt = (obs or {}).get("model_tie") or {}
    if mt.get("x0_is_seeded_draw0") is False:
        return "the random x0 is not draw 0 of the stream seeded with random_seed"
    if mt.get("opt_starts_at_seeded0") is False:
        return "the global stream at the first target call of optimize() is not the freshly seeded one"
    return None


def run_panel(rng, n_cfg, n_hist, other_hashseed="4242", coverage_every=4, budget_scale=None):
    """One record per configuration.  Two worker processes per configuration:
         A (hash seed of the environment): histories [none, h1, ..., h_{n-1}] cumulatively, + a counting re-run;
         B (another PYTHONHASHSEED):       [foreign_first, none]  — a fresh interpreter whose FIRST BADS objects are
                                           foreign ones of another D (what a process-wide cache would remember).
       Every run is compared with A's first run (empty history, fresh interpreter)."""
    cfgs = [gen_config(rng, i, budget_scale(i) if budget_scale else 1) for i in range(n_cfg)]
    jobs = []
    for i, cfg in enumerate(cfgs):
        hs = gen_histories(rng, cfg, n_hist, i)
        jobs.append((dict(cfg=cfg, histories=hs, coverage=(i % coverage_every == 0)), None))
        jobs.append((dict(cfg=cfg, histories=[gen_history(rng, "foreign_first", cfg), NONE], coverage=False), other_hashseed))
    res = run_jobs(jobs)
    records = []
    for i, cfg in enumerate(cfgs):
        a, b = res[2 * i], res[2 * i + 1]
        ja, jb = jobs[2 * i][0], jobs[2 * i + 1][0]
        rec = dict(cfg=cfg, histories=ja["histories"] + jb["histories"], diffs=[], failed=None, n_runs=0, coverage=None, ref=None)
        if "failed" in a or "failed" in b:
            rec["failed"] = a.get("failed") or b.get("failed")
            records.append(rec)
            continue
        ref = a["results"][0]
        rec["ref"] = ref
        rec["n_runs"] = len(a["results"]) + len(b["results"]) + (1 if a.get("coverage") else 0)
        mt = dict(x0_checked=0, x0_ok=0, opt_checked=0, opt_ok=0)
        runs = [(None, ja["histories"][:k + 1], o) for k, o in enumerate(a["results"])] + \
               [(other_hashseed, jb["histories"][:k + 1], o) for k, o in enumerate(b["results"])]
        if a.get("coverage"):
            rec["coverage"] = a["coverage"]["counts"]
            runs.append((None, ja["histories"] + [dict(kind="same_again_counting", pre=[], mid=[])], a["coverage"]["obs"]))
        for hashseed, hist, o in runs:
            for fld, tag in (("x0_is_seeded_draw0", "x0"), ("opt_starts_at_seeded0", "opt")):
                v = (o.get("model_tie") or {}).get(fld)
                if v is not None:
                    mt[tag + "_checked"] += 1
                    mt[tag + "_ok"] += int(v)
            m = model_tie_failure(o)
            if m:
                rec["diffs"].append(dict(kind="model", what=m, histories=hist, hashseed=hashseed))
            if o is not ref:
                d = first_difference(ref, o)
                if d:
                    rec["diffs"].append(dict(kind="history", what=d, histories=hist, hashseed=hashseed))
        rec["model_tie"] = mt
        records.append(rec)
    return records


def compare_processes(cfg, proc_a, proc_b, model=False):
    """run two fresh interpreters (each: its hash seed + a list of histories, each history followed by the
    run under test) and compare the LAST run of each.  Returns (difference | None, error | None).
    With model=True the question is instead whether the last run of proc_b violates one of the model's
    identities (x0 is draw 0 of the seeded stream / optimize() starts on the freshly seeded stream)."""
    ra, rb = run_jobs([(dict(cfg=cfg, histories=proc_a["histories"]), proc_a.get("hashseed")),
                       (dict(cfg=cfg, histories=proc_b["histories"]), proc_b.get("hashseed"))], workers=2)
    if "failed" in ra or "failed" in rb:
        return None, ra.get("failed") or rb.get("failed")
    if model:
        return model_tie_failure(rb["results"][-1]), None
    return first_difference(ra["results"][-1], rb["results"][-1]), None


def confirm_and_shrink(cfg, diff):
    """Re-run a difference seen in the panel as a comparison of two FRESH interpreters, as small as possible.
    Tried in this order (first that differs wins):
       0. [none] vs [none], identical environment            -> the run is not even deterministic
       1. [none] vs [none] under the other PYTHONHASHSEED    -> hash-seed dependence (only if the diff came from worker B)
       2. [none] vs [last history]                           -> then operations of the history are dropped one by one
       3. [none] vs [none, last history]                     -> needs the earlier run in the same interpreter
       4. [none] vs the whole list as executed in the panel
    For a failed model identity (kind "model") the same candidates are tried for the single process proc_b.
    Returns a replay dict or None if nothing reproduces."""
    hs, hseed = diff["histories"], diff.get("hashseed")
    last = hs[-1]
    model = diff["kind"] == "model"
    A = dict(hashseed=None, histories=[NONE])

    def mk(kind, pb, what):
        return dict(kind=kind, cfg=cfg, proc_a=A, proc_b=pb, what=what,
                    compare=("the last run of proc_b against the model's identities" if model else
                             "the last run of each of two fresh interpreters; each history is followed by the run under test"))
    cands = [("model" if model else "nondeterministic", dict(hashseed=None, histories=[NONE]))]
    if not model:
        cands.append(cands[0])       # asked twice: a rarely visible nondeterminism should not be blamed on the history
    if hseed is not None:
        cands.append(("model" if model else "hashseed", dict(hashseed=hseed, histories=[NONE])))
    cands.append(("model" if model else "history", dict(hashseed=None, histories=[last])))
    cands.append(("model" if model else "history", dict(hashseed=None, histories=[NONE, last])))
    cands.append(("model" if model else "history", dict(hashseed=hseed, histories=hs)))
    for n, (kind, pb) in enumerate(cands):
        d, err = compare_processes(cfg, A, pb, model)
        if d:
            if n >= 1 and len(pb["histories"]) <= 2 and pb["histories"][-1] is not NONE:
                small = shrink_history(cfg, A, pb, model)
                d2, _ = compare_processes(cfg, A, small, model)
                if d2:
                    return mk(kind, small, d2)
            return mk(kind, pb, d)
    return None


def shrink_history(cfg, A, pb, model=False):
    hs = [dict(h) for h in pb["histories"]]
    cur = dict(hs[-1])
    for part in ("pre", "mid"):
        i = 0
        while i < len(cur[part]):
            trial = dict(cur)
            trial[part] = cur[part][:i] + cur[part][i + 1:]
            d, _ = compare_processes(cfg, A, dict(pb, histories=hs[:-1] + [trial]), model)
            if d:
                cur = trial
            else:
                i += 1
    return dict(pb, histories=hs[:-1] + [cur])


def replay(rp):
    """re-run a replay dict; returns the difference found now (None = bit-identical now)."""
    d, err = compare_processes(rp["cfg"], rp["proc_a"], rp["proc_b"], rp.get("kind") == "model")
    return ("worker failed: " + err) if err else d


if __name__ == "__main__":
    if "--worker" in sys.argv:
        worker_main()
    else:
        import random
        rng = random.Random(int(sys.argv[1]) if len(sys.argv) > 1 else 0)
        sys.path.insert(0, str(HERE.parent))
        recs = run_panel(rng, int(sys.argv[2]) if len(sys.argv) > 2 else 4, 3)
        for r in recs:
            print(json.dumps(dict(cfg=r["cfg"], failed=r["failed"], diffs=[d["what"] for d in r["diffs"]], runs=r["n_runs"],
                                  ref_calls=len(r["ref"]["calls"]) if r["ref"] else None,
                                  ref_err=r["ref"]["error"] if r["ref"] else None, cov=r["coverage"]))[:900])
