"""RunTrace recorder (DESIGN 2b, run level).

Runs the REAL BADS(...).optimize() and records, from OUTSIDE by wrapping attributes (plus the one
guarded in-source probe at the end of each main-loop iteration), every event at the seams the
skeleton model talks about.  Nothing here decides a property.

A trace is a plain dict (JSON-able; floats kept as Python floats, converted exactly to Q only when
emitted to Coq).
"""
from __future__ import annotations

import copy
import logging
import math
import os
import traceback

import numpy as np


class TargetFault(Exception):
    """raised by the instrumented target when a fault is injected.  The constructor takes TWO arguments on purpose:
    code that re-builds the exception (type(err)(message)) instead of re-raising it no longer preserves the type."""

    def __init__(self, code, detail):
        super().__init__(code, detail)
        self.code, self.detail = code, detail


def _l(a):
    if a is None:
        return None
    return np.asarray(a, dtype=float).reshape(-1).tolist()


def _f(v):
    if v is None:
        return None
    try:
        return float(np.asarray(v).reshape(-1)[0])
    except Exception:
        return None


MSGS = {
    "": 0,
    "Optimization terminated: reached maximum number of function evaluations options['max_fun_evals'].": 1,
    "Optimization terminated: reached maximum number of iterations options['max_iter'].": 2,
    "Optimization terminated: change in the function value less than options['tol_mesh']": 3,
    "Optimization terminated: change in the function value less than options['tol_fun'].": 4,
}


def make_problem(spec):
    """spec -> (fun, x0, lb, ub, plb, pub, cons, options, meta).  spec keys:
    D, target ('sphere','ellipsoid','plateau','abs','rosen','outside'), shift, box ('sym','log','unb','mixed','tight'),
    noise ('det','auto','declared','specified'), sigma, cons (None|'ball'|'half'|'band'), x0 ('given','absent','onbound'),
    options (dict), seed."""
    D = spec["D"]
    rs = np.random.RandomState(spec.get("seed", 0) + 7919)
    box = spec.get("box", "sym")
    if box == "sym":
        lb, ub, plb, pub = [-5.0] * D, [5.0] * D, [-2.0] * D, [2.0] * D
    elif box == "tight":
        lb, ub, plb, pub = [-3.0] * D, [3.0] * D, [-3.0] * D, [3.0] * D
    elif box == "log":
        lb, ub, plb, pub = [0.01] * D, [100.0] * D, [0.1] * D, [10.0] * D
        if D > 1:  # mixed log / linear
            lb[-1], ub[-1], plb[-1], pub[-1] = -5.0, 5.0, -2.0, 2.0
    elif box == "logbig":      # log-transformed with every bound > 1 (log(bound) is a different positive number), optimum below the box for 'outside'
        lb, ub, plb, pub = [2.0] * D, [5000.0] * D, [5.0] * D, [500.0] * D
    elif box == "dec":         # decimal (not binary-exact) bounds that fall ON the internal mesh: round-trip rounding shows at the bound
        lb, ub, plb, pub = [0.1] * D, [0.7] * D, [0.3] * D, [0.5] * D
    elif box == "declog":
        lb, ub, plb, pub = [0.01] * D, [10.0] * D, [0.1] * D, [1.0] * D
    elif box == "wide":        # hard box much wider than the plausible box, minimum away from the centre: the mesh is refined far from the origin
        lb, ub, plb, pub = [-20.0] * D, [20.0] * D, [-8.0] * D, [8.0] * D
    elif box == "mixlog":      # an unbounded coordinate next to a log-scaled one (and a plain bounded one from D = 3)
        lb, ub, plb, pub = [-5.0] * D, [5.0] * D, [-2.0] * D, [2.0] * D
        lb[0], ub[0] = -np.inf, np.inf
        lb[-1], ub[-1], plb[-1], pub[-1] = 0.01, 100.0, 0.1, 10.0
    elif box == "unb":
        lb, ub, plb, pub = [-np.inf] * D, [np.inf] * D, [-2.0] * D, [2.0] * D
    elif box == "mixed":
        lb, ub, plb, pub = [-5.0] * D, [5.0] * D, [-2.0] * D, [2.0] * D
        lb[0], ub[0] = -np.inf, np.inf
    else:
        raise ValueError(box)
    shift = np.asarray(spec.get("shift", [0.3] * D), dtype=float)
    tname = spec.get("target", "sphere")
    if box == "log":
        center = np.where(np.asarray(lb) > 0, 1.7, 0.0) + 0.0 * shift
        if spec.get("target") == "outside":
            center = np.where(np.asarray(lb) > 0, 1000.0, 9.0)
    elif box == "mixlog":
        center = np.asarray([0.3] * (D - 1) + [1.7]) if tname != "outside" else np.asarray([9.0] * (D - 1) + [1000.0])
    elif box == "logbig":
        center = np.full(D, 40.0) if tname != "outside" else np.full(D, 0.5)
    elif box == "dec":
        center = np.full(D, 0.42) if tname != "outside" else np.asarray([9.0] + [-9.0] * (D - 1))
    elif box == "declog":
        center = np.full(D, 0.42) if tname != "outside" else np.asarray([90.0] + [1e-4] * (D - 1))
    else:
        center = shift if tname != "outside" else np.asarray([9.0] * D)

    def base(x):
        x = np.asarray(x, dtype=float).reshape(-1)
        d = x - center
        if tname in ("sphere", "outside"):
            return float(np.sum(d ** 2))
        if tname == "ellipsoid":
            w = np.array([10.0 ** (i / max(D - 1, 1)) for i in range(D)])
            return float(np.sum(w * d ** 2))
        if tname == "abs":
            return float(np.sum(np.abs(d)))
        if tname == "plateau":
            return float(np.sum(np.floor(np.abs(d) * 2.0)))
        if tname == "deadzone":    # zero on a region that covers the plausible box: every value of the initial design is the same
            return float(np.sum(np.maximum(0.0, np.abs(d) - 2.5) ** 2))
        if tname == "const":
            return 1.0
        if tname == "rosen":
            return float(np.sum(100.0 * (x[1:] - x[:-1] ** 2) ** 2 + (1 - x[:-1]) ** 2)) if D > 1 else float(d[0] ** 2)
        raise ValueError(tname)

    noise = spec.get("noise", "det")
    sigma = spec.get("sigma", 0.5)

    offset = float(spec.get("offset", 0.0))     # large baseline: noise that is small RELATIVE to the value is still noise

    scale = float(spec.get("scale", 1.0))

    mutate = bool(spec.get("mutate_arg"))

    def fun(x):
        y = scale * base(x) + offset
        if mutate and isinstance(x, np.ndarray) and x.flags.writeable:
            x *= 10.0            # a target that works IN PLACE on its argument: what BADS reports must still be the point it was called at
            x -= 0.5
        if noise in ("auto", "declared"):
            return y + sigma * np.random.randn()
        if noise == "specified":
            s = sigma * (1.0 + 0.5 * abs(math.sin(float(np.sum(x)))))
            if spec.get("sdjitter"):      # the reported SD is itself an estimate: it varies between calls at the same x
                s *= 1.0 + 0.3 * np.random.rand()
            return y + s * np.random.randn(), s
        return y

    cname = spec.get("cons")
    cons = None
    if cname == "ball":
        r2 = 9.0 if box != "log" else 1e9
        cons = lambda X: (np.sum(np.atleast_2d(X) ** 2, axis=1) > r2 * D).astype(float)  # noqa: E731
    elif cname == "half":
        cons = lambda X: np.atleast_2d(X)[:, 0] - 1.0 - (0.0 if D == 1 else 0.5 * np.atleast_2d(X)[:, -1])  # noqa: E731
    elif cname == "band":
        cons = lambda X: np.abs(np.atleast_2d(X)[:, 0] - (0.2 if box != "log" else 1.2)) - 0.6  # noqa: E731
    elif cname == "tinyball":  # violations reported as TINY positive numbers (value > 0 is a violation, however small)
        cons = lambda X: (np.sum(np.atleast_2d(X) ** 2, axis=1) - 2.0 * D) * 1e-9  # noqa: E731
    elif cname == "tinyhalf":
        cons = lambda X: (np.atleast_2d(X)[:, 0] - 1.0) * 1e-10  # noqa: E731
    elif cname == "diag":      # a thin band along the diagonal: from a point on it every axis-parallel poll step longer than the band leaves it
        cons = lambda X: (np.abs(np.atleast_2d(X)[:, 0] - np.atleast_2d(X)[:, -1]) > 0.05).astype(float)  # noqa: E731
    elif cname == "stripes":   # the box minus thin stripes: a lot of boundary, feasibility changes within a fraction of a mesh step
        cons = lambda X: (np.mod(np.atleast_2d(X)[:, 0] * 4.0, 1.0) < 0.1).astype(float)  # noqa: E731  (every other node of a 1/8 grid is infeasible)
    elif cname == "lattice":   # feasible only on a coarse lattice: ES populations collapse to few or zero survivors
        cons = lambda X: np.any(np.abs(np.atleast_2d(X) / 0.25 - np.round(np.atleast_2d(X) / 0.25)) > 1e-9, axis=1).astype(float)  # noqa: E731
    xk = spec.get("x0", "given")
    if spec.get("x0_value") is not None:
        x0 = np.asarray(spec["x0_value"], dtype=float)
    elif xk == "absent":
        x0 = None
    elif xk == "atopt":       # started AT the optimum: no improvement from the first iteration on (stall windows)
        x0 = np.clip(np.asarray(center, dtype=float), np.asarray(lb) + 1e-3, np.asarray(ub) - 1e-3) if np.all(np.isfinite(lb)) else np.asarray(center, dtype=float)
    elif xk == "onbound":
        x0 = np.asarray(lb, dtype=float).copy()
        x0[~np.isfinite(x0)] = -1.0
        if cname:
            x0 = None
    else:
        x0 = np.asarray(plb) + (np.asarray(pub) - np.asarray(plb)) * (0.25 + 0.5 * rs.rand(D))
        if cname in ("half", "band"):
            x0[0] = 0.25 if box != "log" else 1.25
        if cname == "lattice":
            x0 = np.asarray([0.5] * D)
    if spec.get("x0_int") and x0 is not None:     # an integer-TYPED start (np.array([1, -2])): what callers write for round numbers
        x0 = np.round(x0).astype(np.int64)
    options = dict(display="off", random_seed=spec.get("seed", 0))
    if noise == "declared":
        options["uncertainty_handling"] = True
    if noise == "specified":
        options["uncertainty_handling"] = True
        options["specify_target_noise"] = True
    options.update(spec.get("options", {}))
    if spec.get("output_fcn") == "passive":      # a callback that only observes: it never asks for a stop
        options["output_fcn"] = lambda x, state: False
    args = dict(x0=x0, lower_bounds=np.asarray(lb), upper_bounds=np.asarray(ub),
                plausible_lower_bounds=np.asarray(plb), plausible_upper_bounds=np.asarray(pub))
    return fun, args, cons, options


class Recorder:
    def __init__(self, spec, fault=None, max_loop_iters=20000):
        """fault: None or dict(at=k (1-based index of the target call), kind=...)"""
        self.spec, self.fault = spec, fault
        self.ev = []
        self.calls = []          # every target call: dict(i, phase, xo, out, u, record, fc_after)
        self.cons_calls = []     # every constraint-function call: list of rows
        self.phase = "construct"
        self.ncall = 0
        self.max_loop_iters = max_loop_iters
        self.loop_iters = 0
        self.aborted = None

    # ------------------------------------------------------------------ wrappers
    def _target(self, fun):
        rec = self

        def wrapped(x):
            rec.ncall += 1
            k = rec.ncall
            xo = _l(x)
            entry = dict(i=k, phase=rec.phase, xo=xo, out=None)
            rec.calls.append(entry)
            f = rec.fault
            if f and f["at"] == k:
                kind = f["kind"]
                entry["out"] = ["fault", kind]
                if kind == "raise":
                    rec.raised = TargetFault(k, "injected at call %d" % k)
                    raise rec.raised
                if kind == "raise_key":
                    raise KeyError("injected")
                if kind == "raise_index":    # an exception class the caller might be tempted to "handle" (wrong input shape?)
                    raise IndexError("injected: index 3 is out of bounds")
                if kind == "raise_noargs":   # an exception created without arguments (bare `raise NotImplementedError`, a failed `assert`)
                    raise NotImplementedError
                if kind == "raise_valsub":   # a proper SUBCLASS of ValueError (what a failed Cholesky factorisation inside the target raises)
                    raise np.linalg.LinAlgError("injected: matrix is not positive definite")
                if kind == "raise_stop":     # an exception class with a meaning for Python's iteration protocol (a data iterator ran dry)
                    raise StopIteration("injected")
                he = rec.spec.get("noise") == "specified"
                v = dict(nan=float("nan"), inf=float("inf"), ninf=float("-inf"), complex=complex(1, 2), complex0=complex(3, 0),
                         npcomplex=np.complex128(1 + 2j), npcomplex0=np.complex128(3 + 0j), npnan=np.float64("nan"),
                         vector=np.array([1.0, 2.0]), vlist=[1.0, 2.0], none=None).get(kind, 1.0)
                if kind in ("sd_zero", "sd_neg", "sd_nan", "sd_inf", "sd_none", "sd_complex0"):
                    s = dict(sd_zero=0.0, sd_neg=-1.0, sd_nan=float("nan"), sd_inf=float("inf"), sd_none=None, sd_complex0=complex(0.5, 0))[kind]
                    return (1.0, s) if he else float("nan")
                if kind == "notpair":
                    return 1.0 if he else (1.0, 1.0)
                return (v, 0.5) if he else v
            r = fun(x)
            if isinstance(r, tuple):
                entry["out"] = ["ok", float(r[0]), float(r[1])]
            else:
                entry["out"] = ["ok", float(r), None]
            return r
        return wrapped

    def _cons(self, cons):
        rec = self

        def wrapped(X):
            r = cons(X)
            rows = np.atleast_2d(np.asarray(X, dtype=float))
            rec.cons_calls.append(dict(phase=rec.phase, rows=rows.tolist(), viol=np.atleast_1d(np.asarray(r, dtype=float) > 0).tolist()))
            return r
        return wrapped

    def snap(self, b):
        os_ = b.optim_state
        fl = b.function_logger
        return dict(k=int(b.mesh_size_integer), ks=int(os_["search_size_integer"]), scount=int(os_["search_count"]) if float(os_["search_count"]).is_integer() else float(os_["search_count"]),
                    ssucc=int(getattr(b, "search_success", 0)), spree=int(getattr(b, "search_spree", 0)),
                    fc=int(fl.func_count), Xn=int(fl.Xn), u=_l(b.u), u_best=_l(getattr(b, "u_best", None)),
                    yval=_f(getattr(b, "yval", None)), fval=_f(getattr(b, "fval", None)), fsd=_f(getattr(b, "fsd", None)),
                    reset_gp=bool(getattr(b, "reset_gp", False)), mesh=float(os_["mesh_size"]),
                    smesh=_f(os_.get("search_mesh_size")), smesh_attr=_f(getattr(b, "search_mesh_size", None)),
                    level=int(os_["uncertainty_handling_level"]), SI=_f(getattr(b, "sufficient_improvement", None)))

    def run(self):
        import pybads.bads.bads as bb
        from pybads import BADS
        import pybads.search.es_search as es
        from pybads.function_logger import FunctionLogger
        logging.disable(logging.CRITICAL)
        fun, args, cons, options = make_problem(self.spec)
        rec = self
        tr = dict(spec=self.spec, fault=self.fault, events=self.ev, calls=self.calls, cons_calls=self.cons_calls)
        wfun = self._target(fun)
        wcons = self._cons(cons) if cons is not None else None
        # the USER's hard box, copied BEFORE the constructor sees the arrays: the oracle of C01 must not be read back from the implementation
        user_lb, user_ub = _l(np.array(args["lower_bounds"], dtype=float)), _l(np.array(args["upper_bounds"], dtype=float))
        args = {k: (None if v is None else np.array(v, dtype=(v.dtype if (k == "x0" and self.spec.get("x0_int")) else float))) for k, v in args.items()}
        try:
            b = BADS(wfun, non_box_cons=wcons, options=dict(options), **args)
        except Exception as ex:
            tr["construct_exc"] = [type(ex).__name__, str(ex)[:200]]
            return tr
        self.b = b
        vt = b.var_transf
        tr["problem"] = dict(D=b.D, x0=_l(b.x0), lb=_l(b.lower_bounds), ub=_l(b.upper_bounds), plb=_l(b.plausible_lower_bounds),
                             pub=_l(b.plausible_upper_bounds), lb_orig=user_lb, ub_orig=user_ub, lb_orig_impl=_l(vt.orig_lb), ub_orig_impl=_l(vt.orig_ub),
                             logt=[bool(v) for v in np.asarray(vt.apply_log_t).reshape(-1)], u0=_l(b.u),
                             level0=int(b.optim_state["uncertainty_handling_level"]))
        tr["options0"] = {k: (v if isinstance(v, (int, float, bool, str, type(None))) else _f(v))
                          for k, v in b.options.items() if isinstance(v, (int, float, bool, str, type(None), np.floating, np.integer))}
        saved = {}

        def patch(mod, name, new):
            saved[(mod, name)] = getattr(mod, name)
            setattr(mod, name, new)

        # --- FunctionLogger.__call__ (class-level; only our instance is recorded)
        orig_call = FunctionLogger.__call__

        def fl_call(self_, x, record_duplicate_data=True):
            if self_ is not b.function_logger:
                return orig_call(self_, x, record_duplicate_data)
            n0 = rec.ncall
            u = _l(x)
            xn0 = int(self_.Xn)
            if rec.phase == "final":
                # the incumbent the final re-sampling starts from (chosen iterate BEFORE fval / fsd are overwritten by the mean / SEM) and the
                # SD of the last logged row (the code's supplement of ysd_vec): inputs / outcomes of the tail's translator validation (comp_final)
                try:
                    sdl = _f(self_.S[self_.Xn]) if getattr(self_, "noise_flag", False) and getattr(self_, "S", None) is not None else None
                except Exception:
                    sdl = None
                rec.ev.append(["final_sel", dict(u=_l(b.u), yval=_f(getattr(b, "yval", None)), fval=_f(getattr(b, "fval", None)),
                                                 fsd=_f(getattr(b, "fsd", None)), sdlast=sdl, arg=u)])
            try:
                r = orig_call(self_, x, record_duplicate_data)
            except BaseException as ex:
                if rec.ncall > n0:
                    rec.calls[-1].update(u=u, record=bool(record_duplicate_data), fc_after=int(self_.func_count), exc=type(ex).__name__)
                rec.ev.append(["call_exc", rec.phase, type(ex).__name__])
                raise
            if rec.ncall > n0:
                rec.calls[-1].update(u=u, record=bool(record_duplicate_data), fc_after=int(self_.func_count),
                                     newrow=int(self_.Xn) > xn0,
                                     ret=[_f(r[0]), _f(r[1]), None if r[2] is None else int(r[2])])
            rec.ev.append(["call", rec.phase, rec.ncall])
            return r
        patch(FunctionLogger, "__call__", fl_call)

        # --- contraints_check at its call sites
        def mk_filter(site, orig):
            def f(U, lb, ub, tol_mesh, function_logger, proj=True, non_box_cons=None):
                out = orig(U, lb, ub, tol_mesh, function_logger, proj, non_box_cons)
                rec.ev.append(["filter", site, rec.phase, np.atleast_2d(np.asarray(U, dtype=float)).tolist(), _l(lb), _l(ub), float(tol_mesh),
                               bool(proj), np.atleast_2d(out).tolist() if np.size(out) else [], int(function_logger.X_max_idx) + 1,
                               non_box_cons is not None])
                return out
            return f
        patch(bb, "contraints_check", mk_filter("bads", bb.contraints_check))
        patch(es, "contraints_check", mk_filter("es", es.contraints_check))

        # --- instance methods
        o_search, o_poll, o_impr, o_upd, o_reeval, o_initopt = (b._search_step_, b._poll_step_, b._eval_improvement_,
                                                                b._update_incumbent_, b._re_evaluate_history_, b._init_optimization_)

        def w_search(gp):
            rec.phase = "search"
            rec.ev.append(["search_begin", rec.snap(b)])
            r = o_search(gp)
            rec.ev.append(["search_end", rec.snap(b), _l(r[0]) if r[0] is not None else None, _f(r[2]), _f(r[3])])
            rec.phase = "loop"
            return r

        def w_poll(gp):
            rec.phase = "poll"
            rec.ev.append(["poll_begin", rec.snap(b)])
            r = o_poll(gp)
            rec.ev.append(["poll_end", rec.snap(b)])
            rec.phase = "loop"
            return r

        def w_impr(f_base, f_new, s_base, s_new, q):
            z = o_impr(f_base, f_new, s_base, s_new, q)
            if np.size(f_new) == 1 and np.size(f_base) == 1:
                rec.ev.append(["impr", rec.phase, _f(f_base), _f(f_new), _f(s_base), _f(s_new), float(q), _f(z)])
            else:
                rec.ev.append(["impr_vec", rec.phase, _f(f_base), _l(f_new), _f(s_base), _l(s_new), float(q), _l(z)])
            return z

        def w_upd(u_new, yval_new, fval_new, fsd_new):
            rec.ev.append(["update_incumbent", rec.phase, _l(u_new), _f(yval_new), _f(fval_new), _f(fsd_new)])
            return o_upd(u_new, yval_new, fval_new, fsd_new)

        def w_reeval(gp):
            r = o_reeval(gp)
            ih = b.iteration_history
            rec.ev.append(["reeval", rec.phase, [None if v is None else float(v) for v in ih.get("fval")],
                           [None if v is None else float(v) for v in ih.get("fsd")]])
            return r

        def w_initopt():
            rec.phase = "init"
            r = o_initopt()
            rec.phase = "loop"
            rec.ev.append(["init_done", rec.snap(b), dict(max_fun_evals=_f(b.options["max_fun_evals"]), nfs=_f(b.options["noise_final_samples"]),
                                                         max_iter=_f(b.options["max_iter"]), search_n_try=_f(b.options["search_n_try"]),
                                                         tol_stall_iters=_f(b.options["tol_stall_iters"]), tol_fun=_f(b.options["tol_fun"]),
                                                         tol_mesh_state=float(b.optim_state["tol_mesh"]),
                                                         fun_eval_start=_f(b.options["fun_eval_start"]))])
            return r
        b._search_step_, b._poll_step_, b._eval_improvement_ = w_search, w_poll, w_impr
        b._update_incumbent_, b._re_evaluate_history_, b._init_optimization_ = w_upd, w_reeval, w_initopt

        o_rec = b.iteration_history.record

        def w_rec(key, value, iteration):
            if key in ("u", "x", "yval", "fval", "fsd", "func_count", "mesh_size", "search_mesh_size"):
                v = _l(value) if key in ("u", "x") else _f(value)
                rec.ev.append(["hist", rec.phase, key, v, int(iteration)])
            return o_rec(key, value, iteration)
        b.iteration_history.record = w_rec

        class LoopGuard(Exception):
            pass

        def probe(d):
            rec.loop_iters += 1
            rec.ev.append(["probe", dict(d), rec.snap(b)])
            if d.get("is_finished"):
                rec.phase = "final"
            if rec.loop_iters > rec.max_loop_iters:
                raise LoopGuard("no termination after %d loop iterations" % rec.loop_iters)
        b._verif_probe = probe

        try:
            np.seterr(all="ignore")
            res = b.optimize()
            tr["result"] = dict(x=_l(res["x"]), fval=_f(res["fval"]), fsd=_f(res["fsd"]), func_count=int(res["func_count"]),
                                iterations=int(res["iterations"]), message=res["message"], msg_id=MSGS.get(res["message"], -1),
                                target_type=res["target_type"], problem_type=res["problem_type"], mesh_size=_f(res["mesh_size"]),
                                x0=_l(res["x0"]), random_seed=res["random_seed"],
                                yval_vec=None if res["yval_vec"] is None else _l(res["yval_vec"]),
                                ysd_vec=None if res["ysd_vec"] is None else _l(res["ysd_vec"]), success=res["success"])
        except LoopGuard as ex:
            tr["exc"] = ["LoopGuard", str(ex), "harness"]
        except BaseException as ex:
            tb = traceback.extract_tb(ex.__traceback__)
            inner = [f for f in tb if "/pybads/" in f.filename]
            where = (os.path.basename(inner[-1].filename) + ":" + inner[-1].name) if inner else "?"
            tr["exc"] = [type(ex).__name__, str(ex)[:300], where]
            tr["exc_same_object"] = (ex is getattr(self, "raised", None))
        finally:
            for (mod, name), v in saved.items():
                setattr(mod, name, v)
            logging.disable(logging.NOTSET)
        fl = b.function_logger
        n = fl.Xn + 1

        def col(a):     # first column of a log table, whatever its rank (the recorder must not fail where the optimiser did not)
            a = np.asarray(a)
            return a.reshape(a.shape[0], -1)[:n, 0].tolist() if a.size else []
        tr["log_shapes"] = {k: list(np.shape(getattr(fl, k))) for k in ("X", "X_orig", "Y", "Y_orig", "S", "n_evals") if getattr(fl, k, None) is not None}
        tr["final"] = dict(snap=self.snap(b), ncalls=self.ncall, level=int(b.optim_state["uncertainty_handling_level"]),
                           logX=fl.X[:n].tolist(), logXo=fl.X_orig[:n].tolist(), logY=col(fl.Y),
                           logS=(col(fl.S) if fl.noise_flag else None), n_evals=col(fl.n_evals),
                           max_fun_evals=_f(b.options["max_fun_evals"]), nfs=_f(b.options["noise_final_samples"]),
                           hist={k: ([None if v is None else (_l(v) if k in ("u", "x") else _f(v)) for v in b.iteration_history.get(k)]
                                     if b.iteration_history.get(k) is not None else None)
                                 for k in ("u", "x", "yval", "fval", "fsd", "func_count", "mesh_size")},
                           inv_u=_l(vt.inverse_transf(np.atleast_2d(b.u))) if getattr(b, "u", None) is not None else None,
                           final_quantile=_f(b.options["final_quantile"]))
        # exact inverse images of every evaluated internal point (for the clamp/correspondence clauses)
        return tr


def run_spec(spec, fault=None):
    np.random.seed(12345)  # foreign history is irrelevant: BADS reseeds; keep the process state fixed anyway
    return Recorder(spec, fault).run()
