"""Component correspondence for the option machinery (model M12, Model/Options.v) and the declarative
monitor for C20.

Two ties, both against the REAL classes of the checked tree:

 T1  pybads.bads.options.Options driven directly on SYNTHETIC ini files (random keys, defaults that read
     D and other keys in any order, keys in several files, the reserved name) with random user dicts and
     random interleavings of Init / Load / Validate over several objects, with and without passing D.
     Every default is written as the tuple  (key, ((name, value), ...))  so the real value mirrors the
     model's [VDefault key args] exactly; stores are compared in dict insertion order, together with the
     outcome of every op, the module-global D and the caller dicts afterwards.

 T2  pybads.BADS constructed (and run) on the REAL ini files.  A stored value is classified
     observationally: CU tag = the caller's very object, CF d / CN = equal to the SAME source text of the
     default evaluated in a fresh namespace with D = d and the store's current values for self.get,
     CA = re-written by the owner's optimize(), CM = missing, CB = anything else.  The model is asked for
     the same classification after every op, for every live instance.

The monitor (check_* functions below) restates the property on observables without the Coq model and is
what produces concrete VIOLATION inputs.
"""
from __future__ import annotations

import builtins
import json
import logging
from pathlib import Path

import numpy as np

from vlib import core
from vlib.core import cz, cstr, clist
from translate import options as TR

REQUIRES = ["PV.Model.Val", "PV.Model.Options", "PV.gen.Src_options"]
RESERVED = "useroptions"
# options that optimize() is documented (DESIGN, scope note) to re-write on the instance that runs
DOCUMENTED_ADJUST = {"tol_stall_iters", "n_train_max", "n_train_min", "mesh_overflow_warning", "min_failed_poll_steps",
                     "mesh_noise_multiplier", "noise_size", "noise_final_samples", "max_fun_evals", "fun_eval_start",
                     "stobads"}
VALID_GP_MEAN = ["zero", "const", "negquad", "se", "negquadse", "negquadfixiso", "negquadfix", "negquadsefix",
                 "negquadonly", "negquadfixonly", "negquadlinonly", "negquadmix"]
# names no code path reads (safe to carry arbitrary objects through a run)
UNREAD = ["hessian_alternate", "warp_every_iters", "warp_cov_reg", "warp_proto_corr_thresh", "temperature", "bandwidth",
          "k_warmup", "kl_gauss", "tol_skl", "variational_sampler", "sgd_step_size", "heavy_tail_search_frac"]

logging.disable(logging.CRITICAL)


def _mod():
    import pybads.bads.options as O
    return O


def reset_global_D(value=None):
    """Put the module-global D of pybads.bads.options into a known state (None = unbound)."""
    O = _mod()
    if value is None:
        if hasattr(O, "D"):
            del O.D
    else:
        O.D = value


def global_D():
    return getattr(_mod(), "D", None)


# ============================================================================ values, fingerprints

class Tag:
    """A caller-owned object with no meaning to BADS."""
    __slots__ = ("n",)

    def __init__(self, n):
        self.n = n

    def __repr__(self):
        return f"Tag({self.n})"


def realize(spec):
    """JSON value spec -> fresh Python object."""
    t = spec[0]
    if t == "tag":
        return Tag(spec[1])
    if t in ("int", "float", "str", "bool"):
        return {"int": int, "float": float, "str": str, "bool": bool}[t](spec[1])
    if t == "none":
        return None
    if t == "list":
        return [realize(x) for x in spec[1]]
    if t == "tuple":
        return tuple(realize(x) for x in spec[1])
    if t == "array":
        return np.array(spec[1], dtype=float)
    if t == "set":
        return set(spec[1])
    if t == "dict":
        return {k: realize(v) for k, v in spec[1]}
    raise ValueError("bad spec %r" % (spec,))


def fp(v):
    """Deep, hashable fingerprint of a value (type-exact; arrays by bytes; functions by code)."""
    if isinstance(v, Tag):
        return ("tag", id(v))
    if isinstance(v, np.ndarray):
        if v.dtype == object:
            return ("ndo", v.shape, tuple(fp(x) for x in v.ravel().tolist()))
        return ("nd", str(v.dtype), v.shape, v.tobytes())
    if isinstance(v, (str, bytes, bool, int, float, complex, type(None))):
        return (type(v).__name__, repr(v))
    if isinstance(v, np.generic):
        return ("npg", type(v).__name__, v.tobytes())
    if isinstance(v, (list, tuple)):
        return (type(v).__name__, tuple(fp(x) for x in v))
    if isinstance(v, (set, frozenset)):
        return (type(v).__name__, tuple(sorted(repr(fp(x)) for x in v)))
    if isinstance(v, dict):
        return ("dict", tuple((fp(k), fp(x)) for k, x in v.items()))
    if callable(v) and hasattr(v, "__code__"):
        c = v.__code__
        return ("fn", c.co_code, repr(c.co_consts), c.co_names, c.co_varnames)
    return ("obj", type(v).__name__, id(v))


def arr_fp(a):
    if a is None:
        return None
    if isinstance(a, np.ndarray):
        return ("nd", str(a.dtype), a.shape, a.tobytes(), a.flags.writeable)
    return ("py", repr(a))


def dict_fp(d):
    """keys (order), deep fingerprints AND identities of the values of a caller dict."""
    if d is None:
        return None
    return tuple((k, fp(v), id(v)) for k, v in d.items())


# ============================================================================ the real files

_F = {}


def files():
    if not _F:
        res = TR.load(core.REPO)
        allrows = res["basic"] + res["advanced"]
        _F.update(basic=res["basic"], advanced=res["advanced"], keys=[k for k, _, _ in allrows],
                  text={k: t for k, t, _ in allrows}, deps={k: d for k, _, d in allrows},
                  code={k: compile(t.strip(), f"<default of {k}>", "eval") for k, t, _ in allrows},
                  basic_keys={k for k, _, _ in res["basic"]})
    return _F


class _StoreView:
    """`self` for a fresh evaluation: only get / [] on the given mapping."""

    def __init__(self, d):
        self._d = d

    def get(self, k):
        return dict.get(self._d, k)

    def __getitem__(self, k):
        return dict.__getitem__(self._d, k)


_SAFE_BUILTINS = {n: getattr(builtins, n) for n in TR.PURE_BUILTINS}


def fresh_default(key, D, store):
    """The SAME source text of key's default, evaluated in a fresh namespace with this D and `store`
    for self.get — nothing of pybads' evaluation machinery is involved."""
    F = files()
    return eval(F["code"][key], {"np": np, "D": D, "__builtins__": _SAFE_BUILTINS}, {"self": _StoreView(store)})


def raw_items(opts):
    """(key, value) of an Options object in dict order, without the reserved entry."""
    return [(str(k), v) for k, v in dict.items(opts) if k != RESERVED]


# ============================================================================ T1: Options on synthetic files

def t1_gen(rng, idx):
    """-> JSON-able scenario: files, caller dicts, initial D, op list (ops on objects that do not exist
    yet are skipped by the runner, identically for model and code)."""
    pool = ["k%d" % j for j in range(rng.choice([2, 3, 4, 6]))]
    unknown = ["zz", "K0", "k0_", "k9"]
    fls = []
    for _ in range(rng.choice([1, 2, 2, 3])):
        ks = rng.sample(pool, rng.randint(1, len(pool)))
        if rng.random() < 0.08:
            ks.insert(rng.randrange(len(ks) + 1), RESERVED)
        ents = []
        for k in ks:
            nd = rng.choice([0, 0, 1, 1, 2, 3])
            deps = sorted({rng.choice(["D", "D"] + pool) for _ in range(nd)})
            ents.append([k, deps])
        fls.append(ents)
    callers, tag = [], 1
    for _ in range(rng.choice([0, 1, 2, 3])):
        d = []
        names = rng.sample(pool + unknown, rng.randint(0, min(4, len(pool) + 2)))
        if rng.random() < 0.6:
            names = [n for n in names if n in pool]
        if rng.random() < 0.15:
            names.insert(rng.randrange(len(names) + 1), RESERVED)
        for n in names:
            if n == RESERVED:
                v = ["set", sorted(rng.sample(pool, rng.randint(0, min(2, len(pool)))))] if rng.random() < 0.75 else ["int", 100 + tag]
            elif rng.random() < 0.07:
                v = ["set", sorted(rng.sample(pool, 1))]
            else:
                v = ["int", tag]
            tag += 1
            d.append([n, v])
        callers.append(d)
    ops = []
    ninst = rng.choice([1, 2, 2, 3])
    for _ in range(rng.randint(2, 10)):
        r = rng.random()
        i = rng.randrange(ninst)
        oD = None if rng.random() < 0.12 else rng.randint(1, 6)
        f = rng.randrange(len(fls))
        if r < 0.35:
            u = rng.randrange(len(callers)) if callers and rng.random() < 0.8 else None
            ops.append(["init", i, f, oD, u])
        elif r < 0.75:
            ops.append(["load", i, f, oD])
        else:
            ops.append(["validate", i, sorted(rng.sample(range(len(fls)), rng.randint(1, len(fls))))])
    if ops[0][0] != "init":
        ops.insert(0, ["init", ops[0][1], 0, rng.randint(1, 6), (0 if callers else None)])
    g0 = None if rng.random() < 0.6 else rng.randint(1, 6)
    return dict(files=fls, callers=callers, g0=g0, ops=ops)


def _expr_text(k, deps):
    items = "".join(f'("{d}", D), ' if d == "D" else f'("{d}", self.get("{d}")), ' for d in deps)
    return f'("{k}", ({items}))'


def _write_ini(path: Path, ents, rng_tick):
    lines = ["[Options]"]
    for j, (k, deps) in enumerate(ents):
        if (j + rng_tick) % 3 == 0:
            lines.append(f"# description of {k} (e.g. {k} = 1: two)")      # a '#' key with delimiters inside
        lines.append(f"{k} = {_expr_text(k, deps)}" + ("    # trailing comment" if (j + rng_tick) % 4 == 1 else ""))
    path.write_text("\n".join(lines) + "\n")


def t1_run(sc, workdir: Path):
    """Run the scenario on the real Options class.  -> (executed ops, dump)"""
    from pybads.bads.options import Options
    workdir.mkdir(parents=True, exist_ok=True)
    paths = []
    for j, ents in enumerate(sc["files"]):
        p = workdir / f"f{j}.ini"
        _write_ini(p, ents, j)
        paths.append(str(p))
    callers = [{k: realize(v) for k, v in d} for d in sc["callers"]]
    reset_global_D(sc["g0"])
    objs, executed, outs = {}, [], []
    for op in sc["ops"]:
        kind, i = op[0], op[1]
        if kind != "init" and i not in objs:
            continue
        executed.append(op)
        try:
            if kind == "init":
                ev = {} if op[3] is None else {"D": op[3]}
                objs[i] = Options(paths[op[2]], evaluation_parameters=ev,
                                  user_options=(None if op[4] is None else callers[op[4]]))
            elif kind == "load":
                ev = {} if op[3] is None else {"D": op[3]}
                objs[i].load_options_file(paths[op[2]], evaluation_parameters=ev)
            else:
                objs[i].validate_option_names([paths[j] for j in op[2]])
            outs.append("Done")
        except Exception as ex:                                   # class name is the observable
            outs.append(type(ex).__name__)
    dump = dict(outs=outs, gD=global_D(),
                insts={i: (raw_items(o), sorted(dict.__getitem__(o, RESERVED))) for i, o in objs.items()},
                callers=[list(d.items()) for d in callers])
    return executed, dump


def _t1_val(v):
    if isinstance(v, bool):
        raise TypeError("unexpected bool in T1 value")
    if isinstance(v, (int, np.integer)):
        return f"(VUser {cz(int(v))})"
    if isinstance(v, (set, frozenset)):
        return "(VSet " + clist([cstr(x) for x in sorted(v)]) + ")"
    if v is None:
        return "VAbsent"
    if isinstance(v, tuple) and len(v) == 2 and isinstance(v[0], str):
        args = ["(" + cstr(n) + ", " + (f"(VInt {cz(int(x))})" if n == "D" else _t1_val(x)) + ")" for n, x in v[1]]
        return f"(VDefault {cstr(v[0])} " + clist(args) + ")"
    raise TypeError("T1 value outside the model's value type: %r" % (v,))


def _coq_file(ents):
    return clist(["(" + cstr(k) + ", " + clist([cstr(d) for d in deps]) + ")" for k, deps in ents])


def _coq_store(items):
    return clist(["(" + cstr(str(k)) + ", " + _t1_val(v) + ")" for k, v in items])


def _coq_outcome(o):
    return "Done" if o == "Done" else f"(Raised {cstr(o)})"


def _coq_oz(d):
    return "None" if d is None else f"(Some {cz(d)})"


def _coq_onat(u):
    return "None" if u is None else f"(Some {int(u)}%nat)"


def t1_coq_case(sc, executed, dump):
    fl = [_coq_file(e) for e in sc["files"]]
    names = [clist([cstr(k) for k, _ in e]) for e in sc["files"]]
    ops = []
    for op in executed:
        if op[0] == "init":
            ops.append(f"(Init {op[1]}%nat {fl[op[2]]} {_coq_oz(op[3])} {_coq_onat(op[4])})")
        elif op[0] == "load":
            ops.append(f"(Load {op[1]}%nat {fl[op[2]]} {_coq_oz(op[3])})")
        else:
            ops.append(f"(Validate {op[1]}%nat (" + " ++ ".join(names[j] for j in op[2]) + "))")
    cs0 = clist([f"({u}%nat, " + _coq_store([(k, realize(v)) for k, v in d]) + ")" for u, d in enumerate(sc["callers"])])
    outs = clist([_coq_outcome(o) for o in dump["outs"]])
    insts = clist([f"({i}%nat, ({_coq_store(st)}, " + clist([cstr(x) for x in uo]) + "))"
                   for i, (st, uo) in sorted(dump["insts"].items())])
    cs1 = clist([f"({u}%nat, {_coq_store(d)})" for u, d in enumerate(dump["callers"])])
    return f"(({_coq_oz(sc['g0'])}, {cs0}, {clist(ops)}), ({outs}, {_coq_oz(dump['gD'])}, {insts}, {cs1}))"


T1_CASE_TY = "t1_case"
T1_OK = "t1_ok"


# ============================================================================ T2: real BADS on the real files

def _consumed_table(rng, key, tagn, D, noisy):
    """Type-appropriate distinctive value specs for options the constructor consumes."""
    r = rng
    tbl = {
        "display": lambda: ["str", r.choice(["off", "final", "notify"])],
        "random_seed": lambda: ["int", r.randint(1, 10 ** 6)],
        "nonlinear_scaling": lambda: ["bool", r.random() < 0.5],
        "periodic_vars": lambda: ["none"],
        "specify_target_noise": lambda: ["bool", r.random() < 0.25],
        "uncertainty_handling": lambda: r.choice([["none"], ["bool", True], ["bool", False]]),
        "noise_size": lambda: r.choice([["none"], ["float", round(0.5 + r.random(), 6)], ["array", [0.75]]]),
        "gp_mean_fun": lambda: ["str", r.choice(VALID_GP_MEAN)],
        "stobads": lambda: r.choice([["bool", True], ["bool", False], ["tag", tagn], ["int", 1]]),
        "f_vals": lambda: r.choice([["none"], ["list", [["float", 1.25]]]]),
        "fun_values": lambda: r.choice([["dict", []], ["none"]]),
        "cache_size": lambda: ["int", r.randint(50, 900)],
        "init_mesh_size_integer": lambda: ["int", r.randint(-3, 3)],
        "search_grid_number": lambda: ["int", r.randint(5, 15)],
        "search_grid_multiplier": lambda: ["int", r.randint(1, 3)],
        "poll_mesh_multiplier": lambda: ["float", r.choice([2.0, 3.0, 4.0])],
        "tol_mesh": lambda: ["float", float("%.6g" % (10 ** -r.uniform(4, 8)))],
        "tol_fun": lambda: ["float", float("%.6g" % (10 ** -r.uniform(1, 4)))],
    }
    return tbl[key]() if key in tbl else None


_CONSUMED = {}


def _probe(options):
    from pybads.bads.bads import BADS
    try:
        BADS(lambda x: 0.0, np.zeros((1, 2)), -np.ones(2) * 5, np.ones(2) * 5, -np.ones(2), np.ones(2), options=options)
        return True
    except Exception:
        return False


def _discover():
    """Found by trying (so the sets follow the code), cached per content hash of the checked tree:
       consumed  = options for which a meaningless object makes construction fail,
       noarray   = options that additionally cannot hold a NumPy array (used in a truth/equality test),
       rsafe     = advanced options named inside the reserved-name corner's set value."""
    if _CONSUMED:
        return _CONSUMED
    cache = core.CACHE / "c20" / f"discover-v4-{core.repo_tree_hash()}.json"
    if cache.exists():
        _CONSUMED.update({k: v for k, v in json.loads(cache.read_text()).items()})
        return _CONSUMED
    F = files()
    static = [k for k in F["keys"] if _consumed_table(_ZeroRng(), k, 0, 2, False) is not None]
    consumed = [k for k in F["keys"] if not _probe({k: Tag(0)})]
    noarray = [k for k in F["keys"] if k not in consumed and not _probe({k: np.array([3.0, 0.25])})]
    rsafe = [k for k in F["keys"] if k not in F["basic_keys"] and k not in consumed]
    trusted = _probe(None) and _probe({"display": "off"}) and len(consumed) <= 40 and len(noarray) <= 60
    if not trusted:
        # constructions fail wholesale on this tree: do not let that shape the generator — use the static
        # table only, so the scenarios still exercise every name and the monitor reports what is wrong
        consumed, noarray, rsafe = static, [], [k for k in F["keys"] if k not in F["basic_keys"] and k not in static]
    _CONSUMED.update(consumed=consumed, noarray=noarray, rsafe=rsafe, trusted=trusted)
    cache.parent.mkdir(parents=True, exist_ok=True)
    cache.write_text(json.dumps(_CONSUMED))
    return _CONSUMED


class _ZeroRng:
    """Deterministic stand-in used only to ask the value table whether it knows a key."""

    def choice(self, xs):
        return xs[0]

    def random(self):
        return 0.0

    def randint(self, a, b):
        return a

    def uniform(self, a, b):
        return a


def consumed_keys():
    return set(_discover()["consumed"])


def reserved_safe_keys():
    return list(_discover()["rsafe"])


def gen_value(rng, key, tagn, D=2, noisy=False):
    v = _consumed_table(rng, key, tagn, D, noisy)
    if v is not None:
        return v
    if key in consumed_keys():
        return ["default"]                       # fall back: a fresh copy of the default (realised per instance)
    r = rng.random()
    if r < 0.55:
        return ["tag", tagn]
    if r < 0.65:
        return ["int", 100000 + tagn]
    if r < 0.75:
        return ["float", 0.5 + tagn / 1024.0]
    if r < 0.83:
        return ["list", [["int", tagn], ["list", [["float", 0.5]]]]]          # mutable, nested
    if r < 0.90 and key not in _discover()["noarray"]:
        return ["array", [float(tagn), 0.25]]
    if r < 0.95:
        return ["str", f"user-{tagn}"]
    return ["dict", [["a", ["int", tagn]]]]


def gen_problem(rng, D):
    return dict(D=D, x0=rng.choice(["2d", "2d", "1d", "list", "none"]), bounds=rng.choice(["2d", "2d", "1d", "list"]),
                box=rng.choice(["plain", "plain", "edge", "tight", "unbounded", "nopb", "log", "log"]))


def build_problem(p):
    """-> dict of caller-owned arrays for BADS(fun, x0, lb, ub, plb, pub)."""
    D = p["D"]
    if p["x0"] == "none" and p["bounds"] == "list":
        p = dict(p, bounds="1d")           # BADS needs .shape of the plausible bounds when x0 is omitted (not C20's business)
    lb = np.array([-5.0 - j for j in range(D)])
    ub = np.array([5.0 + j for j in range(D)])
    plb = np.full(D, -1.0)
    pub = np.full(D, 2.0)
    x0 = np.array([0.5 - 0.125 * j for j in range(D)])
    if p["box"] == "edge":
        x0[0] = lb[0]                      # on the hard bound: constructor moves it inside
        x0[-1] = ub[-1]
    elif p["box"] == "tight":
        plb[0] = lb[0]                     # plausible bound on the hard bound: constructor moves it
        pub[-1] = ub[-1]
    elif p["box"] == "unbounded":
        lb[:] = -np.inf
        ub[:] = np.inf
    elif p["box"] == "log":
        # positive bounds spanning more than a decade: the variable transform takes logarithms of (its copies of) the bounds
        lb[:], plb[:], pub[:], ub[:] = 2.0, 5.0, 500.0, 5000.0
        x0[:] = 40.0
    shape = {"2d": lambda a: a.reshape(1, -1).copy(), "1d": lambda a: a.copy(), "list": lambda a: a.tolist()}
    out = dict(lb=shape[p["bounds"]](lb), ub=shape[p["bounds"]](ub), plb=shape[p["bounds"]](plb), pub=shape[p["bounds"]](pub))
    out["x0"] = None if p["x0"] == "none" else shape[p["x0"]](x0)
    if p["box"] == "nopb":
        out["plb"] = out["pub"] = None
        if out["x0"] is None:
            out["x0"] = shape["2d"](x0)
    return out


class RunTooLong(Exception):
    """Raised by the harness' watchdogs; a run that does not end is C03's business, not C20's."""


RUN_SECONDS = 30


class Target:
    def __init__(self, mode):
        self.mode, self.calls, self.cap = mode, 0, None

    def __call__(self, x):
        self.calls += 1
        if self.cap is not None and self.calls > self.cap:
            raise RunTooLong(f"target called more than {self.cap} times")
        y = float(np.sum(np.asarray(x, dtype=float) ** 2))
        if self.mode == "det":
            return y
        y += 0.1 * np.sin(1000.0 * self.calls)
        return (y, 0.1) if self.mode == "spec" else y


def target_mode(user):
    if user and user.get("specify_target_noise") is True:
        return "spec"
    if user and user.get("uncertainty_handling") is True:
        return "noisy"
    return "det"


def realize_caller(specs, D):
    """caller dict from [[key, spec]] ("default" = a fresh evaluation of the key's own default)."""
    d = {}
    for k, s in specs:
        d[k] = fresh_default(k, D, _fresh_store(D)) if s[0] == "default" else realize(s)
    return d


def _fresh_store(D):
    """All defaults evaluated afresh, in load order, for this D."""
    F = files()
    st = {}
    for k in F["keys"]:
        try:
            st[k] = fresh_default(k, D, st)
        except Exception:
            st[k] = None
    return st


class Inst:
    """One live BADS instance as the harness sees it."""

    def __init__(self, i, D, u, user, bads, target, prob, arrays_fp, caller_fp):
        self.i, self.D, self.u, self.user, self.bads, self.target = i, D, u, user, bads, target
        self.prob, self.arrays_fp, self.caller_fp = prob, arrays_fp, caller_fp
        self.adjusted = set()          # keys re-written by this instance's own optimize()
        self.snap = None               # {key: (object, fingerprint)} after the last op of THIS instance
        self.snap0 = None              # right after construction


def snapshot(bads):
    return {k: (v, fp(v)) for k, v in raw_items(bads.options)}


NORMALISED = {"stobads": "user None / 0 / False becomes False (bads.py l.188-189)",
              "specify_target_noise": "user None becomes False (bads.py _init_optim_state_)"}


def _normalised(k, user_has, uv, v, store):
    """Documented constructor normalisations of 'empty' values (reported as observations):
    None/0/False -> False for the two flags; uncertainty_handling None -> True under declared target noise."""
    if k in NORMALISED and v is False and (not user_has or uv is None or uv == False):  # noqa: E712
        return f"{k}: {NORMALISED[k]}"
    if k == "uncertainty_handling" and v is True and (not user_has or uv is None) and store.get("specify_target_noise"):
        return "uncertainty_handling: empty value becomes True when specify_target_noise is set (bads.py _init_optim_state_)"
    return None


def codes_of(inst, extra, tags, notes):
    """Observational classification of every key of the real files (+ extra names) for one instance."""
    F = files()
    opts = inst.bads.options
    store = dict(raw_items(opts))
    out = []
    for k in F["keys"] + extra:
        if k not in store:
            out.append("CM")
            continue
        v = store[k]
        if k in inst.adjusted:
            out.append("CA")
        elif inst.user is not None and k in inst.user:
            if v is inst.user[k]:
                out.append(f"(CU {cz(tags[(inst.u, k)])})")
            elif _normalised(k, True, inst.user[k], v, store):
                notes.setdefault("normalised", set()).add(_normalised(k, True, inst.user[k], v, store))
                out.append(f"(CU {cz(tags[(inst.u, k)])})")
            else:
                out.append("CB")
        elif k not in F["code"]:
            out.append("CB")
        else:
            deps = F["deps"][k]
            ds = [inst.D] + [d for d in range(1, 9) if d != inst.D] if "D" in deps else [inst.D]
            code = "CB"
            for d in ds:
                try:
                    if fp(fresh_default(k, d, store)) == fp(v):
                        code = f"(CF {cz(d)})" if "D" in deps else "CN"
                        break
                except Exception:
                    pass
            if code == "CB" and _normalised(k, False, None, v, store):
                notes.setdefault("normalised", set()).add(_normalised(k, False, None, v, store))
                code = "CN"
            out.append(code)
    return out


def t2_run(sc, notes=None, want_codes=True):
    """Run a BADS-level scenario on the real code.  Returns dict(steps=[...], findings=[(key, what)]) where
    steps[j] = (op, outcome, [(i, codes, useropts)] for every live instance).  The monitor's findings are
    computed here too (they need the live objects)."""
    from pybads.bads.bads import BADS
    notes = notes if notes is not None else {}
    F = files()
    np.random.seed(sc.get("np_seed", 12345))
    reset_global_D(sc.get("g0"))
    callers = {}                 # uid -> dict object (shared by every construction that names it)
    tags = {}
    for u, specs in enumerate(sc["callers"]):
        for j, (k, _) in enumerate(specs):
            tags[(u, k)] = u * 1000 + j
    extra = sorted({k for specs in sc["callers"] for k, _ in specs if k not in F["code"] and k != RESERVED})
    live, steps, findings = {}, [], []

    def find(key, what):
        findings.append((key, what))

    for op in sc["ops"]:
        outcome = "Done"
        if op["op"] == "construct":
            i, D, u = op["i"], op["D"], op.get("u")
            if u is not None and u not in callers:
                callers[u] = realize_caller(sc["callers"][u], D)
            user = None if u is None else callers[u]
            prob = build_problem(op["prob"])
            a_fp = {n: arr_fp(a) for n, a in prob.items()}
            c_fp = dict_fp(user)
            tgt = Target(target_mode(user))
            before = {j: snapshot(x.bads) for j, x in live.items()}
            unknown = [] if user is None else [k for k in user if k not in F["code"]]
            try:
                b = BADS(tgt, prob["x0"], prob["lb"], prob["ub"], prob["plb"], prob["pub"], options=user)
                live[i] = Inst(i, D, u, user, b, tgt, prob, a_fp, c_fp)
                live[i].snap0 = live[i].snap = snapshot(b)
                if unknown:
                    key = "reserved-name-useroptions-accepted" if unknown == [RESERVED] else "unknown-name-accepted"
                    find(key, f"construction with option name(s) {unknown} defined in no option file did not raise")
            except Exception as ex:
                outcome = type(ex).__name__
                live.pop(i, None)
                if unknown and not isinstance(ex, ValueError):
                    key = "reserved-name-useroptions-accepted" if unknown == [RESERVED] else "unknown-name-wrong-exception"
                    find(key, f"construction with unknown option name(s) {unknown} raised {outcome}, not ValueError")
                if not unknown:
                    notes.setdefault("construct_exceptions", {}).setdefault(outcome, 0)
                    notes["construct_exceptions"][outcome] += 1
                    if isinstance(ex, ValueError) and "does not exist" in str(ex):
                        find("known-name-rejected", f"construction (D={D}) with only option names defined in the option files "
                                                    f"({sorted(user or {})[:6]}) raised ValueError: {str(ex)[:120]}")
            if tgt.calls:
                find("target-called-in-constructor", f"the constructor called the target {tgt.calls} time(s)")
            if dict_fp(user) != c_fp:
                key = "reserved-name-useroptions-accepted" if user is not None and RESERVED in user else "caller-dict-mutated"
                find(key, f"constructing instance {i} changed the caller's options dict (or a value in it): "
                          f"{_dict_diff(c_fp, dict_fp(user))}")
            for n, a in prob.items():
                if arr_fp(a) != a_fp[n]:
                    find("caller-array-mutated", f"constructing instance {i} changed the caller's {n} array")
            _others_unchanged(live, before, i, f"constructing instance {i} (D={D})", find)
            if i in live and outcome == "Done":
                _check_instance(live[i], find)
        else:                                                       # run
            i = op["i"]
            if i not in live:
                continue
            x = live[i]
            before = {j: snapshot(y.bads) for j, y in live.items()}
            try:
                _guarded_optimize(x)
            except Exception as ex:
                notes.setdefault("run_exceptions", {}).setdefault(type(ex).__name__, 0)
                notes["run_exceptions"][type(ex).__name__] += 1
            after = snapshot(x.bads)
            for k in set(before[i]) | set(after):
                if k not in after or k not in before[i] or after[k][1] != before[i][k][1] or \
                        (isinstance(before[i][k][0], Tag) and after[k][0] is not before[i][k][0]):
                    x.adjusted.add(k)
                    was = before[i].get(k, (None,))[0]
                    now = after.get(k, (None,))[0]
                    if k in DOCUMENTED_ADJUST:
                        if x.user is not None and k in x.user:
                            notes.setdefault("user_options_adjusted_by_run", set()).add(f"{k}: {was!r} -> {now!r}")
                            # the mode-forced settings of STOCHASTIC targets are observations (DESIGN C20 scope note); but a value the user
                            # supplied must survive a run where no such mode is entered: a deterministic run rewrites none of them
                            # (except the unsupported stobads flag), and a user-supplied noise_size (filled in only when None) never changes
                            level = int(x.bads.optim_state.get("uncertainty_handling_level", 0) or 0)
                            if (level == 0 and k != "stobads") or (k == "noise_size" and was is not None):
                                find("user-option-overwritten-by-run",
                                     f"optimize() of instance {i} ({'deterministic' if level == 0 else 'stochastic'} target) replaced the user-supplied option {k!r}: {was!r} -> {now!r}")
                        else:
                            notes.setdefault("defaults_adjusted_by_run", set()).add(k)
                    else:
                        find("run-writes-undocumented-option",
                             f"optimize() of instance {i} changed option {k!r} ({was!r} -> {now!r}), which is not among the documented adjustments")
            x.snap = after
            if dict_fp(x.user) != x.caller_fp:
                find("caller-dict-mutated", f"optimize() of instance {i} changed the caller's options dict (or a value in it): "
                                            f"{_dict_diff(x.caller_fp, dict_fp(x.user))}")
            for n, a in x.prob.items():
                if arr_fp(a) != x.arrays_fp[n]:
                    find("caller-array-mutated", f"optimize() of instance {i} changed the caller's {n} array")
            _others_unchanged(live, before, i, f"running instance {i}", find)
            op = dict(op, adjusted=sorted(x.adjusted))
        snaps = []
        if want_codes:
            for j in sorted(live):
                snaps.append((j, codes_of(live[j], extra, tags, notes),
                              sorted(str(s) for s in dict.__getitem__(live[j].bads.options, RESERVED))))
        steps.append((op, outcome, snaps))
    return dict(steps=steps, findings=findings, extra=extra, tags=tags, live=live)


def _guarded_optimize(x):
    """optimize() under three watchdogs: a cap on target calls, the guarded in-source probe (loop
    iterations / wall time) and, in the main thread, SIGALRM."""
    import signal
    import threading
    import time
    t0 = time.time()
    try:
        budget = int(dict(raw_items(x.bads.options)).get("max_fun_evals", 100))
    except Exception:
        budget = 100
    x.target.cap = x.target.calls + 4 * max(budget, 20) + 100

    def probe(st):
        if st.get("loop_iter", 0) > 3000 or time.time() - t0 > RUN_SECONDS:
            raise RunTooLong("main loop did not end")

    x.bads._verif_probe = probe
    use_alarm = threading.current_thread() is threading.main_thread()

    def on_alarm(signum, frame):
        raise RunTooLong("optimize() exceeded the wall-time limit")

    if use_alarm:
        old = signal.signal(signal.SIGALRM, on_alarm)
        signal.alarm(2 * RUN_SECONDS)
    try:
        x.bads.optimize()
    finally:
        if use_alarm:
            signal.alarm(0)
            signal.signal(signal.SIGALRM, old)
        x.target.cap = None
        x.bads._verif_probe = None


def _dict_diff(a, b):
    if a is None or b is None:
        return f"{a!r} -> {b!r}"
    ka, kb = [x[0] for x in a], [x[0] for x in b]
    if ka != kb:
        return f"keys {ka} -> {kb}"
    return "; ".join(f"value of {x[0]!r} changed" for x, y in zip(a, b) if x != y)


def _others_unchanged(live, before, i, what, find):
    for j, snap in before.items():
        if j == i or j not in live:
            continue
        now = snapshot(live[j].bads)
        for k in set(snap) | set(now):
            if k not in now or k not in snap or now[k][1] != snap[k][1] or now[k][0] is not snap[k][0]:
                find("instance-options-changed-by-other",
                     f"{what} changed option {k!r} of instance {j}: {snap.get(k, ('<missing>',))[0]!r} -> {now.get(k, ('<missing>',))[0]!r}")
                break


def _check_instance(x, find):
    """The property on one freshly constructed instance, stated directly (no model)."""
    F = files()
    store = dict(raw_items(x.bads.options))
    user = x.user or {}
    reserved_corner = RESERVED in user
    for k, v in user.items():
        if k == RESERVED:
            continue
        if k not in store:
            find("user-value-not-in-effect", f"user option {k!r} is missing from BADS.options after construction")
        elif store[k] is not v:
            if _normalised(k, True, v, store[k], store):
                continue
            find("user-value-not-in-effect",
                 f"user option {k!r} = {v!r} (D={x.D}) is not in effect after construction: BADS.options[{k!r}] = {store[k]!r}")
    for k in F["keys"]:
        if k in user:
            continue
        if k not in store:
            find("reserved-name-useroptions-accepted" if reserved_corner else "default-missing",
                 f"option {k!r} has no value after construction (D={x.D})")
            continue
        try:
            want = fresh_default(k, x.D, store)
        except Exception as ex:
            find("reserved-name-useroptions-accepted" if reserved_corner else "default-mismatch",
                 f"default of {k!r} cannot be evaluated on the instance's own options: {ex!r}")
            continue
        if fp(want) != fp(store[k]):
            if _normalised(k, False, None, store[k], store):
                continue
            other = [d for d in range(1, 9) if d != x.D and "D" in F["deps"][k] and _safe_eq(k, d, store, store[k])]
            if other:
                find("default-not-own-D", f"option {k!r} of an instance with D={x.D} holds {store[k]!r}, its default for D={other[0]} "
                                          f"(own-D default: {want!r})")
            else:
                find("default-mismatch", f"option {k!r} (not supplied by the user, D={x.D}) holds {store[k]!r}; its documented default "
                                         f"{F['text'][k].strip()!r} evaluates to {want!r} on this instance's options")
    for k in store:
        if k not in F["code"] and k not in user:
            find("default-mismatch", f"BADS.options has a key {k!r} that neither file defines and the user did not supply")


def _safe_eq(k, d, store, v):
    try:
        return fp(fresh_default(k, d, store)) == fp(v)
    except Exception:
        return False


def check_alone(sc, res, find, subprocess_too=False, failed_too=True):
    """Each instance's options right after ITS construction must equal what the same construction gives
    alone in a fresh interpreter state (global D unbound, no other instance)."""
    from pybads.bads.bads import BADS
    for op in sc["ops"]:
        if op["op"] != "construct" or op["i"] not in res["live"]:
            continue
        x = res["live"][op["i"]]
        if x.D != op["D"] or x.u != op.get("u"):
            continue                                   # slot re-used by a later construction
        reset_global_D(None)
        np.random.seed(1)
        prob = build_problem(op["prob"])
        try:
            alone = BADS(Target(x.target.mode), prob["x0"], prob["lb"], prob["ub"], prob["plb"], prob["pub"], options=x.user)
        except Exception as ex:
            find("not-equal-to-alone", f"instance {x.i} was constructed among others but the same construction alone raises {ex!r}")
            continue
        a = snapshot(alone)
        for k in set(a) | set(x.snap0):
            if k not in a or k not in x.snap0 or a[k][1] != x.snap0[k][1]:
                find("not-equal-to-alone",
                     f"option {k!r} of instance {x.i} (D={x.D}) after construction among other instances is "
                     f"{x.snap0.get(k, ('<missing>',))[0]!r}; constructed alone it is {a.get(k, ('<missing>',))[0]!r}")
                break
    if failed_too:
        check_failed_alone(sc, res, find)
    if subprocess_too:
        msg = alone_in_subprocess(sc, res)
        if msg:
            find("not-equal-to-alone", msg)


_SUB_BUDGET = [3]


def check_failed_alone(sc, res, find):
    """A construction with only defined names that FAILS in this process history must also fail alone in a
    fresh interpreter; otherwise earlier instances changed what this one sees.  (At most a few
    subprocesses per check; never needed on a tree where valid constructions succeed.)"""
    F = files()
    for (op, outcome, _) in res["steps"]:
        if op["op"] != "construct" or outcome == "Done" or _SUB_BUDGET[0] <= 0:
            continue
        u = op.get("u")
        names = [] if u is None else [k for k, _ in sc["callers"][u]]
        if any(k not in F["code"] for k in names):
            continue
        _SUB_BUDGET[0] -= 1
        one = dict(callers=sc["callers"], ops=[dict(op)], g0=None, np_seed=sc.get("np_seed", 1))
        out = _subprocess_scenario(one)
        if out is not None and out.get("outcome") == "Done":
            find("not-equal-to-alone",
                 f"constructing instance {op['i']} (D={op['D']}, options {names[:6]}) raises {outcome} in this process history "
                 f"but succeeds alone in a fresh interpreter")


def _subprocess_scenario(one):
    code = ("import sys, json, warnings; warnings.simplefilter('ignore'); sys.path.insert(0, %r); sys.path.insert(0, %r); "
            "from harness import comp_options as C; "
            "sc = json.loads(sys.stdin.read()); r = C.t2_run(sc, want_codes=False); "
            "x = r['live'].get(sc['ops'][0]['i']); "
            "print('@@' + json.dumps(dict(outcome=r['steps'][0][1], snap=(None if x is None else C.plain_repr(x.snap0)))))"
            % (str(core.VERIF), str(core.REPO)))
    rc, out = core.sh([core.PY, "-c", code], input=json.dumps(one), timeout=300, env={"VERIF_REPO": str(core.REPO)})
    line = [ln for ln in out.splitlines() if ln.startswith("@@")]
    if rc != 0 or not line:
        return None
    return json.loads(line[-1][2:])


def run_history(scenarios):
    """Run scenarios one after the other in THIS process (state left behind by one is seen by the next) with
    the monitor on; -> [(scenario index, key, what)]."""
    import warnings
    out = []
    with warnings.catch_warnings():
        warnings.simplefilter("ignore")
        for n, sc in enumerate(scenarios):
            res = t2_run(sc, {}, want_codes=False)
            f = list(res["findings"])
            check_alone(sc, res, lambda k, w: f.append((k, w)))
            out += [(n, k, w) for k, w in f]
            res["live"].clear()
    return out


def history_in_subprocess(scenarios, timeout=600):
    """The same in a fresh interpreter (what `./check C20 --replay` will see)."""
    code = ("import sys, json; sys.path.insert(0, %r); sys.path.insert(0, %r); from harness import comp_options as C; "
            "print('@@' + json.dumps(C.run_history(json.loads(sys.stdin.read()))))" % (str(core.VERIF), str(core.REPO)))
    rc, out = core.sh([core.PY, "-c", code], input=json.dumps(scenarios), timeout=timeout,
                      env={"VERIF_REPO": str(core.REPO), "PYBADS_VERIF": "1"})
    line = [ln for ln in out.splitlines() if ln.startswith("@@")]
    if rc != 0 or not line:
        return None
    return [tuple(x) for x in json.loads(line[-1][2:])]


def confirm_replay(small, full, history, key, max_sub=14):
    """-> (scenarios, what) such that running `scenarios` in a fresh interpreter reports `key`, trying the
    shrunk scenario alone, the full one alone, then growing suffixes of the process history; None if even
    the whole history does not reproduce it in a fresh interpreter."""
    used = [0]

    def rep(scs):
        if used[0] >= max_sub:
            return None
        used[0] += 1
        got = history_in_subprocess(scs)
        hit = [w for _, k, w in (got or []) if k == key]
        return hit[0] if hit else None

    for cand in ([small], [full]):
        w = rep(cand)
        if w:
            return cand, w
    n, best = 1, None
    while best is None:
        cand = history[-n:] + [full]
        w = rep(cand)
        if w:
            best = (cand, w)
            break
        if n >= len(history):
            return None
        n = min(2 * n, len(history))
    cand, w = best
    j = 0
    while j < len(cand) - 1 and len(cand) > 1:                       # drop history entries that are not needed
        t = cand[:j] + cand[j + 1:]
        w2 = rep(t)
        if w2:
            cand, w = t, w2
        else:
            j += 1
        if used[0] >= max_sub:
            break
    return cand, w


def plain_repr(snap):
    """repr-based rendering of a snapshot that is comparable ACROSS processes (no ids)."""
    def r(v):
        if isinstance(v, Tag):
            return repr(v)
        if isinstance(v, np.ndarray):
            return ("nd", str(v.dtype), v.shape, v.tolist().__repr__())
        if callable(v) and hasattr(v, "__code__"):
            return ("fn", v.__code__.co_code.hex(), repr(v.__code__.co_consts))
        if isinstance(v, (list, tuple)):
            return (type(v).__name__, [r(x) for x in v])
        if isinstance(v, dict):
            return ("dict", [(repr(k), r(x)) for k, x in v.items()])
        return (type(v).__name__, repr(v))
    return {k: repr(r(v[0])) for k, v in sorted(snap.items())}


def alone_in_subprocess(sc, res):
    """Thorough tier: re-construct every instance of the scenario alone in a NEW interpreter."""
    for op in sc["ops"]:
        if op["op"] != "construct" or op["i"] not in res["live"]:
            continue
        x = res["live"][op["i"]]
        if x.D != op["D"] or x.u != op.get("u"):
            continue
        one = dict(callers=sc["callers"], ops=[dict(op)], g0=None, np_seed=sc.get("np_seed", 1))
        got = _subprocess_scenario(one)
        if got is None:
            return f"subprocess construction of instance {x.i} could not be evaluated"
        alone = got.get("snap")
        mine = plain_repr(x.snap0)
        if alone != mine:
            ks = [k for k in set(alone or {}) | set(mine) if (alone or {}).get(k) != mine.get(k)]
            return (f"instance {x.i} (D={x.D}) differs from the same construction in a fresh interpreter on {ks[:4]}: "
                    f"{[(mine.get(k), (alone or {}).get(k)) for k in ks[:2]]}")
    return None


# ---------------------------------------------------------------------------- T2 generators

def t2_gen_single(rng, idx, key=None):
    """One construction; `key` forces that option into the override set (the all-names sweep)."""
    F = files()
    D = 1 + idx % 6 if key is not None else rng.randint(1, 6)
    size = rng.choice([0, 1, 2, 4, 8, 16, 40]) if idx % 11 else len(F["keys"])
    names = rng.sample(F["keys"], min(size, len(F["keys"])))
    if key is not None and key not in names:
        names.insert(rng.randrange(len(names) + 1), key)
    return dict(callers=[_gen_caller(rng, names, D, 0)], g0=rng.choice([None, None, 7]),
                ops=[dict(op="construct", i=0, D=D, u=0, prob=gen_problem(rng, D))], np_seed=rng.randint(0, 10 ** 6))


def _gen_caller(rng, names, D, base):
    specs = []
    for j, k in enumerate(names):
        specs.append([k, gen_value(rng, k, base + j + 1, D)])
    ks = dict((k, v) for k, v in specs)
    # keep combinations the constructor accepts (what it rejects / crashes on here is C08/C09's business):
    # declared target noise needs uncertainty_handling = True and no scalar noise_size
    if ks.get("specify_target_noise") == ["bool", True]:
        specs = [[k, (["bool", True] if k == "uncertainty_handling" else ["none"] if k == "noise_size" else v)] for k, v in specs]
        if "uncertainty_handling" not in ks:
            specs.insert(rng.randrange(len(specs) + 1), ["uncertainty_handling", ["bool", True]])
    return specs


def _misspell(rng, k):
    ch = rng.choice(["drop", "case", "suffix", "prefix", "dash", "space"])
    if ch == "drop" and len(k) > 3:
        j = rng.randrange(len(k))
        return k[:j] + k[j + 1:]
    if ch == "case":
        return k.upper() if rng.random() < 0.5 else k.capitalize()
    if ch == "suffix":
        return k + rng.choice(["_", "s", "2"])
    if ch == "dash":
        return k.replace("_", "-", 1) if "_" in k else k + "-"
    if ch == "space":
        return k + " "
    return rng.choice(["opt_", "the", "x"]) + k


def t2_gen_unknown(rng, idx):
    F = files()
    D = rng.randint(1, 6)
    names = rng.sample(F["keys"], rng.choice([0, 1, 3, 8]))
    specs = _gen_caller(rng, names, D, 0)
    for j in range(rng.choice([1, 1, 2])):
        bad = _misspell(rng, rng.choice(F["keys"]))
        if bad in F["code"] or bad == RESERVED or any(bad == k for k, _ in specs):
            bad = "no_such_option_%d" % j
        specs.insert(rng.randrange(len(specs) + 1), [bad, ["tag", 900 + j]])
    return dict(callers=[specs], g0=None, ops=[dict(op="construct", i=0, D=D, u=0, prob=gen_problem(rng, D))],
                np_seed=rng.randint(0, 10 ** 6))


def t2_gen_reserved(rng, idx):
    """The reserved name in the user's dict (repaired finding): must be rejected whatever its value."""
    F = files()
    D = rng.randint(1, 4)
    safe = [k for k in reserved_safe_keys() if k not in consumed_keys()]
    if idx % 3 == 2:
        val = ["int", 5]
    else:
        val = ["set", sorted(rng.sample(safe, min(len(safe), rng.choice([0, 1, 3]))) +
                             (rng.sample(sorted(F["basic_keys"]), 1) if idx % 2 else []))]
    specs = _gen_caller(rng, rng.sample(safe, min(len(safe), rng.choice([0, 2]))), D, 0)
    specs.insert(rng.randrange(len(specs) + 1), [RESERVED, val])
    return dict(callers=[specs], g0=None, ops=[dict(op="construct", i=0, D=D, u=0, prob=gen_problem(rng, D))],
                np_seed=rng.randint(0, 10 ** 6))


RUNSAFE = {
    "max_iter": lambda r, D, noisy: ["int", r.randint(40, 90)],
    "tol_fun": lambda r, D, noisy: ["float", r.choice([1e-3, 2e-3, 5e-3, 1e-2])],
    "tol_mesh": lambda r, D, noisy: ["float", r.choice([1e-6, 1e-5, 1e-4])],
    "n_train_max": lambda r, D, noisy: ["int", r.randint(60, 150)],
    "n_train_min": lambda r, D, noisy: ["int", r.randint(20, 50)],
    "noise_final_samples": lambda r, D, noisy: ["int", r.randint(2, 5)],
    "tol_stall_iters": lambda r, D, noisy: ["int", r.randint(3, 8)],
    "fun_eval_start": lambda r, D, noisy: ["int", r.randint(1, 5)],
    "random_seed": lambda r, D, noisy: ["int", r.randint(1, 10 ** 6)],
    "cache_size": lambda r, D, noisy: ["int", r.randint(100, 600)],
    "accelerate_mesh": lambda r, D, noisy: ["bool", r.random() < 0.5],
    "complete_poll": lambda r, D, noisy: ["bool", r.random() < 0.5],
    "buffer_ntrain": lambda r, D, noisy: ["int", r.randint(50, 150)],
    "mesh_noise_multiplier": lambda r, D, noisy: ["float", r.choice([0.25, 0.5, 0.75])],
    "mesh_overflow_warning": lambda r, D, noisy: ["float", r.choice([3.0, 4.0])],
    "min_failed_poll_steps": lambda r, D, noisy: ["int", r.randint(2, 6)],
    "stobads": lambda r, D, noisy: ["bool", r.random() < 0.5],
    "n_search_iter": lambda r, D, noisy: ["int", r.choice([2, 3, 4])],
    "es_start": lambda r, D, noisy: ["float", r.choice([0.25, 0.5])],
    "n_search": lambda r, D, noisy: ["int", r.choice([64, 256])],
    # a user-supplied jitter for a DETERMINISTIC target (the code fills noise_size in only when it is None)
    "noise_size": lambda r, D, noisy: (["none"] if noisy else ["float", r.choice([1e-3, 0.5, 2.0])]),
}


def t2_gen_multi(rng, idx, runs):
    """2-3 instances with different D and overrides, constructed (and run) in a random order; one caller
    dict may be handed to two constructions."""
    F = files()
    n = rng.choice([2, 2, 3])
    Ds = rng.sample(range(1, 7), n) if rng.random() < 0.7 else [rng.randint(1, 6) for _ in range(n)]   # sometimes equal D
    callers, ops = [], []
    for i in range(n):
        noisy = runs and rng.random() < 0.5
        if runs:
            names = rng.sample(sorted(RUNSAFE), rng.randint(0, 6)) + rng.sample(UNREAD, rng.randint(0, 3))
            if not noisy and rng.random() < 0.5 and "noise_size" not in names:
                names.append("noise_size")
            if rng.random() < 0.5 and "n_search_iter" not in names:
                names.append("n_search_iter")          # >= 3 generations: the evolution strategy adapts its step size during the run
            specs = [[k, (RUNSAFE[k](rng, Ds[i], noisy) if k in RUNSAFE else gen_value(rng, k, i * 100 + j + 1, Ds[i]))]
                     for j, k in enumerate(names)]
            specs += [["display", ["str", "off"]], ["max_fun_evals", ["int", rng.randint(45, 60) if noisy else rng.randint(15, 25)]]]
            if noisy:
                specs.append(["uncertainty_handling", ["bool", True]])
                if rng.random() < 0.3 and Ds[i] > 1:
                    specs.append(["specify_target_noise", ["bool", True]])
            rng.shuffle(specs)
        else:
            names = rng.sample(F["keys"], rng.choice([0, 1, 3, 8, 20]))
            if rng.random() < 0.5:
                names = list(dict.fromkeys(names + rng.sample(_dkeys(), 3) + ["tol_fun"]))
            specs = _gen_caller(rng, names, Ds[i], i * 100)
        callers.append(specs)
    order = list(range(n))
    rng.shuffle(order)
    share = n == 3 and not runs and rng.random() < 0.3         # instance 2 re-uses instance 0's dict OBJECT
    for i in order:
        ops.append(dict(op="construct", i=i, D=Ds[i], u=(0 if (share and i == 2) else i),
                        prob=gen_problem(rng, Ds[i]) if not runs else dict(gen_problem(rng, Ds[i]), box=rng.choice(["plain", "edge", "tight", "log"]))))
    if share:
        callers[0] = [[k, v] for k, v in callers[0] if v[0] != "default"]
    if runs:
        rs = [dict(op="run", i=i) for i in order if rng.random() < 0.8] or [dict(op="run", i=order[0])]
        if rng.random() < 0.3:
            rs.append(dict(op="run", i=rs[0]["i"]))              # the same instance twice
        for r in rs:                                             # interleave runs with the remaining constructions
            first = max(j for j, o in enumerate(ops) if o["op"] == "construct" and o["i"] == r["i"]) + 1
            ops.insert(rng.randint(first, len(ops)), r)
    elif rng.random() < 0.25:                                    # re-construct an existing slot with another D
        i = rng.choice(order)
        ops.append(dict(op="construct", i=i, D=rng.randint(1, 6), u=i, prob=gen_problem(rng, 1)))
        ops[-1]["prob"]["D"] = ops[-1]["D"]
    return dict(callers=callers, g0=rng.choice([None, None, 9]), ops=ops, np_seed=rng.randint(0, 10 ** 6))


def _dkeys():
    F = files()
    if "dkeys" not in F:
        F["dkeys"] = [k for k in F["keys"] if "D" in F["deps"][k]]
    return F["dkeys"]


# ---------------------------------------------------------------------------- T2 Coq literal

def _t2_val(spec, tag):
    if spec[0] == "set":
        return "(VSet " + clist([cstr(x) for x in spec[1]]) + ")"
    return f"(VUser {cz(tag)})"


def t2_coq_case(sc, res):
    cs = []
    for u, specs in enumerate(sc["callers"]):
        cs.append(f"({u}%nat, " + clist(["(" + cstr(k) + ", " + (_t2_val(v, res["tags"][(u, k)])) + ")" for k, v in specs]) + ")")
    ops, exp = [], []
    for op, outcome, snaps in res["steps"]:
        if op["op"] == "construct":
            ops.append(f"(BConstruct {op['i']}%nat {cz(op['D'])} {_coq_onat(op.get('u'))})")
        else:
            ops.append(f"(BRun {op['i']}%nat " + clist([cstr(k) for k in op["adjusted"]]) + ")")
        sn = clist([f"({j}%nat, " + clist(cds) + ", " + clist([cstr(s) for s in uo]) + ")" for j, cds, uo in snaps])
        exp.append(f"({_coq_outcome(outcome)}, {sn})")
    extra = clist([cstr(k) for k in res["extra"]])
    return f"(({clist(cs)}, {extra}, {clist(ops)}), {clist(exp)})"


T2_CASE_TY = "t2_case"
T2_OK = "t2_ok basic_entries advanced_entries"


# ---------------------------------------------------------------------------- shrinking a failing scenario

def shrink(sc, key, budget=60, seconds=25.0):
    """Delta-debugging style: drop ops (from the end), then chunks of user keys (halving the chunk size),
    as long as the monitor still reports `key`.  Bounded by a number of re-runs and wall time."""
    import time
    t0 = time.time()
    n = [0]

    def bad(s):
        n[0] += 1
        try:
            res = t2_run(s, want_codes=False)
            f = list(res["findings"])
            check_alone(s, res, lambda k, w: f.append((k, w)), failed_too=False)
            return any(k == key for k, _ in f)
        except Exception:
            return False

    def spent():
        return n[0] >= budget or time.time() - t0 > seconds

    cur = json.loads(json.dumps(sc))
    changed = True
    while changed and not spent():
        changed = False
        j = len(cur["ops"]) - 1
        while j >= 0 and len(cur["ops"]) > 1 and not spent():
            t = json.loads(json.dumps(cur))
            del t["ops"][j]
            if bad(t):
                cur, changed = t, True
            j -= 1
        for u in range(len(cur["callers"])):
            chunk = max(1, len(cur["callers"][u]) // 2)
            while chunk >= 1 and not spent():
                j = 0
                while j < len(cur["callers"][u]) and not spent():
                    t = json.loads(json.dumps(cur))
                    del t["callers"][u][j:j + chunk]
                    if bad(t):
                        cur, changed = t, True
                    else:
                        j += chunk
                chunk = chunk // 2 if chunk > 1 else 0
    return cur
