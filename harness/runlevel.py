"""Run-level machinery shared by C01-C06, C09, C10, C13: the skeleton tie (real runs vs Model/Skeleton.v)
and the declarative monitors (each property restated directly on the recorded observables, independent
of the Coq model).  Monitors are used to find concrete failing inputs; they never establish 'holds'."""
from __future__ import annotations

import math

import numpy as np

from harness import skel as S
from vlib import core


def is_target_fault(tr):
    return any(c["out"] is not None and c["out"][0] == "fault" for c in tr["calls"])


def tie_skeleton(ctx, broken, specs_faults, name, need_det_ok=True, extra_valid=None, trs=None):
    """Run/load the traces, compare every one with the skeleton model.  Returns [(trace, parsed|None)].
    trs: traces already recorded for specs_faults by another runner (harness/run_optmatrix.py) - same format."""
    if trs is None:
        trs = S.traces(specs_faults, name)
    out, cases, idx = [], [], []
    shape_errors = []
    for i, tr in enumerate(trs):
        if "harness_exc" in tr:
            shape_errors.append((i, tr["harness_exc"][-400:]))
            out.append((tr, None))
            continue
        if "construct_exc" in tr:
            out.append((tr, None))
            continue
        try:
            P = S.parse(tr)
        except S.TraceShape as ex:
            shape_errors.append((i, str(ex)))
            out.append((tr, None))
            continue
        out.append((tr, P))
        if P["opts"] is None:
            continue
        try:
            inputs = S.c_inputs(P)
            S.c_final(P); S.x_expected(P)
        except (ValueError, TypeError) as ex:
            shape_errors.append((i, "trace holds values outside the model (non-finite state?): " + repr(ex)[:200]))
            continue
        detok = f"(det_ok {inputs})" if (P["opts"]["det"] and need_det_ok and not P["crashed"]) else "true"
        if P["opts"]["det"] and not P["crashed"] and not P["target_fault"]:
            # the two historic-improvement oracles are the rounded difference between the history row the code reads and the incumbent
            detok = f"({detok} && hist_ok {inputs})"
        if not P["crashed"] and not P["target_fault"]:
            # in every noise mode: the code evaluates the stall test / the acceleration test exactly in the iterations the model says
            detok = f"({detok} && window_ok {inputs})"
        if callable(extra_valid):
            ex = extra_valid(tr, P)
            if ex:
                detok = f"({detok} && {ex})"
        elif extra_valid == "noisy" and not P["crashed"] and not P["target_fault"]:
            fin_in = S.c_final(P)
            ini = " ".join(S.c_inputs_parts(P)[:5])
            detok = (f"({detok} && noisy_u_ok {S.c_opts(P['opts'])} (init_phase {ini}) {S.c_inputs_parts(P)[5]} "
                     f"&& final_est_ok (run_full {inputs} {fin_in}))")
        cases.append(f"((run_full_dump {inputs} {S.c_final(P)}, {detok}), {S.x_expected(P)})")
        idx.append(i)
    ok = ctx.oblige(f"trace_shape:{name}", "correspondence", not shape_errors, str(shape_errors[:3]))
    if not ok:
        broken.append((f"trace_shape:{name}", f"{len(shape_errors)} traces do not have the modelled shape: {shape_errors[:2]}"))
    okc, bad, log = core.run_cases(f"skel_{ctx.pid}_{name}", ["PV.Model.Val", "PV.Model.Skeleton", "PV.Model.SkeletonValid", "PV.Model.SkeletonNoisy", "PV.Model.SkeletonHist"] + list(getattr(ctx, "extra_requires", [])),
                                   "(val * bool) * xval", "fun c => snd (fst c) && xval_ok (fst (fst c)) (snd c)", cases, shard=3)
    good = ctx.oblige(f"correspondence:skeleton:{name}", "correspondence", okc and not bad,
                      f"{len(bad)} of {len(cases)} real runs differ from the model; " + log[-400:])
    ctx.coverage["traces_validated_against_impl"] = ctx.coverage.get("traces_validated_against_impl", 0) + len(cases) - len(bad)
    nev = sum(len(P["iters"]) for _, P in out if P is not None and P.get("iters"))
    ctx.coverage["loop_iterations_compared"] = ctx.coverage.get("loop_iterations_compared", 0) + nev
    ctx.bad_traces = getattr(ctx, "bad_traces", []) + [trs[idx[b]] for b in bad]
    from collections import Counter
    bc = Counter(ctx.coverage.get("model_branches_exercised", {}))
    for _, P in out:
        if P is not None:
            bc.update(S.branch_cover(P))
    ctx.coverage["model_branches_exercised"] = dict(sorted(bc.items()))
    if not good:
        where = [trs[idx[b]]["spec"] for b in bad[:2]] if bad else []
        broken.append((f"correspondence:skeleton:{name}", f"model and optimize() differ on {len(bad)} runs, e.g. {where} {log[-300:]}"))
    return out


# ------------------------------------------------------------------------------- monitors

def ncalls_valid(tr):
    return sum(1 for c in tr["calls"] if c["out"] is not None and c["out"][0] == "ok" and "exc" not in c)


def mon_c03(tr):
    if tr.get("exc") and tr["exc"][0] == "LoopGuard":
        return ("non-termination", "optimize() did not terminate: " + tr["exc"][1])
    initd = [e for e in tr.get("events", []) if e[0] == "init_done"]
    if initd and "options0" in tr:
        # the budget clause does not need a result: target calls are counted also when optimize() ends with an exception
        b0, nfs0, n0 = tr["options0"]["max_fun_evals"], tr["options0"]["noise_final_samples"], len(tr["calls"])
        if initd[0][1]["fc"] <= b0 and nfs0 >= 0 and n0 > b0:
            return ("budget", f"{n0} target calls exceed max_fun_evals={b0} (initial design used {initd[0][1]['fc']})"
                              + (f"; optimize() then ended with {tr['exc'][0]}" if tr.get("exc") else ""))
    if "result" not in tr:
        return None
    r, o0, fin = tr["result"], tr["options0"], tr["final"]
    budget = o0["max_fun_evals"]
    fc_init = initd[0][1]["fc"] if initd else 0
    n = len(tr["calls"])
    nfs_user = o0["noise_final_samples"]
    # premises of the property: the budget covers the initial design; noise_final_samples is a count (not negative)
    if fc_init <= budget and nfs_user >= 0 and n > budget:
        return ("budget", f"{n} target calls exceed max_fun_evals={budget} (initial design used {fc_init})")
    # the reserve, restated in the USER's terms: a stochastic run sets aside min(noise_final_samples, budget - initial calls)
    # evaluations for the final re-sampling, the loop gets the rest, a deterministic run reserves nothing
    reserve = 0
    if initd:
        noisy = initd[0][1]["level"] > 0
        reserve = min(nfs_user, budget - fc_init) if noisy else 0
        if initd[0][2]["max_fun_evals"] != budget - reserve or (noisy and initd[0][2]["nfs"] != reserve):
            return ("reserve", f"max_fun_evals={budget}, noise_final_samples={nfs_user}, {fc_init} initial calls, {'stochastic' if noisy else 'deterministic'} target: "
                               f"the loop budget is {initd[0][2]['max_fun_evals']} and the reserve {initd[0][2]['nfs'] if noisy else 0}, expected {budget - reserve} and {reserve}")
        nfinal = sum(1 for c in tr["calls"] if c["phase"] == "final")
        if nfinal not in (0, max(reserve, 0)):
            return ("reserve-spent", f"the final re-sampling made {nfinal} target calls, the reserve is {reserve}")
        nloop = n - nfinal
        if fc_init <= budget and nfs_user >= 0 and nloop > budget - reserve:
            return ("loop-budget", f"{nloop} target calls before the final re-sampling exceed max_fun_evals - reserve = {budget} - {reserve}")
    if r["iterations"] > o0["max_iter"] - 1 + 0 and r["iterations"] > o0["max_iter"]:
        return ("max_iter", f"iterations {r['iterations']} > max_iter {o0['max_iter']}")
    polls = sum(1 for e in tr["events"] if e[0] == "poll_begin")
    if polls > o0["max_iter"]:
        return ("max_iter", f"{polls} poll steps > max_iter {o0['max_iter']}")
    if r["func_count"] != ncalls_valid(tr) or r["func_count"] != n:
        return ("func_count", f"reported func_count {r['func_count']} != true number of target calls {n}")
    m = r["msg_id"]
    if m == -1 or m == 0:
        return ("message", f"termination message is not one of the four stopping conditions: {r['message']!r}")
    eff_budget = initd[0][2]["max_fun_evals"] if initd else budget
    probes = [e for e in tr["events"] if e[0] == "probe"]
    last = probes[-1] if probes else None
    if m == 1 and not (last[2]["fc"] >= eff_budget):
        return ("message", f"message says max_fun_evals reached but func_count {last[2]['fc']} < {eff_budget}")
    if m == 1 and not (last[2]["fc"] >= budget - max(reserve, 0)):
        return ("message", f"message says max_fun_evals reached but the loop stopped at func_count {last[2]['fc']} < max_fun_evals - reserve = {budget} - {reserve}")
    if m == 2 and not (last[1]["poll_iteration"] >= o0["max_iter"] - 1):
        return ("message", f"message says max_iter reached but poll iteration {last[1]['poll_iteration']} < max_iter-1")
    if m == 3 and not (last[2]["mesh"] < initd[0][2]["tol_mesh_state"]):
        return ("message", f"message says tol_mesh but mesh size {last[2]['mesh']} >= {initd[0][2]['tol_mesh_state']}")
    if m == 4:
        stall = None
        for e in tr["events"][::-1]:
            if e[0] == "probe" and e is not last:
                break
            if e[0] == "impr" and e[1] == "loop":
                stall = e[7]
        if stall is None or not (stall < initd[0][2]["tol_fun"]):
            return ("message", f"message says tol_fun stall but historic improvement {stall} >= tol_fun")
        win = initd[0][2].get("tol_stall_iters")
        if win is not None and not (last[1]["poll_iteration"] > win - 1):
            return ("message", f"message says the function value stalled but only {last[1]['poll_iteration']} poll iterations were completed; the stall rule looks back "
                               f"tol_stall_iters = {win} iterations (doubled for stochastic targets)")
    return None


def mon_c03_unspent(tr):
    """message clause in the USER's terms, strict reading: a run that reports "reached max_fun_evals" has made max_fun_evals target
    calls.  Kept apart from mon_c03 (it is an open known finding: a stochastic run that stops before the first poll iteration completes
    never spends its reserve) so that it can never hide another violation."""
    if "result" not in tr or tr["result"]["msg_id"] != 1:
        return None
    o0 = tr["options0"]
    budget, nfs_user = o0["max_fun_evals"], o0["noise_final_samples"]
    initd = [e for e in tr["events"] if e[0] == "init_done"]
    if not initd or nfs_user < 0 or initd[0][1]["fc"] > budget:
        return None
    n = len(tr["calls"])
    if n < budget:
        return ("message-budget-unspent-reserve",
                f"message says max_fun_evals reached but only {n} of max_fun_evals={budget} target calls were made: {initd[0][2]['nfs']} evaluations were reserved for the "
                f"final re-sampling, which did not run (the loop stopped in iteration {tr['result']['iterations']})")
    return None


def mon_c13(tr):
    ev = tr["events"]
    initd = [e for e in ev if e[0] == "init_done"]
    if not initd:
        return None
    o0 = tr["options0"]
    maxgrid = o0["max_poll_grid_number"]
    prev_k = None
    i = 0
    polled_since_probe = False
    last_probe_k = initd[0][1]["k"]
    while i < len(ev):
        e = ev[i]
        if e[0] in ("poll_begin", "search_begin"):
            # when a search or poll step starts, the search mesh every consumer reads (optim_state) is the power of two the exponent
            # says, is what the object holds, and does not exceed the poll mesh
            sn = e[1]
            for nm in ("smesh", "smesh_attr"):
                if sn.get(nm) is not None and (sn[nm] != 2.0 ** sn["ks"] or sn[nm] > sn["mesh"]):
                    return ("search-mesh", f"at {e[0]}: search mesh size {nm}={sn[nm]} but search_size_integer={sn['ks']} (2^ks = {2.0 ** sn['ks']}), poll mesh {sn['mesh']}")
        if e[0] == "poll_begin":
            polled_since_probe = True
            kb, SI, piter = e[1]["k"], e[1]["SI"], None
            imprs, raw_imprs, ncall, call_ids = [], [], 0, []
            j = i + 1
            while ev[j][0] != "poll_end":
                if ev[j][0] == "impr" and ev[j][1] == "poll":
                    imprs.append(ev[j][7])
                    raw_imprs.append(ev[j])
                if ev[j][0] == "call" and ev[j][1] == "poll":
                    ncall += 1
                    call_ids.append(ev[j][2])
                j += 1
                if j >= len(ev):
                    return None  # the poll died (exception): nothing to check
            ka = ev[j][1]["k"]
            if ev[j][1].get("level", 0) > 0:
                # stochastic target (declared, specified or found by the run-time test): every polled point is judged on a GP estimate,
                # which carries a positive predictive SD -- never on the raw observation with SD 0
                # (a GP whose predictive variance underflows to exactly 0 is not this: the clause needs the estimate to BE the observation)
                for r_, cid in zip(raw_imprs[:ncall], call_ids):
                    c_ = tr["calls"][cid - 1] if 0 < cid <= len(tr["calls"]) else None
                    yraw = c_["ret"][0] if c_ and c_.get("ret") else None
                    if (r_[5] is None or not (r_[5] > 0)) and yraw is not None and r_[3] == yraw:
                        return ("noisy-poll-on-raw-sample", f"stochastic target (level {ev[j][1]['level']}): a polled point was judged with SD {r_[5]} (estimate {r_[3]}), i.e. on the raw observation")
            if len(imprs) > ncall and raw_imprs[ncall][3] != ev[j][1]["fval"] and not (math.isnan(raw_imprs[ncall][3]) and math.isnan(ev[j][1]["fval"])):
                # the stalling test of a failed poll compares a recorded iterate with the CURRENT incumbent estimate (all noise modes)
                return ("stall-test-stale-incumbent", f"mesh-acceleration test of a poll compared the history with {raw_imprs[ncall][3]} while the incumbent estimate is {ev[j][1]['fval']}")
            per_call = imprs[:ncall]
            best = max([0.0] + per_call)
            good = best > SI
            if good:
                exp = {min(kb + 1, maxgrid)}
            else:
                exp = {kb - 1}
                if len(imprs) > ncall and imprs[ncall] < o0["tol_fun"] and o0["accelerate_mesh"]:
                    exp = {kb - 2}
            if ka not in exp:
                return ("poll-update", f"poll with best improvement {best} vs sufficient {SI}: mesh exponent {kb} -> {ka}, expected {sorted(exp)}")
            if ev[j][1]["mesh"] != 2.0 ** ka:
                return ("mesh-power", f"mesh size {ev[j][1]['mesh']} is not 2^{ka}")
            i = j
        elif e[0] == "probe":
            s = e[2]
            if s["k"] > maxgrid or s["mesh"] > 2.0 ** maxgrid:
                return ("mesh-cap", f"mesh exponent {s['k']} above the cap {maxgrid}")
            if s["ks"] > s["k"]:
                return ("search-mesh", f"search mesh exponent {s['ks']} exceeds poll mesh exponent {s['k']}")
            if not polled_since_probe and s["k"] != last_probe_k and o0["search_mesh_expand"] == 0:
                return ("non-poll-change", f"mesh exponent changed {last_probe_k} -> {s['k']} in an iteration without a poll")
            last_probe_k = s["k"]
            polled_since_probe = False
        i += 1
    if "result" in tr and tr["result"].get("mesh_size") is not None and tr["result"]["mesh_size"] != 2.0 ** last_probe_k:
        return ("non-poll-change", f"reported mesh size {tr['result']['mesh_size']} differs from the mesh size after the last poll 2^{last_probe_k}")
    tol_user = float(o0["tol_mesh"])
    if "result" in tr and tr["result"]["msg_id"] == 3 and not (tr["result"]["mesh_size"] < tol_user):
        return ("tolmesh-msg", f"stopped by tol_mesh but final mesh {tr['result']['mesh_size']} >= tol_mesh {tol_user}")
    ts = initd[0][2]["tol_mesh_state"]
    if not (ts / 2 < tol_user <= ts):
        return ("tolmesh-snap", f"internal mesh tolerance {ts} is not the least power of two >= tol_mesh {tol_user}")
    return None


def mon_c04(tr):
    if "result" not in tr:
        return None
    if tr["spec"].get("noise", "det") == "det" and tr["final"]["level"] != 0:
        # whether the target is deterministic is a fact about the TARGET (the harness knows it), not what the optimiser concluded
        return ("fsd-type", f"an exactly repeatable target was handled as stochastic (uncertainty level {tr['final']['level']}, target_type {tr['result'].get('target_type')!r})")
    if tr["final"]["level"] != 0:
        return None
    r = tr["result"]
    vals = [(c["xo"], c["out"][1]) for c in tr["calls"] if c["out"] and c["out"][0] == "ok"]
    hit = [y for xo, y in vals if xo == r["x"]]
    if not hit:
        return ("x-not-evaluated", f"returned x {r['x']} is not a point at which the target was called")
    if r["fval"] not in hit:
        return ("fval-not-observed", f"returned fval {r['fval']} is not the value the target returned at x ({hit})")
    m = min(y for _, y in vals)
    if m < r["fval"]:
        return ("not-best", f"an evaluated point has value {m} < returned fval {r['fval']}")
    if r["fsd"] != 0 or r["target_type"] != "deterministic":
        return ("fsd-type", f"fsd {r['fsd']} / target_type {r['target_type']}")
    h = [v for v in tr["final"]["hist"]["fval"] if v is not None]
    if any(b > a for a, b in zip(h, h[1:])):
        return ("history-increase", f"recorded incumbent value increases: {h}")
    if vals and r["fval"] > vals[0][1]:
        return ("worse-than-start", f"returned fval {r['fval']} worse than the starting point value {vals[0][1]}")
    return None


FAULT_EXC = dict(raise_="TargetFault", raise_key="KeyError")


def mon_c10(tr):
    f = tr.get("fault")
    if not f or not is_target_fault(tr):
        return None
    k, kind = f["at"], f["kind"]
    exc = tr.get("exc") or tr.get("construct_exc")
    if exc is None:
        return ("fault-swallowed", f"fault {kind} at call {k}: optimize() returned normally")
    want = {"raise": "TargetFault", "raise_key": "KeyError", "raise_stop": "StopIteration", "raise_index": "IndexError",
            "raise_noargs": "NotImplementedError", "raise_valsub": "LinAlgError"}.get(kind, "ValueError")
    if exc[0] != want:
        return ("exception-type", f"fault {kind} at call {k}: {exc[0]} ({exc[1][:80]}) propagated instead of {want}")
    if len(tr["calls"]) != k:
        return ("called-again", f"fault {kind} at call {k}: target was called {len(tr['calls'])} times")
    if "final" in tr:
        if tr["final"]["snap"]["fc"] != k - 1:
            return ("func_count", f"fault {kind} at call {k}: func_count {tr['final']['snap']['fc']} != {k - 1} valid calls")
        if any((v is None or not math.isfinite(v)) for v in tr["final"]["logY"]):
            return ("invalid-logged", "a non-finite value was logged")
        if len(tr["final"]["logY"]) > k - 1:
            return ("invalid-logged", f"fault {kind} at call {k}: the log holds {len(tr['final']['logY'])} rows after only {k - 1} valid calls")
    return None


def box_of(tr):
    p = tr["problem"]
    return np.array(p["lb_orig"]), np.array(p["ub_orig"])


def mon_c01(tr):
    if "problem" not in tr:
        return None
    lb, ub = box_of(tr)
    for c in tr["calls"]:
        x = np.array(c["xo"])
        if np.any(x < lb) or np.any(x > ub) or np.any(np.isnan(x)):
            return ("target-arg-outside", f"target called at {c['xo']} outside [{lb.tolist()}, {ub.tolist()}] (call {c['i']}, phase {c['phase']})")
    for cc in tr["cons_calls"]:
        for row in cc["rows"]:
            x = np.array(row)
            if np.any(x < lb) or np.any(x > ub) or np.any(np.isnan(x)):
                return ("constraint-arg-outside", f"constraint function called at {row} outside the hard box (phase {cc['phase']})")
    if "result" in tr:
        x = np.array(tr["result"]["x"])
        if np.any(x < lb) or np.any(x > ub):
            return ("result-outside", f"returned x {x.tolist()} outside the hard box")
    if "final" in tr:
        ilb, iub = np.array(tr["problem"]["lb"]), np.array(tr["problem"]["ub"])
        for u, xo in zip(tr["final"]["logX"], tr["final"]["logXo"]):
            u = np.array(u)
            if np.any(u < ilb) or np.any(u > iub):
                return ("logged-internal-outside", f"logged internal point {u.tolist()} outside the transformed box")
    return None


def mon_c02(tr):
    if tr["spec"].get("cons") is None:
        return None
    from harness.trace import make_problem
    _, _, cons, _ = make_problem(tr["spec"])
    for c in tr["calls"]:
        if float(np.atleast_1d(cons(np.atleast_2d(np.array(c["xo"]))))[0]) > 0:
            return ("infeasible-evaluated", f"target called at infeasible point {c['xo']} (call {c['i']}, phase {c['phase']})")
    if "result" in tr and float(np.atleast_1d(cons(np.atleast_2d(np.array(tr["result"]["x"]))))[0]) > 0:
        return ("infeasible-returned", f"returned x {tr['result']['x']} violates the constraint")
    return None


def mon_c09(tr):
    if is_target_fault(tr):
        return None
    if "construct_exc" in tr:
        return ("construct", f"valid problem rejected/crashed at construction: {tr['construct_exc']}")
    exc = tr.get("exc")
    if exc and exc[0] != "LoopGuard":
        return (f"{exc[0]}@{exc[2]}", f"optimize() failed with {exc[0]}: {exc[1][:120]} in {exc[2]}")
    return None


def mon_c05(tr):
    if "result" not in tr or tr["final"]["level"] == 0:
        return None
    r, fin = tr["result"], tr["final"]
    calls = tr["calls"]
    nfs = int(fin["nfs"])
    xs = [c["xo"] for c in calls]
    last_probe = [e for e in tr["events"] if e[0] == "probe"][-1]
    if last_probe[1]["poll_iteration"] == 0:
        return None   # no final re-sampling when the run stops in iteration 0 (model premise)
    if nfs > 0:
        tail = calls[-nfs:]
        if any(c["xo"] != r["x"] for c in tail):
            return ("tail-not-at-x", f"the last {nfs} target calls are not all at the returned x")
        if r["x"] not in xs[:-nfs]:
            return ("x-not-evaluated-earlier", "returned x was not evaluated before the final re-sampling")
        fresh = [c["out"][1] for c in tail]
        yv = r["yval_vec"]
        if yv is None:
            return ("yval_vec-missing", "yval_vec is None although noise_final_samples > 0")
        if nfs == 1:
            if len(yv) != 2 or yv[0] != fresh[0]:
                return ("yval_vec", f"yval_vec {yv} does not start with the fresh observation {fresh}")
            earlier = [c["out"][1] for c in calls[:-1] if c["xo"] == r["x"]]
            logged = [y for xo, y in zip(fin["logXo"], fin["logY"]) if xo == r["x"]]
            if yv[1] not in earlier and yv[1] not in logged:
                return ("yval_vec-supplement", f"supplement {yv[1]} is not an earlier observation at x")
        elif list(yv) != fresh:
            return ("yval_vec", f"yval_vec {yv} != fresh observations {fresh}")
        mean = float(np.mean(np.array(yv)))
        sem = float(np.std(np.array(yv)) / np.sqrt(len(yv)))
        if abs(r["fval"] - mean) > 1e-12 * (1 + abs(mean)) or abs(r["fsd"] - sem) > 1e-12 * (1 + abs(sem)):
            return ("mean-sem", f"fval/fsd {r['fval']}/{r['fsd']} != mean/SEM {mean}/{sem} of yval_vec")
        if tr["spec"]["noise"] == "specified":
            sds = [c["out"][2] for c in tail]
            ys = r["ysd_vec"]
            if ys is None or list(ys)[:nfs] != sds:
                return ("ysd_vec", f"ysd_vec {ys} does not hold the SDs the target reported {sds}")
    else:
        if r["x"] not in xs:
            return ("x-not-evaluated-earlier", "returned x was never evaluated")
    return None


# ------------------------------------------------------------------------------- plug-in helpers

def apply_monitor(ctx, out, mon, only_first=True):
    """Run a monitor over traces; register violations (concrete replays).  Returns number of hits."""
    hits = 0
    for tr, _ in out:
        if "harness_exc" in tr:
            continue
        try:
            r = mon(tr)
        except Exception as ex:  # a monitor crash is a harness problem: report loudly, never pass silently
            ctx.notes.append(f"monitor {mon.__name__} crashed on {tr['spec']}: {ex!r}")
            ctx.oblige(f"monitor:{mon.__name__}", "harness", False, repr(ex))
            continue
        if r:
            hits += 1
            key, what = r
            ctx.violate(key, what, dict(kind="run", spec=tr["spec"], fault=tr.get("fault"),
                                        how="cd /verif && ./check %s --replay <this file>" % ctx.pid))
            if only_first:
                break
    return hits


def count_runs(ctx, out, nontrivial):
    seen = set()
    for tr, P in out:
        key = repr((tr.get("spec"), tr.get("fault")))
        if key in seen:
            continue
        seen.add(key)
        ctx.count(1, 1 if nontrivial(tr, P) else 0)
    for tr, P in out[:2]:
        if "result" in tr:
            ctx.sample(dict(spec=tr["spec"], result={k: tr["result"][k] for k in ("fval", "func_count", "iterations", "msg_id")},
                            loop_iterations=len(P["iters"]) if P else None))


def generic_replay(ctx, rp, mons):
    r = rp["replay"]
    tr = S._run_one((r["spec"], r.get("fault")))
    if "harness_exc" in tr:
        print(tr["harness_exc"])
        return 2
    bad = 0
    for mon in mons:
        m = mon(tr)
        print(f"replay {mon.__name__}:", m or "holds on this input")
        bad |= bool(m)
    print("exc:", tr.get("exc"), "result:", tr.get("result"))
    return 1 if bad else 0


def truncate_search(ctx, mon, extra_specs=()):
    """Directed search for a concrete failing input: for every run on which model and code differ, re-run the same
    problem with the budget cut at each loop iteration's func_count (so the run ends right where the behaviours may
    have diverged) and with max_iter cut likewise; apply the monitor to each truncated run."""
    plan = []
    for tr in getattr(ctx, "bad_traces", [])[:4]:
        spec = tr["spec"]
        fcs = sorted({e[2]["fc"] for e in tr.get("events", []) if e[0] == "probe"})
        its = sorted({e[1]["poll_iteration"] for e in tr.get("events", []) if e[0] == "probe"})
        for fc in fcs[:16]:
            o = dict(spec.get("options", {}), max_fun_evals=int(fc))
            plan.append((dict(spec, options=o), tr.get("fault")))
            o2 = dict(spec.get("options", {}), max_fun_evals=int(fc) + 1)
            plan.append((dict(spec, options=o2), tr.get("fault")))
        for it in its[:8]:
            o = dict(spec.get("options", {}), max_iter=int(it) + 1)
            plan.append((dict(spec, options=o), tr.get("fault")))
    plan += [(s, None) for s in extra_specs]
    if not plan:
        return False
    out = [(tr, None) for tr in S.traces(plan, "trunc")]
    return apply_monitor(ctx, out, mon) > 0


# ------------------------------------------------------------------------------- provenance (C01 / C02)

def c_bnds(v):
    return core.clist(["None" if (x is None or math.isinf(x)) else f"(Some {core.cq(x)})" for x in v])


def noisy_expr(P):
    ini = " ".join(S.c_inputs_parts(P)[:5])
    return f"noisy_u_ok {S.c_opts(P['opts'])} (init_phase {ini}) {S.c_inputs_parts(P)[5]}"


def provenance_expr(tr, P, feas_table=None):
    """Coq boolean: the premises of C01_internal_points_in_box / C02_no_infeasible_call hold on this run:
    each recorded filter call's box is within the hard internal box, every recorded output row is in the hard box,
    every evaluated point is the start or a row of a recorded output; + the noisy side condition."""
    if P["crashed"]:
        return None
    prob = tr["problem"]
    LB, UB = c_bnds(prob["lb"]), c_bnds(prob["ub"])
    fe = [e for e in tr["events"] if e[0] == "filter" and e[1] == "bads"]
    F = core.clist([core.cqmat(e[8]) for e in fe if e[8]])
    boxes = []
    seen = set()
    for e in fe:
        key = (tuple(e[4]), tuple(e[5]))
        if key not in seen:
            seen.add(key)
            boxes.append(f"box_withinb {c_bnds(e[4])} {c_bnds(e[5])} {LB} {UB}")
    parts = S.c_inputs_parts(P)
    expr = (f"(let F := {F} in forallb (fun St => forallb (in_boxb {LB} {UB}) St) F && in_boxb {LB} {UB} {core.cqlist(prob['u0'])} && "
            f"prov_okb {core.cqlist(prob['u0'])} F (eval_points {parts[3]} {parts[5]}) && " + " && ".join(boxes or ["true"]) + f" && {noisy_expr(P)})")
    return expr
