"""Component + run-level correspondence for `contraints_check` (model M5, Model/Filter.v).

Streams (every random choice from the rng handed in; enumeration order is fixed):
  * lattice   exhaustive-by-construction enumeration over the integer lattice {-2..2}^D, D <= 2:
              candidate lists up to length 3 with repetition, boxes from lattice intervals (plus
              half-infinite / infinite sides), logs up to 2 rows, both proj values, tol_mesh 1
              (half-tolerance lattice separates the points) and 4 (neighbours collapse, ties at
              +-1/2), three constraint oracles (none / ball / half-space through a real, exactly
              affine VariableTransformer).  Compact integer literals.
  * random    D <= 4, half-/quarter-integer coordinates so that round() meets ties, several
              power-of-two tolerances, 1-D U input with proj=True (as the search step passes it),
              a few ill-ordered boxes (lb > ub) and infinite sides.
  * table     a log-transformed coordinate: the constraint is evaluated in Python on the REAL inverse
              image of every row the filter can query and handed to the model as a table.
  * nonpow2   tol_mesh that is not a power of two (1e-6 as in the repo's own test, 0.3, 0.1): kept
              only when the float quotient rounds like the exact one (the model divides exactly).
  * run       every contraints_check call of real BADS runs, captured from outside.
The declarative monitor (property restated on observables, independent of the Coq model) runs on
every case of every stream.
"""
from __future__ import annotations

import itertools
import math
from fractions import Fraction

import numpy as np

from vlib.core import cq, clist

LAT = [-2, -1, 0, 1, 2]
INF_CODE = 99          # |z| = 99 in an integer bound list = infinite on that side
NOOP_KEY = "evaluated-point-removal-noop"


# ----------------------------------------------------------------------------- real objects

def affine_vt(D):
    """lb=-4, plb=-2, pub=2, ub=4  =>  ginv(y) = 2*y + 0 (exact), clamped to [-4, 4]."""
    from pybads.variable_transformer import VariableTransformer
    one = np.ones((1, D))
    return VariableTransformer(D, -4.0 * one, 4.0 * one, -2.0 * one, 2.0 * one)


def log_vt(D):
    """coordinate min(1, D-1) is log-transformed (positive bounds spanning two decades)."""
    from pybads.variable_transformer import VariableTransformer
    lb = -4.0 * np.ones((1, D)); ub = 4.0 * np.ones((1, D))
    plb = -2.0 * np.ones((1, D)); pub = 2.0 * np.ones((1, D))
    j = min(1, D - 1)
    lb[0, j], plb[0, j], pub[0, j], ub[0, j] = 0.01, 0.1, 10.0, 100.0
    return VariableTransformer(D, lb, ub, plb, pub)


def cons_ball(X):
    X = np.atleast_2d(X)
    return np.sum(X ** 2, axis=1) - 4.0 * X.shape[1]


def cons_half(X):
    X = np.atleast_2d(X)
    return np.sum(X, axis=1) - 2.0


def cons_logball(X):
    X = np.atleast_2d(X)
    j = min(1, X.shape[1] - 1)
    Z = X.copy()
    Z[:, j] = np.log10(Z[:, j])
    return np.sum(Z ** 2, axis=1) - 1.7


def cons_loghalf(X):
    X = np.atleast_2d(X)
    j = min(1, X.shape[1] - 1)
    Z = X.copy()
    Z[:, j] = np.log10(Z[:, j])
    return np.sum(Z, axis=1) - 0.3


def run_cons_ball(X):
    X = np.atleast_2d(X)
    return np.sum(X ** 2, axis=1) - 2.0 * X.shape[1]       # radius sqrt(2 D): cuts the corners of [-3,3]^D


def run_cons_half(X):
    X = np.atleast_2d(X)
    return np.sum(X, axis=1) - 1.5 * X.shape[1]


def run_vt(D):
    """the transformer BADS builds for the run panel: box [-3,3]^D, plausible [-2,2]^D"""
    from pybads.variable_transformer import VariableTransformer
    one = np.ones((1, D))
    return VariableTransformer(D, -3.0 * one, 3.0 * one, -2.0 * one, 2.0 * one)


CONS = {"ball": cons_ball, "half": cons_half, "logball": cons_logball, "loghalf": cons_loghalf,
        "run:ball": run_cons_ball, "run:half": run_cons_half}
RUN_CONS = {"ball": run_cons_ball, "half": run_cons_half}
# the same regions reported differently: violations as TINY positive numbers (any value > 0 is a violation) and as booleans
CONS["tiny:logball"] = lambda X: cons_logball(X) * 1e-9
CONS["tiny:loghalf"] = lambda X: cons_loghalf(X) * 1e-10
CONS["bool:logball"] = lambda X: cons_logball(X) > 0
CONS_BASE = {"tiny:logball": cons_logball, "tiny:loghalf": cons_loghalf, "bool:logball": cons_logball}
_VT = {}


def get_vt(kind, D):
    if kind == "none":
        return None
    k = (kind, D)
    if k not in _VT:
        _VT[k] = {"affine": affine_vt, "log": log_vt, "run": run_vt}[kind](D)
    return _VT[k]


def make_logger(D, log_rows, vt):
    """A real FunctionLogger whose log holds exactly log_rows (filled by calling it)."""
    from pybads.function_logger import FunctionLogger
    fl = FunctionLogger(lambda x: 0.0, D, False, 0, cache_size=max(4, len(log_rows) + 1), variable_transformer=vt)
    for r in log_rows:
        fl(np.array(r, dtype=float))
    n = len(log_rows)
    if fl.X_max_idx != n - 1 or (n and not np.array_equal(fl.X[:n], np.array(log_rows, dtype=float).reshape(n, D))):
        raise RuntimeError("harness: FunctionLogger did not record the log rows as given")
    return fl


_LOGGERS = {}


def cached_logger(D, log_rows, vtkind):
    k = (D, tuple(map(tuple, log_rows)), vtkind)
    fl = _LOGGERS.get(k)
    if fl is None:
        if len(_LOGGERS) > 20000:
            _LOGGERS.clear()
        fl = _LOGGERS[k] = make_logger(D, log_rows, get_vt(vtkind, D))
    return fl


def lb_arr(lb):
    return np.array([[-math.inf if v is None else float(v) for v in lb]])


def ub_arr(ub):
    return np.array([[math.inf if v is None else float(v) for v in ub]])


def the_function():
    import pybads.function_logger.constraints_check as m
    return m.contraints_check


def run_real(c):
    """Call the REAL contraints_check on case c.  Returns list of rows (floats) or an exception class name."""
    D = c["D"]
    fl = cached_logger(D, c["log"], c["vt"])
    if c.get("oneD"):
        U = np.array(c["U"][0], dtype=float)
    else:
        U = np.array(c["U"], dtype=float).reshape(len(c["U"]), D)
    fn = CONS[c["cons"]] if c["cons"] else None
    try:
        out = the_function()(U, lb_arr(c["lb"]), ub_arr(c["ub"]), c["tol"], fl, c["proj"], fn)
        out = np.asarray(out)
        if out.ndim != 2 or out.shape[1] != D:
            return "BadShape" + str(out.shape)
        return out.tolist()
    except Exception as ex:  # reported as is; can never agree with the model
        return type(ex).__name__


def violated_fn(c):
    """Python-side oracle row -> bool (true = the user's constraint is violated at the row's real inverse image)."""
    if not c["cons"]:
        return None
    vt = get_vt(c["vt"], c["D"])
    fn = CONS[c["cons"]]

    def v(row):
        x = vt.inverse_transf(np.array(row, dtype=float).reshape(1, -1))
        return not bool(fn(x)[0] <= 0)
    return v


def cons_margin(c, rows):
    vt = get_vt(c["vt"], c["D"])
    fn = CONS_BASE.get(c["cons"], CONS[c["cons"]])
    return min([abs(float(fn(vt.inverse_transf(np.array(r, dtype=float).reshape(1, -1)))[0])) for r in rows] or [1.0])


# ----------------------------------------------------------------------------- monitor

def clamp_row(row, lb, ub):
    out = []
    for x, l, u in zip(row, lb, ub):
        y = x if (u is None or x <= u) else float(u)
        y = y if (l is None or l <= y) else float(l)
        out.append(y)
    return out


def in_box(row, lb, ub):
    return all((l is None or l <= x) and (u is None or x <= u) for x, l, u in zip(row, lb, ub))


def rkey(row, tol_mesh):
    t = Fraction(tol_mesh) / 2
    # Python rounds Fractions half to even, exactly; a non-finite coordinate (never legitimate) is kept as is
    return tuple(round(Fraction(x) / t) if math.isfinite(x) else x for x in row)


def monitor(c, out, violated=None):
    """The property restated on one call.  Returns [(key, message)] for the clauses that must hold
    (in box, feasible, pairwise distinct, distinct after rounding, subset of the projected inputs)."""
    bad = []
    if isinstance(out, str):
        return [("filter-raised", f"contraints_check raised {out} on a well-formed call")]
    lb, ub, U = c["lb"], c["ub"], c["U"]
    for r in out:
        if not all(math.isfinite(x) for x in r):
            bad.append(("not-a-candidate", f"output row {r} is not finite (all candidates are)"))
            break
    ordered = all(l is None or u is None or l <= u for l, u in zip(lb, ub))
    for r in out:
        if (ordered or not c["proj"]) and not in_box(r, lb, ub):
            bad.append(("out-of-box", f"output row {r} is outside the box lb={lb} ub={ub} (proj={c['proj']})"))
            break
    if violated is not None:
        for r in out:
            if violated(r):
                bad.append(("infeasible-output", f"output row {r} violates the non-box constraint {c['cons']}"))
                break
    rows = [tuple(r) for r in out]
    if len(set(rows)) != len(rows):
        d = [r for r in rows if rows.count(r) > 1][0]
        bad.append(("duplicate-output", f"output contains row {list(d)} {rows.count(d)} times"))
    else:
        keys = [rkey(r, c["tol"]) for r in out]
        if len(set(keys)) != len(keys):
            k = [k for k in keys if keys.count(k) > 1][0]
            two = [out[i] for i, kk in enumerate(keys) if kk == k][:2]
            bad.append(("duplicate-after-rounding", f"output rows {two} coincide within tol_mesh/2 = {c['tol'] / 2}"))
    allowed = {tuple(clamp_row(u, lb, ub)) for u in U} if c["proj"] else {tuple(float(x) for x in u) for u in U if in_box(u, lb, ub)}
    for r in rows:
        if r not in allowed:
            bad.append(("not-a-candidate", f"output row {list(r)} is not {'the projection of an input row' if c['proj'] else 'an input row lying inside the box'}"))
            break
    if len(out) > len(U):
        bad.append(("not-a-candidate", f"{len(out)} rows out of {len(U)} in"))
    return bad


def fresh_hits(c, out):
    """Rows handed on although they coincide (within tol_mesh/2) with an evaluated point."""
    if isinstance(out, str) or not c["log"] or not out:
        return []
    logk = {rkey(x, c["tol"]) for x in c["log"]}
    return [r for r in out if rkey(r, c["tol"]) in logk]


def tags(c, out, violated=None):
    """Which non-default branches a case exercises (for the evidence)."""
    t = set()
    lb, ub = c["lb"], c["ub"]
    if any(not in_box(u, lb, ub) for u in c["U"]):
        t.add("projected" if c["proj"] else "dropped-out-of-box")
    P = [tuple(clamp_row(u, lb, ub)) for u in c["U"]] if c["proj"] else [tuple(u) for u in c["U"] if in_box(u, lb, ub)]
    if len(set(P)) < len(P):
        t.add("exact-duplicate")
    K = {rkey(p, c["tol"]) for p in set(P)}
    if len(K) < len(set(P)):
        t.add("collapse-after-rounding")
    if violated is not None and any(violated(p) for p in set(P)):
        t.add("infeasible-dropped")
    if not isinstance(out, str):
        rows = [tuple(r) for r in out]
        first = [p for i, p in enumerate(P) if p not in P[:i]]
        if rows != [p for p in first if p in set(rows)]:
            t.add("reordered")
        if fresh_hits(c, out):
            t.add("coincides-with-log")
    return t


# ----------------------------------------------------------------------------- lattice stream

def _boxes1():
    iv = [(a, b) for a in LAT for b in LAT if a <= b]
    iv += [(None, b) for b in LAT] + [(a, None) for a in LAT] + [(None, None)]
    return iv


def _mix(j):
    return ((j + 1) * 2654435761) >> 7


def lattice_cases(tier_quick, seed):
    """Yield integer-lattice cases.  The thorough tier yields the whole design; the quick tier every
    k-th element of the same sequence (offset by the seed), so different seeds cover different slices."""
    iv = _boxes1()
    design = []
    # D = 1: candidates x boxes x proj x tol x cons complete; logs (all 31 ordered logs of <= 2 rows) cycle
    pts1 = [(a,) for a in LAT]
    cands1 = [list(t) for n in range(4) for t in itertools.product(pts1, repeat=n)]
    logs1 = [list(t) for n in range(3) for t in itertools.product(pts1, repeat=n)]
    j = 0
    for U in cands1:
        for (a, b) in iv:
            for proj in (False, True):
                for tol in (1.0, 4.0):
                    for cons in (None, "ball", "half"):
                        for rep in range(2):
                            h = _mix(j); j += 1
                            design.append((1, U, [a], [b], proj, tol, cons, logs1[h % len(logs1)]))
    n1 = len(design)
    # D = 2: candidate lists of length <= 2 complete, length 3 every 5th; 16 of the 676 boxes each (cycling
    # through all of them); proj both; tol / cons / log (all 651 ordered logs of <= 2 rows) cycle
    pts2 = list(itertools.product(LAT, repeat=2))
    cands2 = [list(t) for n in range(3) for t in itertools.product(pts2, repeat=n)]
    cands2 += [list(t) for i, t in enumerate(itertools.product(pts2, repeat=3)) if i % 5 == 0]
    logs2 = [list(t) for n in range(3) for t in itertools.product(pts2, repeat=n)]
    boxes2 = [(b0, b1) for b0 in iv for b1 in iv]
    bi = 0
    for U in cands2:
        for _ in range(16):
            (a0, b0), (a1, b1) = boxes2[bi % len(boxes2)]
            bi += 37                                   # coprime with 676
            for proj in (False, True):
                h = _mix(j); j += 1
                tol = (1.0, 4.0)[h % 2]
                cons = (None, "ball", "half")[(h // 2) % 3]
                design.append((2, U, [a0, a1], [b0, b1], proj, tol, cons, logs2[(h // 6) % len(logs2)]))
    k = 5 if tier_quick else 1
    off = seed % k
    for i in range(off, len(design), k):
        D, U, lb, ub, proj, tol, cons, log = design[i]
        yield dict(stream="lattice", D=D, U=[list(map(float, r)) for r in U], lb=lb, ub=ub, proj=proj, tol=tol,
                   cons=cons, vt="affine" if cons else "none", log=[list(map(float, r)) for r in log], int=True)


def unrepresentable(out, integral=False):
    """an exception, a non-finite value or (lattice stream) a non-integer: expected = None, which no model output matches"""
    if isinstance(out, str):
        return True
    for r in out:
        for x in r:
            if not math.isfinite(x) or (integral and x != int(x)):
                return True
    return False


def coq_int_case(c, out):
    def zr(rows):
        return clist([clist([str(int(x)) for x in r]) for r in rows])
    def zb(b, sign):
        return clist([str(sign * INF_CODE if v is None else int(v)) for v in b])
    k = {None: 0, "ball": 1, "half": 2}[c["cons"]]
    e = "None" if unrepresentable(out, integral=True) else "(Some " + zr(out) + ")"
    return (f"((({1 if c['proj'] else 0},{int(c['tol'])},{k}),({zb(c['lb'], -1)},{zb(c['ub'], 1)})),"
            f"({zr(c['U'])},{zr(c['log'])}),{e})")


INT_TY = "((Z * Z * Z) * (list Z * list Z)) * (list (list Z) * list (list Z)) * option (list (list Z))"
INT_OK = "ok_int"

DEFS = r"""
Definition zrows (l : list (list Z)) : list qrow := map (map inject_Z) l.
Definition zbnds (l : list Z) : list bnd :=
  map (fun z => if Z.eqb (Z.abs z) 99 then None else Some (inject_Z z)) l.
Definition inv_affine (u : qrow) : qrow :=
  map (fun t => clamp1 (Some (-4 # 1)) (Some (4 # 1)) (Qred ((2 # 1) * t))) u.
Definition qsum (l : list Q) : Q := fold_right (fun a b => Qred (a + b)) (0 # 1) l.
Definition cons_code (k : Z) (tb : list (qrow * bool)) : option (qrow -> bool) :=
  if k =? 0 then None
  else if k =? 1 then
    Some (fun u => negb (Qle_bool (qsum (map (fun t => t * t)%Q (inv_affine u)))
                                  (inject_Z (4 * Z.of_nat (List.length u)))))
  else if k =? 2 then Some (fun u => negb (Qle_bool (qsum (inv_affine u)) (2 # 1)))
  else Some (table_oracle tb).
Fixpoint rows_eqb (a b : list qrow) : bool :=
  match a, b with
  | [], [] => true
  | x :: a', y :: b' => qrow_eqb x y && rows_eqb a' b'
  | _, _ => false
  end.
Definition ok_int (c : ((Z * Z * Z) * (list Z * list Z)) * (list (list Z) * list (list Z)) * option (list (list Z))) : bool :=
  let '(((p, t, k), (lb, ub)), (U, L), E) := c in
  match E with
  | None => false
  | Some e => rows_eqb (filter_candidates (p =? 1) (zbnds lb) (zbnds ub) (inject_Z t) (zrows L)
                                          (cons_code k []) (zrows U)) (zrows e)
  end.
(* rows with a common denominator: (den, numerators) *)
Definition drows (d : positive) (l : list (list Z)) : list qrow := map (map (fun n => Qred (n # d))) l.
Definition ok_q (c : ((bool * list bnd * list bnd * Q) * (positive * list (list Z) * list (list Z)) * (Z * list (list Z * bool))) * option (list (list Z))) : bool :=
  let '(((proj, lb, ub, tol), (d, U, L), (k, tb)), E) := c in
  match E with
  | None => false
  | Some e => rows_eqb (filter_candidates proj lb ub tol (drows d L)
                          (cons_code k (map (fun p => (map (fun n => Qred (n # d)) (fst p), snd p)) tb))
                          (drows d U)) (drows d e)
  end.
"""
RUN_DEFS = r"""
Definition ok_run (c : ((bool * list bnd * list bnd * Q) * (positive * list (list Z) * (nat * nat)) * (Z * list (list Z * bool))) * option (list (list Z))) : bool :=
  let '(((proj, lb, ub, tol), (d, U, (rid, n)), (k, tb)), E) := c in
  match E with
  | None => false
  | Some e => rows_eqb (filter_candidates proj lb ub tol (firstn n (nth rid runlogs []))
                          (cons_code k (map (fun p => (map (fun n => Qred (n # d)) (fst p), snd p)) tb))
                          (drows d U)) (drows d e)
  end.
"""
RUN_TY = ("((bool * list bnd * list bnd * Q) * (positive * list (list Z) * (nat * nat)) * (Z * list (list Z * bool))) "
          "* option (list (list Z))")
RUN_OK = "ok_run"


def runlogs_def(logs):
    """Definition runlogs : one evaluation log per run (rows as numerators over a common denominator)."""
    items = []
    for rows in logs:
        d = common_den([rows])
        items.append(f"drows {d}%positive {nums(rows, d)}")
    return "Definition runlogs : list (list qrow) := " + clist(["\n  " + i for i in items]) + ".\n"


def coq_run_case(c, out, table, rid, n):
    if unrepresentable(out):
        out = "non-finite"
    sets = [c["U"]] + ([] if isinstance(out, str) else [out]) + ([[r for r, _ in table]] if table else [])
    d = common_den(sets)
    if table is not None:
        k = 3
        tb = clist([f"({clist([str(int(Fraction(x) * d)) for x in r])},{'true' if b else 'false'})" for r, b in table])
    else:
        k, tb = 0, "[]"
    e = "None" if isinstance(out, str) else "(Some " + nums(out, d) + ")"
    return (f"((({'true' if c['proj'] else 'false'},{clist([cbnd(v) for v in c['lb']])},{clist([cbnd(v) for v in c['ub']])},"
            f"{cq(float(c['tol']))}),({d}%positive,{nums(c['U'], d)},({rid}%nat,{n}%nat)),({k},{tb})),{e})")


REQUIRES = ["PV.Model.Val", "PV.Model.Filter"]
Q_TY = ("((bool * list bnd * list bnd * Q) * (positive * list (list Z) * list (list Z)) * (Z * list (list Z * bool))) "
        "* option (list (list Z))")
Q_OK = "ok_q"


# ----------------------------------------------------------------------------- rational literals

def common_den(rowsets):
    d = 1
    for rows in rowsets:
        for r in rows:
            for x in r:
                dd = Fraction(x).denominator
                if dd > d:
                    d = dd if dd % d == 0 else d * dd // math.gcd(d, dd)
    return d


def nums(rows, d):
    return clist([clist([str(int(Fraction(x) * d)) for x in r]) for r in rows])


def cbnd(v):
    return "None" if v is None else f"(Some {cq(float(v))})"


def coq_q_case(c, out, table=None):
    """General literal: rows as integer numerators over one common (power-of-two) denominator."""
    if unrepresentable(out):
        out = "non-finite"
    sets = [c["U"], c["log"]] + ([] if isinstance(out, str) else [out]) + ([[r for r, _ in table]] if table else [])
    d = common_den(sets)
    if table is not None:
        k = 3
        tb = clist([f"({clist([str(int(Fraction(x) * d)) for x in r])},{'true' if b else 'false'})" for r, b in table])
    else:
        k = {None: 0, "ball": 1, "half": 2}[c["cons"]]       # KeyError: this constraint needs a table
        tb = "[]"
    e = "None" if isinstance(out, str) else "(Some " + nums(out, d) + ")"
    return (f"((({'true' if c['proj'] else 'false'},{clist([cbnd(v) for v in c['lb']])},{clist([cbnd(v) for v in c['ub']])},"
            f"{cq(float(c['tol']))}),({d}%positive,{nums(c['U'], d)},{nums(c['log'], d)}),({k},{tb})),{e})")


def make_table(c):
    """(row, violated) for every row the filter can query: the input rows and their projections."""
    v = violated_fn(c)
    rows = []
    for u in c["U"]:
        for r in (list(map(float, u)), clamp_row(list(map(float, u)), c["lb"], c["ub"])):
            if r not in rows:
                rows.append(r)
    return [(r, v(r)) for r in rows]


# ----------------------------------------------------------------------------- random streams

def random_case(rng, i):
    D = rng.choice([1, 2, 2, 3, 3, 4])
    step = rng.choice([0.5, 0.5, 0.25, 1.0])
    span = rng.choice([2, 3, 4])
    alpha = [k * step for k in range(int(-span / step), int(span / step) + 1)]
    tol = rng.choice([2.0, 2.0, 1.0, 0.5, 4.0, 8.0, 0.25, 2.0 ** -10])
    n = rng.choice([0, 1, 1, 2, 3, 4, 6, 8, 12])
    proj = rng.random() < 0.5
    oneD = proj and rng.random() < 0.2
    if oneD:
        n = 1
    pool = [[rng.choice(alpha) for _ in range(D)] for _ in range(max(1, n // 2 + 1))]
    U = []
    for _ in range(n):
        r = rng.random()
        if U and r < 0.25:
            U.append(list(rng.choice(U)))                       # exact repeat
        elif r < 0.6:
            U.append(list(rng.choice(pool)))
        elif U and r < 0.75:
            b = list(rng.choice(U)); b[rng.randrange(D)] += rng.choice([-step, step, step / 2])
            U.append(b)                                         # neighbour: collapses under a coarse tol
        else:
            U.append([rng.choice(alpha) for _ in range(D)])
    lb, ub = [], []
    for _ in range(D):
        a, b = sorted([rng.choice(alpha), rng.choice(alpha)])
        r = rng.random()
        if r < 0.10:
            a = None
        elif r < 0.20:
            b = None
        elif r < 0.25:
            a, b = None, None
        elif r < 0.30 and a != b:
            a, b = b, a                                         # ill-ordered box: the code lets lb win
        lb.append(a); ub.append(b)
    perturbed = False
    if U and rng.random() < 0.3:
        perturbed = True
        # candidates within rounding distance of a finite bound, on either side (a refined mesh next to a bound): a point outside the box by
        # 1e-9 is outside (dropped when proj=False, projected when proj=True), never "close enough"
        for _ in range(rng.choice([1, 2])):
            row, d = rng.randrange(len(U)), rng.randrange(D)
            bnd = rng.choice([v for v in (lb[d], ub[d]) if v is not None] or [None])
            if bnd is not None:
                U[row] = list(U[row])
                U[row][d] = bnd + rng.choice([1, -1]) * rng.choice([2.0 ** -30, 2.0 ** -40, 2.0 ** -20]) * max(1.0, abs(bnd))
    m = rng.choice([0, 0, 1, 2, 3, 6])
    log = []
    for _ in range(m):
        r = rng.random()
        if U and r < 0.5:
            log.append(clamp_row(rng.choice(U), lb, ub) if rng.random() < 0.5 else list(rng.choice(U)))
        else:
            log.append([rng.choice(alpha) for _ in range(D)])
    cons = rng.choice([None, None, "ball", "half"])
    c = dict(stream="random", D=D, U=U, oneD=oneD, lb=lb, ub=ub, proj=proj, tol=tol, cons=cons,
             vt="affine" if cons else rng.choice(["none", "affine"]), log=log)
    if perturbed and cons:
        # the model evaluates the constraint exactly, the code in binary64: a row moved by 1e-9 may sit within rounding distance of the
        # constraint's boundary (|x|^2 = 4 + 1e-18 is 4.0 in floats) - such a case decides nothing about the filter; drop the constraint
        rows = [clamp_row(u, lb, ub) for u in U] + [list(u) for u in U]
        if cons_margin(c, rows) <= 1e-9:
            c["cons"] = None
    return c


def table_case(rng, i):
    D = rng.choice([1, 2, 3])
    vt = get_vt("log", D)
    lbI = vt(vt.orig_lb.copy())[0].tolist()
    ubI = vt(vt.orig_ub.copy())[0].tolist()
    step = 2.0 ** -rng.choice([1, 2, 3])
    while True:
        n = rng.choice([1, 2, 3, 5, 8])
        w = rng.choice([3.5, 1.0])
        U = [[round(rng.uniform(-w, w) / step) * step for _ in range(D)] for _ in range(n)]
        U += [list(rng.choice(U)) for _ in range(rng.choice([0, 1, 2]))]
        rng.shuffle(U)
        proj = rng.random() < 0.5
        lb = [v if rng.random() < 0.8 else math.ceil(v) + 0.0 for v in lbI]
        ub = [v if rng.random() < 0.8 else math.floor(v) + 0.0 for v in ubI]
        log = [list(rng.choice(U)) for _ in range(rng.choice([0, 1, 2]))]
        c = dict(stream="table", D=D, U=U, lb=lb, ub=ub, proj=proj, tol=rng.choice([step, 2 * step, step / 4, 2.0 ** -19]),
                 cons=rng.choice(["logball", "loghalf", "tiny:logball", "tiny:loghalf", "bool:logball"]), vt="log", log=log)
        rows = [clamp_row(u, lb, ub) for u in U] + U
        if cons_margin(c, rows) > 1e-9:
            return c


def float_round_agrees(c):
    """np.round(x / (tol/2)) equals the exact half-even rounding of the rational quotient for every row involved."""
    tol = c["tol"] / 2.0
    rows = [clamp_row(u, c["lb"], c["ub"]) for u in c["U"]] + [list(u) for u in c["U"]] + c["log"]
    for r in rows:
        for x in r:
            if float(np.round(np.float64(x) / tol)) != float(round(Fraction(x) / Fraction(tol))):
                return False
    return True


def nonpow2_case(rng, i):
    D = rng.choice([1, 2, 3])
    tol = rng.choice([1e-6, 0.3, 0.1, 3.0, 1e-3])
    n = rng.choice([1, 2, 4, 7])
    if rng.random() < 0.5:
        U = [[rng.gauss(0, 1) for _ in range(D)] for _ in range(n)]
    else:
        U = [[rng.randint(-6, 6) * tol / 2 + rng.choice([0.0, 0.0, tol / 8, -tol / 8, tol / 4, -tol / 4]) for _ in range(D)] for _ in range(n)]
    U += [list(rng.choice(U)) for _ in range(rng.choice([0, 1]))]
    lb = [rng.choice([-0.5, -5.0, None]) for _ in range(D)]
    ub = [rng.choice([0.5, 5.0, None]) for _ in range(D)]
    log = [list(rng.choice(U)) for _ in range(rng.choice([0, 1, 3]))]
    return dict(stream="nonpow2", D=D, U=U, lb=lb, ub=ub, proj=rng.random() < 0.6, tol=tol, cons=None, vt="none", log=log)


# ----------------------------------------------------------------------------- shrinking

def shrink(c, failing):
    """Greedy deletion of candidate rows, then log rows, preserving failing(case)."""
    c = dict(c)
    for field in ("U", "log"):
        i = 0
        while i < len(c[field]):
            if field == "U" and c.get("oneD"):
                break
            d = dict(c); d[field] = c[field][:i] + c[field][i + 1:]
            if failing(d):
                c = d
            else:
                i += 1
    return c


# ----------------------------------------------------------------------------- run level

def target_factory(D, opt):
    def f(x):
        x = np.asarray(x, dtype=float).ravel()
        return float(np.sum((x - opt) ** 2))
    return f


def run_panel(rng, quick):
    """(D, optimum coordinate, constraint, budget, options).  Box [-3,3]^D, plausible [-2,2]^D (exactly affine
    transform ginv(y) = 2y), x0 = 0: optimum inside (1), on the boundary (3) and outside (5: the corner attracts)."""
    P = [
        dict(D=1, opt=5.0, cons=None, budget=30, n_search=256),
        dict(D=2, opt=5.0, cons=None, budget=60, n_search=64),
        dict(D=2, opt=3.0, cons=None, budget=50, n_search=None),       # default 2**12: ES batches of 2048 rows
        dict(D=2, opt=1.0, cons=None, budget=40, n_search=32),
        dict(D=3, opt=5.0, cons=None, budget=60, n_search=128),
        dict(D=2, opt=5.0, cons="ball", budget=50, n_search=64),
        dict(D=2, opt=5.0, cons="half", budget=50, n_search=512),
        dict(D=3, opt=3.0, cons="ball", budget=50, n_search=32),
        # an initial design that is DENSE relative to the search grid: snapping to the grid creates coincident design points
        dict(D=2, opt=1.0, cons=None, budget=60, n_search=64, opts=dict(fun_eval_start=32, search_grid_number=2)),
        dict(D=1, opt=1.0, cons=None, budget=80, n_search=64, opts=dict(fun_eval_start=64, search_grid_number=3)),
    ]
    if not quick:
        P += [dict(D=2, opt=5.0, cons=None, budget=150, n_search=None),
              dict(D=3, opt=5.0, cons="half", budget=150, n_search=128),
              dict(D=1, opt=3.0, cons="half", budget=40, n_search=None),
              dict(D=3, opt=-5.0, cons=None, budget=120, n_search=256)]
    for p in P:
        p["seed"] = rng.randrange(1, 10 ** 6)
    return P


def traced_run(p):
    """One real BADS run with contraints_check (both bindings) and FunctionLogger.__call__ wrapped from outside.
    Returns dict(calls=[captured call], evals=[(u, x_orig, repeat?, explained-by)], hist, result, error)."""
    import pybads.bads.bads as B
    import pybads.search.es_search as ES
    from pybads import BADS
    from pybads.function_logger import FunctionLogger

    D = p["D"]
    target = target_factory(D, p["opt"])
    nbc = RUN_CONS[p["cons"]] if p["cons"] else None
    calls, evals, xcount = [], [], {}
    state = dict(hit_rows=set(), n_calls=0)
    real = the_function()

    def wrap(site):
        def w(U, lb, ub, tol_mesh, function_logger, proj=True, non_box_cons=None):
            Uc = np.array(U, dtype=float, copy=True)
            n = function_logger.X_max_idx + 1
            logX = np.array(function_logger.X[:n], dtype=float, copy=True)
            out = real(U, lb, ub, tol_mesh, function_logger, proj, non_box_cons)
            o = np.array(out, dtype=float, copy=True)
            rec = dict(site=site, U=(Uc.reshape(1, -1) if Uc.ndim == 1 else Uc), oneD=Uc.ndim == 1,
                       lb=np.array(lb, dtype=float).reshape(-1), ub=np.array(ub, dtype=float).reshape(-1),
                       tol=float(tol_mesh), nlog=n, logX=logX, proj=bool(proj), cons=non_box_cons is not None,
                       out=o, vt=function_logger.variable_transformer)
            calls.append(rec)
            return out
        return w

    orig_call = FunctionLogger.__call__

    def logged_call(self, x, record_duplicate_data=True):
        u = np.asarray(x, dtype=float).ravel().copy()
        n = self.X_max_idx + 1
        seen = bool(n) and bool(np.any(np.all(self.X[:n] == u, axis=1)))
        evals.append(dict(u=u.tolist(), repeat=seen, noise_test=not record_duplicate_data, after_call=len(calls)))
        return orig_call(self, x, record_duplicate_data)

    def counted(x):
        k = tuple(np.asarray(x, dtype=float).ravel().tolist())
        xcount[k] = xcount.get(k, 0) + 1
        return target(x)

    saved = (B.contraints_check, ES.contraints_check)
    B.contraints_check, ES.contraints_check = wrap("bads"), wrap("es_search")
    FunctionLogger.__call__ = logged_call
    err, res = None, None
    try:
        opts = {"display": "off", "random_seed": p["seed"], "max_fun_evals": p["budget"]}
        if p.get("n_search"):
            opts["n_search"] = p["n_search"]
        opts.update(p.get("opts", {}))
        one = np.ones(D)
        bads = BADS(counted, np.zeros(D), -3.0 * one, 3.0 * one, -2.0 * one, 2.0 * one,
                    non_box_cons=nbc, options=opts)
        res = bads.optimize()
    except Exception as ex:
        err = f"{type(ex).__name__}: {ex}"
    finally:
        B.contraints_check, ES.contraints_check = saved
        FunctionLogger.__call__ = orig_call
    hist = {}
    for k, m in xcount.items():
        hist[m] = hist.get(m, 0) + 1
    return dict(p=p, calls=calls, evals=evals, xcount=xcount, hist=hist, error=err,
                fval=None if res is None else float(res["fval"]), x=None if res is None else np.asarray(res["x"]).ravel().tolist())


def call_to_case(rec, p):
    """Captured call -> the same case dictionary the component streams use (cons handled by table)."""
    def b(v, neg):
        return None if (math.isinf(v)) else float(v)
    return dict(stream="run", D=rec["U"].shape[1], U=rec["U"].tolist(), oneD=rec["oneD"],
                lb=[b(v, True) for v in rec["lb"]], ub=[b(v, False) for v in rec["ub"]],
                tol=rec["tol"], log=rec["logX"].tolist(), proj=rec["proj"],
                cons=("run:" + p["cons"]) if rec["cons"] else None, vt="run", site=rec["site"])


def run_violated(rec, p):
    if not rec["cons"]:
        return None
    fn, vt = RUN_CONS[p["cons"]], rec["vt"]

    def v(row):
        return not bool(fn(vt.inverse_transf(np.array(row, dtype=float).reshape(1, -1)))[0] <= 0)
    return v


# ----------------------------------------------------------------------------- the program regenerated from the source (gen/Src_filter.v)

REQUIRES_SRC = REQUIRES + ["PV.Model.FilterSrc", "PV.gen.Src_filter"]
# the same literals evaluated by [src_filter]: the constraint is handed over as a NUMBER (the value the code compares with 0):
# ball / half-space exactly, a table row as +1 (violated) / -1 (feasible); the table is keyed on the internal row, so the
# transform is the identity there and inv_affine for the two closed-form constraints; fl_X = the log, X_max_idx = len - 1
SRC_DEFS = r"""
Definition cval_code (k : Z) (tb : list (qrow * bool)) : option (qrow -> Q) :=
  if k =? 0 then None
  else if k =? 1 then Some (fun x => Qred (qsum (map (fun t => t * t)%Q x) - inject_Z (4 * Z.of_nat (List.length x))))
  else if k =? 2 then Some (fun x => Qred (qsum x - (2 # 1)))
  else Some (fun x => if table_oracle tb x then (1 # 1) else (-1 # 1)).
Definition inv_code (k : Z) (u : qrow) : qrow := if (k =? 1) || (k =? 2) then inv_affine u else u.
Definition ok_int_src (c : ((Z * Z * Z) * (list Z * list Z)) * (list (list Z) * list (list Z)) * option (list (list Z))) : bool :=
  let '(((p, t, k), (lb, ub)), (U, L), E) := c in
  match E with
  | None => false
  | Some e => rows_eqb (src_filter (inv_code k) (zrows U) (zbnds lb) (zbnds ub) (inject_Z t) (zrows L)
                                   (Z.of_nat (List.length L) - 1) (p =? 1) (cval_code k [])) (zrows e)
  end.
Definition ok_q_src (c : ((bool * list bnd * list bnd * Q) * (positive * list (list Z) * list (list Z)) * (Z * list (list Z * bool))) * option (list (list Z))) : bool :=
  let '(((proj, lb, ub, tol), (d, U, L), (k, tb)), E) := c in
  match E with
  | None => false
  | Some e => rows_eqb (src_filter (inv_code k) (drows d U) lb ub tol (drows d L) (Z.of_nat (List.length L) - 1) proj
                          (cval_code k (map (fun p => (map (fun n => Qred (n # d)) (fst p), snd p)) tb)))
                       (drows d e)
  end.
"""
RUN_SRC_DEFS = r"""
Definition ok_run_src (c : ((bool * list bnd * list bnd * Q) * (positive * list (list Z) * (nat * nat)) * (Z * list (list Z * bool))) * option (list (list Z))) : bool :=
  let '(((proj, lb, ub, tol), (d, U, (rid, n)), (k, tb)), E) := c in
  match E with
  | None => false
  | Some e => rows_eqb (src_filter (inv_code k) (drows d U) lb ub tol (nth rid runlogs []) (Z.of_nat n - 1) proj
                          (cval_code k (map (fun p => (map (fun n => Qred (n # d)) (fst p), snd p)) tb)))
                       (drows d e)
  end.
"""


def src_generated_ok():
    from translate import filter as TF
    return TF.OUT.exists() and TF.MARK in TF.OUT.read_text()


def run_cases_both(name, case_ty, ok_fun, ok_fun_src, cases, shard=400, timeout=900, defs=""):
    """Like core.run_cases, but every shard is evaluated twice on the SAME literals: by the hand-written model (ok_fun) and by
    the program regenerated from the source (ok_fun_src).  Returns (compiled, bad_model, bad_src, log)."""
    from concurrent.futures import ThreadPoolExecutor
    from vlib import core
    tg = [r[3:].replace(".", "/") + ".vo" for r in REQUIRES_SRC if r.startswith("PV.")]
    okb, logb = core.coq_make(tg)
    if not okb:
        return False, [], [], "required modules do not build:\n" + logb[-2000:]
    shards = [cases[i:i + shard] for i in range(0, len(cases), shard)] or [[]]

    def one(k):
        body = defs + f"\nDefinition the_cases : list ({case_ty}) := " + clist(["\n  " + c for c in shards[k]]) + ".\n"
        body += f"Eval vm_compute in (bad_indices ({ok_fun}) the_cases).\n"
        body += f"Eval vm_compute in (bad_indices ({ok_fun_src}) the_cases).\n"
        ok, out = core.coq_eval(f"{name}_{k}", REQUIRES_SRC, body, timeout=timeout)
        ev = core.split_evals(out) if ok else []
        lists = [core.parse_nat_list(e) for e in ev]
        if not ok or len(lists) != 2 or any(x is None for x in lists):
            return False, None, None, out
        return True, lists[0], lists[1], out
    with ThreadPoolExecutor(max_workers=min(12, len(shards))) as ex:
        res = list(ex.map(one, range(len(shards))))
    allok, bm, bs, log = True, [], [], ""
    for k, (ok, a, b, out) in enumerate(res):
        if not ok:
            allok = False
            log += f"[shard {k}] coqc failed:\n{out[-3000:]}\n"
        else:
            bm += [k * shard + i for i in a]
            bs += [k * shard + i for i in b]
    return allok, bm, bs, log


def _ulp(x, k=1):
    y = float(x)
    for _ in range(abs(k)):
        y = math.nextafter(y, math.inf if k > 0 else -math.inf)
    return y


def gen_aimed(rng, i, focus):
    """One case aimed at a construct of contraints_check.  focus in {"stage1" (projection / box test), "stage2" (exact duplicates),
    "stage3" (rounded stack), "stage4" (constraint)}.  Verdicts come from the declarative monitor only."""
    D = rng.choice([1, 2, 2, 3])
    if focus == "stage1":
        lb, ub = [], []
        for _ in range(D):
            a, b = sorted([rng.choice([-2.0, -1.0, -0.5, 0.0]), rng.choice([0.5, 1.0, 2.0, 3.0])])
            r = rng.random()
            lb.append(None if r < 0.15 else a)
            ub.append(None if 0.15 <= r < 0.3 else b)
        def coord(d, mode):
            l, u = lb[d], ub[d]
            inside = ((l if l is not None else -1.0) + (u if u is not None else 1.0)) / 2
            if mode == "in":
                return rng.choice([inside, l if l is not None else inside, u if u is not None else inside])
            if mode == "lo" and l is not None:
                return rng.choice([_ulp(l, -1), l - 2.0 ** -30, l - 1e-9, l - 0.5, l - 7.0])
            if mode == "hi" and u is not None:
                return rng.choice([_ulp(u, 1), u + 2.0 ** -30, u + 1e-9, u + 0.5, u + 7.0])
            return inside
        U = []
        for _ in range(rng.choice([1, 2, 3, 5])):
            k = rng.randrange(D)             # exactly one coordinate off (any vs all), sometimes two, sometimes none
            modes = ["in"] * D
            r = rng.random()
            if r < 0.4:
                modes[k] = "lo"
            elif r < 0.8:
                modes[k] = "hi"
            elif r < 0.9 and D > 1:
                modes[k] = "lo"; modes[(k + 1) % D] = "hi"
            U.append([coord(d, modes[d]) for d in range(D)])
        return dict(stream="aimed:stage1", D=D, U=U, oneD=False, lb=lb, ub=ub, proj=rng.random() < 0.5, tol=2.0 ** -rng.choice([1, 10, 40]),
                    cons=None, vt="none", log=[])
    if focus == "stage2":
        base = [[rng.choice([-1.5, -0.0, 0.0, 0.25, 1.0, 2.5]) for _ in range(D)] for _ in range(rng.choice([1, 2, 3]))]
        U = [list(r) for r in base]
        for _ in range(rng.choice([1, 2, 4])):
            r = list(rng.choice(U)); m = rng.random()
            if m < 0.5:
                pass                                             # exact repeat
            elif m < 0.7:
                r[rng.randrange(D)] = _ulp(r[rng.randrange(D)], rng.choice([1, -1]))     # one ulp apart: NOT a duplicate
            else:
                r = [x + 0.0 if x != 0 else rng.choice([0.0, -0.0]) for x in r]
            U.insert(rng.randrange(len(U) + 1), r)
        lb = [rng.choice([-2.0, -1.0, None]) for _ in range(D)]
        ub = [rng.choice([2.0, 1.0, None]) for _ in range(D)]       # projection creates duplicates
        return dict(stream="aimed:stage2", D=D, U=U, oneD=False, lb=lb, ub=ub, proj=rng.random() < 0.6, tol=2.0 ** -rng.choice([30, 45]),
                    cons=None, vt="none", log=[list(rng.choice(U))] if rng.random() < 0.3 else [])
    if focus == "stage3":
        tol = 2.0 ** rng.choice([1, 0, -1, -3, -10])
        h = tol / 2
        U = []
        for _ in range(rng.choice([2, 3, 5, 8])):
            U.append([rng.randint(-4, 4) * h + rng.choice([0.0, 0.0, h / 2, -h / 2, h / 4, -h / 4, h / 2 - h / 64, h / 2 + h / 64]) for _ in range(D)])
        log = [list(rng.choice(U)) for _ in range(rng.choice([0, 1, 2, 4]))] + [[rng.randint(-4, 4) * h for _ in range(D)] for _ in range(rng.choice([0, 1]))]
        return dict(stream="aimed:stage3", D=D, U=U, oneD=False, lb=[-8.0] * D, ub=[8.0] * D, proj=rng.random() < 0.5, tol=tol, cons=None, vt="none", log=log)
    # stage4: constraint values exactly 0, just above, just below; single rows; the affine transform X = clip(2u, -4, 4)
    kind = rng.choice(["half", "half", "ball"])
    U = []
    for _ in range(rng.choice([1, 1, 2, 4])):
        if kind == "half":          # sum(2u) - 2 : on the boundary when sum(u) = 1
            u = [rng.choice([-0.5, 0.0, 0.25, 0.5, 1.0]) for _ in range(D)]
            u[-1] = 1.0 - sum(u[:-1]) + rng.choice([0.0, 0.0, 2.0 ** -20, -2.0 ** -20, 2.0 ** -40, 0.25, -0.25])
        else:                       # sum((2u)^2) - 4 D : on the boundary at u = (+-1, ..., +-1)
            u = [rng.choice([-1.0, 1.0]) for _ in range(D)]
            u[rng.randrange(D)] += rng.choice([0.0, 0.0, 2.0 ** -20, -2.0 ** -20, 0.25, -0.25])
        U.append(u)
    return dict(stream="aimed:stage4", D=D, U=U, oneD=False, lb=[-2.0] * D, ub=[2.0] * D, proj=rng.random() < 0.5, tol=2.0 ** -rng.choice([1, 10, 30]),
                cons=kind, vt="affine", log=[])


def tie_source_small(ctx, broken, n=800):
    """Translator validation for a property that only USES gen/Src_filter.v (the full validation is C17's tie): the generated program
    evaluated by vm_compute on n random + n/4 table cases against the real contraints_check."""
    from vlib import core
    name = "correspondence:filter_source"
    if not src_generated_ok():
        ctx.oblige(name, "correspondence", False, "NOT EVALUATED: gen/Src_filter.v was not generated (source outside the translator's whitelist)")
        broken.append((name, "the program regenerated from contraints_check could not be evaluated"))
        return
    cases = [random_case(ctx.rng, i) for i in range(n)] + [table_case(ctx.rng, i) for i in range(n // 4)]
    lits = []
    for c in cases:
        tb = None if c["cons"] in (None, "ball", "half") and c["vt"] in ("none", "affine") else make_table(c)
        lits.append(coq_q_case(c, run_real(c), tb))
    ok, bad, log = core.run_cases("filter_src_small", REQUIRES_SRC, Q_TY, "ok_q_src", lits, shard=200, defs=DEFS + SRC_DEFS)
    ctx.count(len(cases), len(cases))
    if not ctx.oblige(name, "correspondence", ok and not bad, f"{len(bad)} of {len(cases)} cases differ between src_filter (vm_compute) and the real contraints_check; " + log[-300:]):
        c = cases[bad[0]] if bad else None
        broken.append((name, "the program regenerated from contraints_check differs from the real function" +
                       (f" on U={c['U']} lb={c['lb']} ub={c['ub']} tol_mesh={c['tol']} proj={c['proj']} cons={c['cons']}" if c else ": case files did not compile")))
