"""Correspondence harness for the mesh / grid arithmetic (translate/grid.py -> coq/gen/Src_grid.v), used by C01, C13, C17.

On every run, for generated inputs (all from ctx.rng):

  1. TRANSLATOR VALIDATION.  The REAL code is executed - the real functions (force_to_grid, BADS._update_search_bounds_,
     BADS._eval_improvement_ called on a stub `self`) and, for the fragments that are statements inside a larger function
     (_init_optim_state_, the head of the loop of optimize(), _poll_step_, contraints_check), the located statements
     THEMSELVES, compiled from their ast nodes and run in a stub namespace - and every tracked value is compared with the
     translated tree evaluated (a) in exact rationals (Q / Z definitions: equality must be EXACT), (b) in NumPy binary64
     with the same operations in the same order (R definitions: bit-for-bit) and (c) in 60-digit Decimal (R definitions:
     relative 1e-12; for the snapping, the exponent chosen must be the exact ceil).
  2. COQ EVALUATION.  The emitted Q / Z / bool definitions of gen/Src_grid.v are evaluated by vm_compute on the same inputs
     against the REAL outputs (so the printer of the translator is covered too, and np_round against np.round).
  3. REAL OBJECTS.  BADS(...) is constructed on generated problems and optim_state (lb_search, ub_search, u, mesh sizes,
     exponents, tol_mesh) compared with the model; recorded runs (the C01 / C13 panels) are checked event by event:
     mesh = model(k), search mesh = model(ks), sufficient_improvement, every projected filter call's box = model(hard box,
     search mesh), every _eval_improvement_ result.
  4. MONITORS.  Each clause of the grid theorems restated directly on the REAL outputs (independent of the model); a
     failure is a concrete input: ctx.violate(key, what, replay).

Exactness domain of the Q reading: the mesh is a power of two and |x| / mesh < 2^52 wherever a +-mesh step can be taken
(bounds may be large: beyond 2^52 meshes a bound is its own grid point and no step is taken), and x / mesh does not
overflow (|x| / mesh < 1.8e308; beyond that binary64 gives tol * round(inf) = inf - observation, not generated).
"""
from __future__ import annotations

import ast
import logging
import math
import types
from decimal import Decimal
from fractions import Fraction

import numpy as np

from translate import grid as T
from vlib import core

F = Fraction
INF = float("inf")


# --------------------------------------------------------------------------- the real code


def real_mods():
    import pybads.bads.bads as bb
    import pybads.search.grid_functions as gf
    return bb, gf


class Stub:
    """a bare object standing for `self`"""

    def __init__(self, **kw):
        self.__dict__.update(kw)
        self.logger = logging.getLogger("verif.grid.null")
        self.logger.disabled = True


def run_stmts(stmts, ns):
    mod = ast.Module(body=list(stmts), type_ignores=[])
    ast.fix_missing_locations(mod)
    exec(compile(mod, "<located statements of the real source>", "exec"), ns)
    return ns


def eval_expr(node, ns):
    e = ast.Expression(body=node)
    ast.fix_missing_locations(e)
    return eval(compile(e, "<located expression of the real source>", "eval"), ns)


def def_stmts(blk):
    """the distinct statements that define the tracked variables of a region, in source order"""
    out = []
    for _, _, _, st in blk.defs:
        if st is not None and not any(st is s for s in out):
            out.append(st)
    return out


# --------------------------------------------------------------------------- generators


def gen_mesh(rng):
    r = rng.random()
    if r < 0.6:
        return 2.0 ** rng.randint(-12, 0)
    if r < 0.9:
        return 2.0 ** rng.randint(-40, -13)
    return 2.0 ** rng.randint(1, 3)


def gen_point(rng, m):
    """a coordinate with |x| / m < 2^50: on the grid, on a tie, next to a tie, generic dyadic, decimal, zero"""
    k = rng.random()
    n = rng.randint(-2000, 2000) if rng.random() < 0.8 else rng.randint(-2 ** 40, 2 ** 40)
    if k < 0.15:
        return n * m
    if k < 0.35:
        return (n + 0.5) * m
    if k < 0.5:
        t = (n + 0.5) * m
        return float(np.nextafter(t, rng.choice([-INF, INF])))
    if k < 0.6:
        return float(np.nextafter(n * m, rng.choice([-INF, INF])))
    if k < 0.7:
        return rng.choice([0.0, -0.0, m / 2, -m / 2, m / 4, 3 * m / 2, -3 * m / 2, 5e-324, -5e-324])
    if k < 0.85:
        return (n + rng.random()) * m
    return round(rng.uniform(-50, 50), rng.randint(0, 4))


def gen_bound(rng, m, side):
    r = rng.random()
    if r < 0.08:
        return -INF if side < 0 else INF
    if r < 0.12:
        return side * rng.choice([1e15, 2.0 ** 60, 1e290 * m, 3.0 * 2.0 ** 52 * m])      # x / mesh must not overflow (see the module docstring)
    return gen_point(rng, m)


def gen_box(rng, m):
    """(lb, ub, x) for one coordinate: wide, exactly one step, narrower than a step (with and without a grid point), degenerate"""
    r = rng.random()
    if r < 0.45:
        lb = gen_bound(rng, m, -1)
        w = rng.choice([1, 2, 3, 7, 100, 4096]) * m + rng.choice([0.0, m / 2, m / 8, rng.random() * m])
        ub = lb + w if math.isfinite(lb) and rng.random() < 0.85 else gen_bound(rng, m, 1)
        if math.isfinite(lb) and math.isfinite(ub) and ub < lb:
            lb, ub = ub, lb
    elif r < 0.6:
        lb = gen_point(rng, m)
        ub = lb + m
    elif r < 0.85:
        lb = gen_point(rng, m)
        ub = lb + rng.choice([0.0, m / 2, m / 4, m * 0.999, m * rng.random(), 5e-324])
    else:
        n = rng.randint(-1000, 1000)
        lb = (n + 0.25) * m
        ub = (n + 0.75) * m
    if not math.isfinite(lb) and not math.isfinite(ub):
        x = gen_point(rng, m)
    elif not math.isfinite(lb):
        x = ub - rng.choice([0.0, m / 2, m, 10 * m, rng.random() * 100 * m])
    elif not math.isfinite(ub):
        x = lb + rng.choice([0.0, m / 2, m, 10 * m, rng.random() * 100 * m])
    else:
        t = rng.random()
        x = lb if t < 0.15 else ub if t < 0.3 else lb + (ub - lb) * rng.random()
        x = min(max(x, lb), ub)
    if abs(x) / m >= 2.0 ** 50:
        x = 0.0 if (lb <= 0.0 <= ub) else (lb if math.isfinite(lb) and abs(lb) / m < 2.0 ** 50 else ub)
    return lb, ub, x


def fr(x):
    return F(float(x))


def same_float(a, b):
    a, b = float(a), float(b)
    return (a == b) or (math.isnan(a) and math.isnan(b))


# --------------------------------------------------------------------------- Coq cases


class CoqCases:
    """cases (id, Q args, Z args, bool args, expected as Q) for the emitted Q / Z / bool definitions"""

    def __init__(self, model):
        self.m = model
        self.ids = {}
        self.cases = []
        arms = []
        for o in model.outs:
            if o.sort == "R" or any(s in ("R", "F") for _, s in o.params):
                continue
            i = len(self.ids)
            self.ids[o.name] = i
            qi = zi = bi = 0
            args = []
            for n, s in o.params:
                if s == "Q":
                    args.append(f"(nth {qi} qs 0%Q)")
                    qi += 1
                elif s == "Z":
                    args.append(f"(nth {zi} zs 0%Z)")
                    zi += 1
                else:
                    args.append(f"(nth {bi} bs false)")
                    bi += 1
            call = f"({o.name} {' '.join(args)})"
            val = {"Q": call, "Z": f"(inject_Z {call})", "B": f"(if {call} then 1%Q else 0%Q)"}[o.sort]
            arms.append(f"  | {i}%nat => Qeq_bool {val} e")
        self.defs = ("Definition grid_ok (c : nat * list Q * list Z * list bool * Q) : bool :=\n"
                     "  let '(id, qs, zs, bs, e) := c in\n  match id with\n" + "\n".join(arms) + "\n  | _ => false\n  end.\n")

    def add(self, name, args: dict, expected):
        o = self.m.by_name[name]
        qs = [core.cq(float(args[n])) + "%Q" for n, s in o.params if s == "Q"]
        zs = [core.cz(int(args[n])) for n, s in o.params if s == "Z"]
        bs = [core.cbool(args[n]) for n, s in o.params if s == "B"]
        e = (core.cq(float(expected)) if not isinstance(expected, (bool, np.bool_)) else ("(1 # 1)" if expected else "(0 # 1)")) + "%Q"
        self.cases.append((name, dict(args), f"({self.ids[name]}%nat, {core.clist(qs)}, {core.clist(zs)}, {core.clist(bs)}, {e})"))

    def run(self, ctx, broken, tag):
        if not self.cases:
            return
        okc, badi, log = core.run_cases(f"grid_{ctx.pid}_{tag}", ["PV.Model.Val", "PV.gen.Src_grid"],
                                        "nat * list Q * list Z * list bool * Q", "grid_ok", [c for _, _, c in self.cases],
                                        shard=max(200, (len(self.cases) + 11) // 12), defs=self.defs)
        bad = [self.cases[i][:2] for i in badi[:5]]
        ok = ctx.oblige(f"correspondence:grid:coq_definitions:{tag}", "correspondence", okc and not badi,
                        f"{len(self.cases)} evaluations of gen/Src_grid.v by vm_compute against the real code; {len(badi)} differ {bad} {log[-300:]}")
        ctx.count(len(self.cases), 0)
        if not ok:
            broken.append((f"correspondence:grid:coq_definitions:{tag}",
                           f"gen/Src_grid.v evaluated by Coq differs from the real code on {len(badi)} inputs, e.g. {bad[:2]} {log[-200:]}"))


# --------------------------------------------------------------------------- bookkeeping of one tie


class Acc:
    def __init__(self, ctx, broken, model):
        self.ctx, self.broken, self.m = ctx, broken, model
        self.mismatch = {}     # fragment -> [detail]
        self.n = {}
        self.coq = CoqCases(model) if model is not None else None
        self.evq = T.Ev("frac", self._funs("frac")) if model is not None else None
        self.evf = T.Ev("float", self._funs("float")) if model is not None else None
        self.evd = T.Ev("dec", self._funs("dec")) if model is not None else None

    def _funs(self, mode):
        from scipy.special import erfcinv
        m = self.m
        ev = lambda: {"frac": self.evq, "float": self.evf, "dec": self.evd}[mode]
        funs = {
            "src_force_to_grid": lambda x, s: ev().out(m.ftg, dict(x=x, search_mesh_size=s)),
            "src_force_to_grid_tol": lambda x, t: ev().out(m.ftg_tol, dict(x=x, tol=t)),
            "src_usb_lb_search": lambda b, s: ev().out(m.usb_lb, dict(os_lb=b, search_mesh_size=s)),
            "src_usb_ub_search": lambda b, s: ev().out(m.usb_ub, dict(os_ub=b, search_mesh_size=s)),
        }
        if mode == "float":
            funs["erfcinv"] = erfcinv
        elif mode == "dec":
            funs["erfcinv"] = lambda v: Decimal(float(erfcinv(float(v))))
        return funs

    def count(self, frag, k=1):
        self.n[frag] = self.n.get(frag, 0) + k

    def differ(self, frag, detail):
        self.mismatch.setdefault(frag, []).append(detail)

    def exact(self, frag, name, args, real, coq=True):
        """Q / Z / bool definition `name` on args (floats / ints / bools) must equal the real value EXACTLY"""
        o = self.m.by_name[name]
        self.count(frag)
        a = {n: (fr(args[n]) if s == "Q" else args[n]) for n, s in o.params}
        try:
            mv = self.evq.out(o, a)
        except Exception as ex:                      # noqa: BLE001
            self.differ(frag, f"{name}{args}: model evaluation failed: {ex!r}")
            return
        rv = bool(real) if o.sort == "B" else (fr(real) if math.isfinite(float(real)) else None)
        if rv is None or mv != rv:
            self.differ(frag, f"{name}{args}: real {real!r} != model {float(mv) if not isinstance(mv, bool) else mv!r}")
        if coq and rv is not None:
            self.coq.add(name, args, real)

    def real_number(self, frag, name, args, real, rel=1e-12, flags=(), atol=0.0):
        """R definition: binary64 evaluation of the same tree bit-for-bit, 60-digit evaluation within rel"""
        o = self.m.by_name[name]
        self.count(frag)
        try:
            fv = self.evf.out(o, {n: (np.float64(args[n]) if s == "R" else args[n]) for n, s in o.params if s != "F"})
            dv = self.evd.out(o, {n: (Decimal(float(args[n])) if s == "R" else args[n]) for n, s in o.params if s != "F"})
        except Exception as ex:                      # noqa: BLE001
            self.differ(frag, f"{name}{args}: model evaluation failed: {ex!r}")
            return None
        if not same_float(fv, real):
            self.differ(frag, f"{name}{args}: real {float(real)!r} != tree in binary64 {float(fv)!r}")
        d = float(dv)
        if not (abs(d - float(real)) <= rel * max(abs(d), 1e-300) + atol):
            if "no-dec" not in flags:
                self.differ(frag, f"{name}{args}: real {float(real)!r} vs 60-digit value of the tree {d!r}")
        return dv

    def finish(self, tag):
        ctx = self.ctx
        for frag in sorted(set(self.n) | set(self.mismatch)):
            bad = self.mismatch.get(frag, [])
            ok = ctx.oblige(f"translator_validation:grid:{frag}", "correspondence", not bad,
                            f"{self.n.get(frag, 0)} comparisons of the translated tree with the real code; {len(bad)} differ: {bad[:3]}")
            if not ok:
                self.broken.append((f"translator_validation:grid:{frag}", f"translated {frag} and the real code differ: {bad[:2]}"))
        ctx.count(sum(self.n.values()), 0)
        ctx.coverage.setdefault("grid_comparisons", {}).update({f"{tag}:{k}": v for k, v in self.n.items()})
        if self.coq is not None:
            self.coq.run(ctx, self.broken, tag)


# --------------------------------------------------------------------------- monitors on the REAL outputs (independent of the model)


def is_multiple(g, m):
    q = F(g) / F(m)
    return q.denominator == 1


def mon_force_to_grid(x, m, g, gg):
    """x, m finite; g = real force_to_grid(x, m); gg = real force_to_grid(g, m)"""
    if not is_multiple(g, m):
        return ("grid:force_to_grid:not-a-multiple", f"force_to_grid({x!r}, {m!r}) = {g!r} is not an integer multiple of the mesh")
    if abs(F(g) - F(x)) > F(m) / 2:
        return ("grid:force_to_grid:farther-than-half", f"force_to_grid({x!r}, {m!r}) = {g!r} is farther than mesh/2 from x")
    if gg != g:
        return ("grid:force_to_grid:not-idempotent", f"force_to_grid(force_to_grid({x!r})) = {gg!r} != {g!r}")
    if abs(F(g) - F(x)) == F(m) / 2 and (F(g) / F(m)).numerator % 2 != 0:
        return ("grid:force_to_grid:tie-not-even", f"force_to_grid({x!r}, {m!r}) = {g!r}: a tie must go to the even multiple (np.round)")
    return None


def mon_search_box(lb, ub, m, lbs, ubs):
    if not math.isfinite(lb):
        if lbs != lb:
            return ("grid:search-box:infinite-bound-moved", f"lower bound {lb!r} -> {lbs!r}")
    else:
        if not (F(lb) <= F(lbs)):
            return ("grid:search-box:lb-search-below-lb", f"lb_search {lbs!r} < lb {lb!r} (mesh {m!r}): the search box leaves the hard box")
        if not (F(lbs) < F(lb) + F(m)):
            return ("grid:search-box:lb-search-not-least", f"lb_search {lbs!r} >= lb + mesh ({lb!r} + {m!r}): not the least grid point inside")
        if not is_multiple(lbs, m):
            return ("grid:search-box:lb-search-off-grid", f"lb_search {lbs!r} is not a multiple of the mesh {m!r} (lb {lb!r})")
    if not math.isfinite(ub):
        if ubs != ub:
            return ("grid:search-box:infinite-bound-moved", f"upper bound {ub!r} -> {ubs!r}")
    else:
        if not (F(ubs) <= F(ub)):
            return ("grid:search-box:ub-search-above-ub", f"ub_search {ubs!r} > ub {ub!r} (mesh {m!r}): the search box leaves the hard box")
        if not (F(ub) - F(m) < F(ubs)):
            return ("grid:search-box:ub-search-not-greatest", f"ub_search {ubs!r} <= ub - mesh ({ub!r} - {m!r}): not the greatest grid point inside")
        if not is_multiple(ubs, m):
            return ("grid:search-box:ub-search-off-grid", f"ub_search {ubs!r} is not a multiple of the mesh {m!r} (ub {ub!r})")
    if math.isfinite(lb) and math.isfinite(ub) and F(lb) + F(m) <= F(ub) and not (lbs <= ubs):
        return ("grid:search-box:empty", f"box [{lb!r}, {ub!r}] is at least one mesh step {m!r} wide but lb_search {lbs!r} > ub_search {ubs!r}")
    return None


def mon_start(x, lb, ub, m, u0, rejected):
    """u0 = real optim_state['u'] coordinate for transformed start x; rejected = the constructor's re-check raised for this coordinate"""
    inside = lb <= u0 <= ub
    if rejected == inside:
        return ("grid:start:recheck-wrong", f"u0 {u0!r} in [{lb!r}, {ub!r}] is {inside} but the re-check {'raised' if rejected else 'did not raise'}")
    if math.isfinite(u0) and not is_multiple(u0, m):
        return ("grid:start:off-grid", f"u0 {u0!r} (from x {x!r}) is not a multiple of the search mesh {m!r}")
    wide = (not math.isfinite(lb)) or (not math.isfinite(ub)) or F(lb) + F(m) <= F(ub)
    if lb <= x <= ub and wide and not inside:
        return ("grid:start:outside-box", f"start x {x!r} inside [{lb!r}, {ub!r}] (at least one mesh step {m!r} wide) is moved to u0 {u0!r} outside the box")
    if math.isfinite(u0) and abs(F(u0) - F(x)) > F(3, 2) * F(m):
        return ("grid:start:moved-too-far", f"start x {x!r} moved to {u0!r}: more than 1.5 mesh steps {m!r}")
    return None


def exact_snap_exponent(p, tol):
    """least integer c with tol <= p^c (exact rationals; p > 1, tol > 0)"""
    p, tol = F(p), F(tol)
    c = 0
    while p ** c < tol:
        c += 1
    while p ** (c - 1) >= tol:
        c -= 1
    return c


SNAP_SLACK = F(1, 2 ** 48)


def mon_snap(p, tol, snapped, obs=None):
    """the snapped tolerance is the least power of p that is >= tol.  The code decides with binary64 log / divide / ceil: when
    tol is within 2^-48 (relative) of a power of p the quotient of logarithms cannot tell on which side it lies, and either
    neighbouring exponent is accepted (counted in obs as an observation, see the final report of the grid builder)."""
    c = exact_snap_exponent(p, tol)
    P, t, s = F(p), F(tol), F(snapped)
    if s == P ** c:
        return None
    near_below = s == P ** (c - 1) and t <= P ** (c - 1) * (1 + SNAP_SLACK)       # tol a hair above p^(c-1), code chose p^(c-1) < tol
    near_above = s == P ** (c + 1) and t >= P ** c * (1 - SNAP_SLACK)             # tol (almost) equal to p^c, code chose p^(c+1)
    if near_below or near_above:
        if obs is not None:
            obs["grid_snap_rounding_observations"] = obs.get("grid_snap_rounding_observations", 0) + 1
        return None
    return ("grid:tol-mesh:not-least-power", f"optim_state['tol_mesh'] = {snapped!r} for tol_mesh {tol!r}, multiplier {p!r}: the least power >= tol_mesh is {p!r}**{c}")


def mon_mesh(p, k, mesh, what="poll mesh size (exponent mesh_size_integer)"):
    if F(mesh) != F(p) ** int(k):
        return ("grid:mesh:not-the-power", f"{what} {mesh!r} != {p!r}**{k}")
    return None


SEARCH_MESH = "search mesh size (exponent min(0, k*search_grid_multiplier - search_grid_number) when locked, else the stored one)"


def mon_si(sloppy, ti, mesh, fe, tf, si):
    base = float(ti) * float(mesh) ** float(fe)
    want = max(base, float(tf)) if sloppy else base
    if sloppy and not (si >= tf):
        return ("grid:sufficient-improvement:below-tol-fun", f"sufficient_improvement {si!r} < tol_fun {tf!r} under the sloppy policy (mesh {mesh!r})")
    if not (abs(si - want) <= 1e-12 * max(abs(want), 1e-300)):
        return ("grid:sufficient-improvement:formula", f"sufficient_improvement {si!r} != tol_improvement*mesh**forcing_exponent floored = {want!r} (mesh {mesh!r})")
    return None


def mon_impr(fb, fn, sb, sn, q, z):
    """improvement returned for scalar inputs; only the SD-free cases are constrained"""
    zero_sd = sb is None or sn is None or (sb == 0 and sn == 0)
    if zero_sd or q == 0.5:
        want = fb - fn
        tol = 0.0 if zero_sd else 1e-12 * max(abs(want), abs(fb), abs(fn), 1e-300)
        if not (abs(z - want) <= tol):
            return ("grid:improvement:not-the-difference", f"_eval_improvement_({fb!r}, {fn!r}, {sb!r}, {sn!r}, {q!r}) = {z!r} != f_base - f_new = {want!r}")
        if zero_sd and ((z > 0) != (fn < fb)):
            return ("grid:improvement:sign", f"improvement {z!r} positive iff f_new {fn!r} < f_base {fb!r} fails")
    return None


MAX_PER_KEY = 2


def report(ctx, v, replay):
    """one monitor verdict; at most MAX_PER_KEY concrete inputs per key become VIOLATION lines, the rest are counted"""
    if v is None:
        return 0
    seen = ctx.coverage.setdefault("grid_monitor_failures", {})
    seen[v[0]] = seen.get(v[0], 0) + 1
    if seen[v[0]] <= MAX_PER_KEY:
        ctx.violate(v[0], v[1], replay)
    return 1


# --------------------------------------------------------------------------- component level


def comp_force_to_grid(ctx, acc, n):
    bb, gf = real_mods()
    rng = ctx.rng
    nv = 0
    for _ in range(n):
        m = gen_mesh(rng)
        xs = [gen_point(rng, m) for _ in range(6)] + [rng.choice([1e15, -2.0 ** 60, 1e290 * m, -1e290 * m])]
        g = gf.force_to_grid(np.array([xs]), m)
        gg = gf.force_to_grid(g.copy(), m)
        for x, a, b in zip(xs, g[0], gg[0]):
            nv += report(ctx, mon_force_to_grid(x, m, float(a), float(b)), dict(kind="force_to_grid", x=x, mesh=m))
            if acc is not None:
                acc.exact("force_to_grid", "src_force_to_grid", dict(x=x, search_mesh_size=m), a)
        for x in (INF, -INF):           # documented: an infinite value is a fixed point
            a = float(gf.force_to_grid(np.array([[x]]), m)[0, 0])
            if a != x:
                nv += report(ctx, ("grid:force_to_grid:infinite-moved", f"force_to_grid({x!r}, {m!r}) = {a!r}"), dict(kind="force_to_grid", x=x, mesh=m))
    # non-power-of-two meshes: the exact reading is no longer exact in binary64; only the monitors' half-mesh clause with slack is checked
    return nv


def comp_search_box(ctx, acc, n):
    bb, gf = real_mods()
    rng = ctx.rng
    nv = 0
    for _ in range(n):
        m = gen_mesh(rng)
        D = rng.randint(1, 5)
        boxes = [gen_box(rng, m) for _ in range(D)]
        lb = np.array([[b[0] for b in boxes]])
        ub = np.array([[b[1] for b in boxes]])
        stub = Stub(optim_state=dict(lb=lb.copy(), ub=ub.copy(), search_mesh_size=m))
        with np.errstate(all="ignore"):
            lbs, ubs = bb.BADS._update_search_bounds_(stub)
        if not (np.array_equal(stub.optim_state["lb"], lb) and np.array_equal(stub.optim_state["ub"], ub)):
            nv += report(ctx, ("grid:search-box:hard-bounds-modified", "_update_search_bounds_ changed optim_state['lb'/'ub'] in place"), dict(kind="search_box", lb=lb.tolist(), ub=ub.tolist(), mesh=m))
        for i in range(D):
            l, u, a, b = float(lb[0, i]), float(ub[0, i]), float(lbs[0, i]), float(ubs[0, i])
            nv += report(ctx, mon_search_box(l, u, m, a, b), dict(kind="search_box", lb=l, ub=u, mesh=m))
            if acc is not None:
                if math.isfinite(l):
                    acc.exact("_update_search_bounds_", "src_usb_lb_search", dict(os_lb=l, search_mesh_size=m), a)
                if math.isfinite(u):
                    acc.exact("_update_search_bounds_", "src_usb_ub_search", dict(os_ub=u, search_mesh_size=m), b)
    return nv


# ---- loosely located statements: used ONLY when the translator refuses the source, to look for a concrete failing input -------------

WATCH_INIT = {"loc:lb_search", "loc:ub_search", "loc:u0", "os:lb_search", "os:ub_search", "os:u", "self:u", "os:tol_mesh", "os:mesh_size",
              "os:search_mesh_size", "os:search_size_integer", "self:mesh_size_integer", "self:mesh_size", "self:search_mesh_size", "os:lb", "os:ub"}
WATCH_LOOP = {"self:mesh_size", "os:mesh_size", "os:search_size_integer", "os:search_mesh_size", "self:search_mesh_size", "os:lb_search",
              "os:ub_search", "self:sufficient_improvement", "os:search_sufficient_improvement"}


def loose_regions():
    """(init statements, init re-check, loop statements, loop stop test) found by the places they write, with no grammar check"""
    mod = T.parse_quiet((core.REPO / T.REL_BADS).read_text())
    cls = [c for c in mod.body if isinstance(c, ast.ClassDef) and c.name == "BADS"][0]
    fn = {f.name: f for f in cls.body if isinstance(f, ast.FunctionDef)}
    ib = fn["_init_optim_state_"].body
    init = [st for st in ib if isinstance(st, (ast.Assign, ast.AugAssign)) and set(T.written_places(st)) & WATCH_INIT
            and not any(T.same(st, o) for o in ("self.lower_bounds = self.var_transf.lb.copy()", "self.upper_bounds = self.var_transf.ub.copy()"))]
    rej = [st for st in ib if isinstance(st, ast.If) and any(isinstance(x, ast.Raise) for x in st.body)
           and "loc:u0" in [T.place(x) for x in ast.walk(st.test)]
           and {T.place(x) for x in ast.walk(st.test) if isinstance(x, (ast.Name, ast.Attribute)) and T.dotted(x) not in ("np", "np.any", "self")}
           <= {"loc:u0", "self:upper_bounds", "self:lower_bounds"}]
    loops = [st for st in fn["optimize"].body if isinstance(st, ast.While)]
    wb = loops[0].body if loops else []
    loop, stop = [], None
    for st in wb:
        w = set(T.written_places(st))
        if w & WATCH_LOOP and isinstance(st, (ast.Assign, ast.AugAssign, ast.If)) and "os:search_count" not in w and not any(isinstance(x, ast.Call) and T.dotted(x.func) in ("self._search_step_", "self._poll_step_") for x in ast.walk(st)):
            loop.append(st)
        if isinstance(st, ast.If) and "os:tol_mesh" in [T.place(x) for x in ast.walk(st.test)]:
            stop = st
    return init, (rej[0] if rej else None), loop, stop


class Options(dict):
    """self.options of the stub: the values under test on top of the real defaults"""
    base = None

    def __init__(self, **kw):
        if Options.base is None:
            try:
                logging.disable(logging.CRITICAL)
                b = build(dict(x0=[0.0], lb=[-2.0], ub=[2.0], plb=[-1.0], pub=[1.0], options=dict(display="off")))
                Options.base = {k: b.options[k] for k in b.options}
            except Exception:                      # noqa: BLE001
                Options.base = {}
            finally:
                logging.disable(logging.NOTSET)
        super().__init__(Options.base)
        self.update(kw)


def exec_init(stmts, rej_stmt, lb, ub, xu, k0, sgm, sgn, pmm, tol):
    """run the located statements of _init_optim_state_ on a stub; returns (stub, optim_state, raised)"""
    bb, gf = real_mods()
    stub = Stub(options=Options(init_mesh_size_integer=k0, search_grid_multiplier=sgm, search_grid_number=sgn,
                                poll_mesh_multiplier=pmm, tol_mesh=tol),
                lower_bounds=lb.copy(), upper_bounds=ub.copy(), x0=None, var_transf=None)
    ns = dict(np=np, self=stub, optim_state=dict(scale=1.0), force_to_grid=gf.force_to_grid, grid_units=lambda *a, **k: xu.copy())
    with np.errstate(all="ignore"):
        run_stmts(stmts, ns)
    raised = False
    try:
        if rej_stmt is not None:
            run_stmts([rej_stmt], ns)
    except ValueError:
        raised = True
    return stub, ns["optim_state"], raised


def mon_init(lb, ub, xu, k0, sgm, sgn, pmm, tol, stub, os_, raised, obs=None):
    """all grid clauses on the values the real statements produced; returns [(verdict, coordinate|None)]"""
    D = lb.shape[1]
    ks = min(0, k0 * sgm - sgn)
    m = pmm ** ks
    real_m = float(os_["search_mesh_size"])
    out = [(mon_mesh(pmm, k0, os_["mesh_size"]), None), (mon_mesh(pmm, ks, real_m, SEARCH_MESH), None),
           (mon_snap(pmm, tol, float(os_["tol_mesh"]), obs), None)]
    if real_m == m:
        for i in range(D):
            l, u, x = float(lb[0, i]), float(ub[0, i]), float(xu[0, i])
            a, b, u0, su = float(os_["lb_search"][0, i]), float(os_["ub_search"][0, i]), float(os_["u"][0, i]), float(stub.u[i])
            out.append((mon_search_box(l, u, m, a, b), i))
            if D == 1 or not raised:
                out.append((mon_start(x, l, u, m, u0, raised if D == 1 else False), i))
            if su != u0:
                out.append((("grid:start:self-u-differs", f"self.u {su!r} != optim_state['u'] {u0!r}"), i))
    return [(v, i) for v, i in out if v is not None]


def exec_loop(stmts, stop_stmt, lb, ub, k, ks_in, locked, sgm, sgn, sloppy, ti, fe, tf, pmm, tstate):
    bb, gf = real_mods()
    stub = Stub(options=Options(poll_mesh_multiplier=pmm, search_size_locked=locked, search_grid_multiplier=sgm, search_grid_number=sgn,
                                tol_improvement=ti, forcing_exponent=fe, sloppy_improvement=sloppy, tol_fun=tf),
                mesh_size_integer=k, optim_state=dict(search_size_integer=ks_in, lb=lb.copy(), ub=ub.copy(), tol_mesh=tstate))
    stub._update_search_bounds_ = types.MethodType(bb.BADS._update_search_bounds_, stub)
    ns = dict(np=np, self=stub)
    with np.errstate(all="ignore"):
        run_stmts(stmts, ns)
        stop = bool(eval_expr(stop_stmt.test, ns)) if stop_stmt is not None else None
    return stub, stop


def mon_loop(lb, ub, k, ks_in, locked, sgm, sgn, sloppy, ti, fe, tf, pmm, tstate, stub, stop):
    os_ = stub.optim_state
    D = lb.shape[1]
    ks = min(0, k * sgm - sgn) if locked else ks_in
    m = pmm ** ks
    mesh, smesh, si = float(os_["mesh_size"]), float(os_["search_mesh_size"]), float(stub.sufficient_improvement)
    out = [(mon_mesh(pmm, k, mesh), None), (mon_mesh(pmm, ks, smesh, SEARCH_MESH), None)]
    if smesh == m:
        for i in range(D):
            out.append((mon_search_box(float(lb[0, i]), float(ub[0, i]), m, float(os_["lb_search"][0, i]), float(os_["ub_search"][0, i])), i))
    out.append((mon_si(sloppy, ti, mesh, fe, tf, si), None))
    if stop is not None and stop != (F(mesh) < F(tstate)):
        out.append((("grid:tol-mesh:stop-test", f"mesh {mesh!r} vs tolerance {tstate!r}: the loop test gives {stop}"), None))
    if (ks_in <= k or locked) and k <= 0 and sgm >= 1 and not (smesh <= mesh):
        out.append((("grid:mesh:search-mesh-exceeds-poll-mesh", f"search mesh {smesh!r} > poll mesh {mesh!r} (k={k}, ks_in={ks_in}, locked={locked}, sgm={sgm}, sgn={sgn})"), None))
    return [(v, i) for v, i in out if v is not None]


def comp_init_region(ctx, acc, n, loose=None):
    """the located statements of _init_optim_state_ run on a stub (arbitrary boxes, including ones narrower than a step).
    acc None: monitors only, on the loosely located statements"""
    bb, gf = real_mods()
    rng = ctx.rng
    if acc is not None:
        m_ = acc.m
        stmts, rej_stmt = def_stmts(m_.init), m_.init_rej_stmt
    else:
        stmts, rej_stmt = loose[0], loose[1]
    nv = 0
    for _ in range(n):
        k0 = rng.choice([0, 0, 0, -1, -2, -5, 1])
        sgm = rng.choice([2, 2, 1, 3])
        sgn = rng.choice([10, 10, 0, 4, 20])
        pmm = 2.0
        tol = rng.choice([1e-6, 1e-3, 0.01, 2.0 ** -20, 2.0 ** -6, 0.25, 1.0, 3e-7, float(np.nextafter(2.0 ** -10, 1)), float(np.nextafter(2.0 ** -10, 0)),
                          10 ** rng.uniform(-9, 0)])
        ks = min(0, k0 * sgm - sgn)
        m = pmm ** ks
        D = rng.randint(1, 4)
        boxes = [gen_box(rng, m) for _ in range(D)]
        lb = np.array([[b[0] for b in boxes]])
        ub = np.array([[b[1] for b in boxes]])
        xu = np.array([[b[2] for b in boxes]])
        try:
            stub, os_, raised = exec_init(stmts, rej_stmt, lb, ub, xu, k0, sgm, sgn, pmm, tol)
            vals = [(float(lb[0, i]), float(ub[0, i]), float(xu[0, i]), float(os_["lb_search"][0, i]), float(os_["ub_search"][0, i]),
                     float(os_["u"][0, i]), float(stub.u[i])) for i in range(D)]
            ts = float(os_["tol_mesh"])
            verdicts = mon_init(lb, ub, xu, k0, sgm, sgn, pmm, tol, stub, os_, raised, ctx.coverage)
        except Exception as ex:                      # noqa: BLE001
            if acc is not None:
                acc.differ("_init_optim_state_", f"the located statements do not run on the stub: {ex!r}")
            continue
        rp = dict(kind="init_region", lb=lb.tolist(), ub=ub.tolist(), x_units=xu.tolist(), init_mesh_size_integer=k0, search_grid_multiplier=sgm,
                  search_grid_number=sgn, tol_mesh=tol)
        for v, i in verdicts:
            nv += report(ctx, v, dict(rp, coordinate=i))
        if acc is None:
            continue
        Zargs = dict(init_mesh_size_integer=k0, search_grid_multiplier=sgm, search_grid_number=sgn)
        acc.exact("_init_optim_state_", "src_init_mesh_size_integer", Zargs, stub.mesh_size_integer)
        acc.exact("_init_optim_state_", "src_init_search_size_integer", Zargs, os_["search_size_integer"])
        acc.exact("_init_optim_state_", "src_init_mesh_size", dict(poll_mesh_multiplier=pmm, mesh_size_integer=k0), os_["mesh_size"])
        acc.exact("_init_optim_state_", "src_init_search_mesh_size", dict(poll_mesh_multiplier=pmm, search_size_integer=int(os_["search_size_integer"])), os_["search_mesh_size"])
        if not (stub.mesh_size == os_["mesh_size"] and stub.search_mesh_size == os_["search_mesh_size"] and os_["search_mesh_size"] == m):
            acc.differ("_init_optim_state_", f"mesh attributes and optim_state entries differ: {stub.mesh_size}, {os_['mesh_size']}, {stub.search_mesh_size}, {os_['search_mesh_size']}, {m}")
        any_rej = False
        for i, (l, u, x, a, b, u0, su) in enumerate(vals):
            if math.isfinite(l):
                acc.exact("_init_optim_state_", "src_init_lb_search", dict(lb=l, search_mesh_size=m), a)
            if math.isfinite(u):
                acc.exact("_init_optim_state_", "src_init_ub_search", dict(ub=u, search_mesh_size=m), b)
            if math.isfinite(l) and math.isfinite(u):
                acc.exact("_init_optim_state_", "src_init_u0", dict(x_units=x, lb=l, ub=u, search_mesh_size=m), u0)
                acc.exact("_init_optim_state_", "src_init_self_u", dict(x_units=x, lb=l, ub=u, search_mesh_size=m), su)
                rej = acc.evq.out(m_.init_rej, dict(u0=fr(u0), lb=fr(l), ub=fr(u)))
                acc.coq.add("src_init_u0_rejected", dict(u0=u0, lb=l, ub=u), rej)
                any_rej = any_rej or rej
            else:
                any_rej = any_rej or (u0 > u) or (u0 < l)
        acc.count("_init_optim_state_")
        if any_rej != raised:
            acc.differ("_init_optim_state_", f"re-check: model says rejected={any_rej}, the real statement raised={raised} (lb {lb.tolist()}, ub {ub.tolist()}, x {xu.tolist()}, mesh {m})")
        # the snapping
        acc.real_number("_init_optim_state_/tol_mesh", "src_init_tol_mesh", dict(poll_mesh_multiplier=pmm, tol_mesh=tol), ts, flags=("no-dec",))
        c = exact_snap_exponent(pmm, tol)
        dv = acc.evd.out(m_.init_tol, dict(poll_mesh_multiplier=Decimal(pmm), tol_mesh=Decimal(tol)))
        if abs(dv - Decimal(2) ** c) > Decimal(10) ** -30 * Decimal(2) ** c:
            acc.differ("_init_optim_state_/tol_mesh", f"60-digit value of the tree for tol_mesh {tol!r} is {float(dv)!r}, the exact least power is 2**{c}")
    return nv


def comp_loop_region(ctx, acc, n, loose=None):
    bb, gf = real_mods()
    rng = ctx.rng
    if acc is not None:
        m_ = acc.m
        stmts, stop_stmt = def_stmts(m_.loop), m_.loop_stop_stmt
    else:
        stmts, stop_stmt = loose[2], loose[3]
    nv = 0
    for _ in range(n):
        k = rng.choice([0, 0, -1, -2, -3, -5, -8, -13, -20, -30, 1, 2])
        sgm = rng.choice([2, 2, 1, 3])
        sgn = rng.choice([10, 10, 0, 4, 20])
        locked = rng.random() < 0.6
        ks_in = rng.choice([0, -1, -4, -10, -16, -26, -40, k, k - 1])
        sloppy = rng.random() < 0.6
        ti = rng.choice([1, 1.0, 0.5, 2.0, 0.0, 1e-3])
        fe = rng.choice([1.5, 1.5, 3 / 2, 1.0, 2.0, 0.5, 0.0])
        tf = rng.choice([1e-3, 1e-3, 1e-12, 0.0, 0.1, 10.0])
        pmm = 2.0
        tstate = 2.0 ** rng.choice([-20, -19, -10, -6, -2, 0, k, k + 1, k - 1])
        ks = min(0, k * sgm - sgn) if locked else ks_in
        m = pmm ** ks
        D = rng.randint(1, 4)
        boxes = [gen_box(rng, m) for _ in range(D)]
        lb = np.array([[b[0] for b in boxes]])
        ub = np.array([[b[1] for b in boxes]])
        args = (lb, ub, k, ks_in, locked, sgm, sgn, sloppy, ti, fe, tf, pmm, tstate)
        try:
            stub, stop = exec_loop(stmts, stop_stmt, *args)
            os_ = stub.optim_state
            mesh, smesh, si = float(os_["mesh_size"]), float(os_["search_mesh_size"]), float(stub.sufficient_improvement)
            vals = [(float(lb[0, i]), float(ub[0, i]), float(os_["lb_search"][0, i]), float(os_["ub_search"][0, i])) for i in range(D)]
            verdicts = mon_loop(*args, stub, stop)
        except Exception as ex:                      # noqa: BLE001
            if acc is not None:
                acc.differ("optimize/loop", f"the located statements do not run on the stub: {ex!r}")
            continue
        rp = dict(kind="loop_region", lb=lb.tolist(), ub=ub.tolist(), mesh_size_integer=k, search_size_integer=ks_in, search_size_locked=locked,
                  search_grid_multiplier=sgm, search_grid_number=sgn, tol_improvement=ti, forcing_exponent=fe, sloppy_improvement=sloppy, tol_fun=tf,
                  tol_mesh_state=tstate)
        for v, i in verdicts:
            nv += report(ctx, v, dict(rp, coordinate=i))
        if acc is None:
            continue
        f = "optimize/loop"
        acc.exact(f, "src_loop_mesh_size", dict(poll_mesh_multiplier=pmm, mesh_size_integer=k), os_["mesh_size"])
        Z = dict(search_size_locked=locked, search_size_integer_in=ks_in, mesh_size_integer=k, search_grid_multiplier=sgm, search_grid_number=sgn)
        acc.exact(f, "src_loop_search_size_integer", Z, os_["search_size_integer"])
        acc.exact(f, "src_loop_search_mesh_size", dict(poll_mesh_multiplier=pmm, search_size_integer=int(os_["search_size_integer"])), stub.search_mesh_size)
        if not (stub.mesh_size == os_["mesh_size"] and stub.search_mesh_size == os_["search_mesh_size"] == m):
            acc.differ(f, f"mesh attributes and optim_state entries differ: {stub.mesh_size}, {os_['mesh_size']}, {stub.search_mesh_size}, {os_['search_mesh_size']}, {m}")
        for i, (l, u, a, b) in enumerate(vals):
            if math.isfinite(l):
                acc.exact(f, "src_loop_lb_search", dict(os_lb=l, search_mesh_size=m), a)
            if math.isfinite(u):
                acc.exact(f, "src_loop_ub_search", dict(os_ub=u, search_mesh_size=m), b)
        R = dict(sloppy_improvement=sloppy, tol_improvement=ti, mesh_size=mesh, forcing_exponent=fe, tol_fun=tf)
        acc.real_number(f + "/sufficient_improvement", "src_loop_sufficient_improvement", R, float(os_["search_sufficient_improvement"]))
        acc.real_number(f + "/sufficient_improvement", "src_loop_self_sufficient_improvement", R, si)
        acc.exact(f, "src_loop_tolmesh_stop", dict(mesh_size=mesh, tol_mesh_state=tstate), stop)
    return nv


def comp_poll_region(ctx, acc, n):
    rng = ctx.rng
    m_ = acc.m
    stmts = def_stmts(m_.poll)
    nv = 0
    for _ in range(n):
        k = rng.randint(-30, 2)
        sgm = rng.choice([2, 2, 1, 3])
        sgn = rng.choice([10, 10, 0, 4, 20])
        ks_in = rng.choice([0, -10, -12, -16, -40, k, 2 * k - 10])
        stub = Stub(options=dict(poll_mesh_multiplier=2.0, search_grid_multiplier=sgm, search_grid_number=sgn), mesh_size_integer=k,
                    optim_state=dict(search_size_integer=ks_in))
        run_stmts(stmts, dict(np=np, self=stub))
        Z = dict(search_size_integer_in=ks_in, mesh_size_integer=k, search_grid_multiplier=sgm, search_grid_number=sgn)
        acc.exact("_poll_step_", "src_poll_search_size_integer", Z, stub.optim_state["search_size_integer"])
        acc.exact("_poll_step_", "src_poll_mesh_size", dict(poll_mesh_multiplier=2.0, mesh_size_integer=k), stub.optim_state["mesh_size"])
        if stub.mesh_size != stub.optim_state["mesh_size"]:
            acc.differ("_poll_step_", "self.mesh_size != optim_state['mesh_size']")
        ks_out = int(stub.optim_state["search_size_integer"])
        rp = dict(kind="poll_region", **Z)
        nv += report(ctx, mon_mesh(2.0, k, stub.optim_state["mesh_size"]), rp)
        if ks_out > ks_in or (k <= 0 and ks_out > k):
            nv += report(ctx, ("grid:mesh:search-exponent-after-failed-poll", f"after a failed poll the search exponent {ks_in} became {ks_out} with poll exponent {k} "
                               f"(search_grid_multiplier {sgm}, search_grid_number {sgn}): it must not grow and not exceed the poll exponent"), rp)
    return nv


def comp_improvement(ctx, acc, n):
    bb, gf = real_mods()
    from scipy.special import erfcinv
    rng = ctx.rng
    nv = 0
    stub = Stub()

    def val():
        r = rng.random()
        return rng.choice([0.0, 1.0, -1.0, 1e-300, 1e300]) if r < 0.2 else round(rng.uniform(-100, 100), rng.randint(0, 6)) if r < 0.6 else rng.gauss(0, 1) * 10 ** rng.randint(-12, 12)
    for _ in range(n):
        fb, fn = val(), val()
        if rng.random() < 0.2:
            fn = fb
        q = rng.choice([0.5, 0.5, 0.5, 0.25, 0.75, 0.9, 0.1])
        z = float(bb.BADS._eval_improvement_(stub, fb, fn, None, 0.0 if rng.random() < 0.5 else None, q))
        nv += report(ctx, mon_impr(fb, fn, None, None, q, z), dict(kind="impr", f_base=fb, f_new=fn, s_base=None, s_new=None, q=q))
        if acc is not None:
            acc.count("_eval_improvement_")
            want = float(acc.evq.out(acc.m.impr_none, dict(f_base=fr(fb), f_new=fr(fn))))       # correctly rounded exact difference
            if not same_float(want, z):
                acc.differ("_eval_improvement_", f"no-SD arm: real {z!r} != rounded exact difference {want!r} for ({fb!r}, {fn!r})")
            acc.real_number("_eval_improvement_", "src_impr_none_R", dict(f_base=fb, f_new=fn), z, flags=("no-dec",))
        sb, sn = rng.choice([0.0, 0.0, abs(val()) % 50, 1.0]), rng.choice([0.0, 0.0, abs(val()) % 50, 0.5])
        zz = bb.BADS._eval_improvement_(stub, np.array([fb]), np.array([fn]), np.array([sb]), np.array([sn]), q)
        z2 = float(np.asarray(zz).reshape(-1)[0])
        nv += report(ctx, mon_impr(fb, fn, sb, sn, q, z2), dict(kind="impr", f_base=fb, f_new=fn, s_base=sb, s_new=sn, q=q))
        if acc is not None:
            big = max(abs(fb), abs(fn), sb, sn) > 1e100          # s**2 may overflow in binary64
            # binary64 errors (cancellation in sigma*x0 + mu, underflow of s**2) are relative to the operands, not to the result
            acc.real_number("_eval_improvement_", "src_impr_sd", dict(f_base=fb, f_new=fn, s_base=sb, s_new=sn, q=q), z2,
                            rel=1e-9, flags=("no-dec",) if big else (), atol=1e-9 * max(abs(fb), abs(fn), sb, sn) + 1e-290)
    return nv


def comp_cc_region(ctx, acc, n):
    rng = ctx.rng
    m_ = acc.m
    stmts = def_stmts(m_.cc)
    for _ in range(n):
        tol_mesh = 2.0 ** rng.randint(-30, 0)
        h = tol_mesh / 2
        U = np.array([[gen_point(rng, h) for _ in range(3)] for _ in range(3)])
        X = np.array([[gen_point(rng, h) for _ in range(3)] for _ in range(4)])
        ns = dict(np=np, tol_mesh=tol_mesh, U_new=U, function_logger=Stub(X=X), X_max_idx=2)
        run_stmts(stmts, ns)
        acc.exact("contraints_check", "src_cc_tol", dict(tol_mesh=tol_mesh), ns["tol"])
        for x, k in zip(U.reshape(-1), ns["u1"].reshape(-1)):
            acc.exact("contraints_check", "src_cc_key_candidate", dict(x=float(x), tol_mesh=tol_mesh), k)
        for x, k in zip(X[:3].reshape(-1), ns["u2"].reshape(-1)):
            acc.exact("contraints_check", "src_cc_key_logged", dict(x=float(x), tol_mesh=tol_mesh), k)
        if ns["u2"].shape != (3, 3):
            acc.differ("contraints_check", "u2 does not cover exactly X[:X_max_idx+1]")
    return 0


# --------------------------------------------------------------------------- real objects


def gen_problem(rng):
    """a valid problem.  Every third one stresses the nudge of the gridised start: coarse search mesh (small search_grid_number),
    hard bounds off the grid, x0 on a hard bound (the constructor moves it inside by a margin smaller than half a coarse step)"""
    D = rng.randint(1, 3)
    stress = rng.random() < 0.35
    lb, ub, plb, pub, x0 = [], [], [], [], []
    for _ in range(D):
        kind = rng.random()
        c = rng.choice([0.0, 0.3, -7.0, 100.0, round(rng.uniform(-50, 50), 2)])
        w = rng.choice([1.0, 0.1, 4.0, 37.5, round(rng.uniform(0.01, 100), 3)])
        pl, pu = c - w, c + w
        if stress:
            l, u = pl - rng.choice([0.3, 0.05, 0.77, 1.1]) * w, pu + rng.choice([0.3, 0.05, 0.77, 1.1]) * w
        elif kind < 0.25:
            l, u = pl, pu                                       # tight
        elif kind < 0.4:
            l, u = -INF, INF
        elif kind < 0.5:
            l, u = pl - rng.choice([0.5, 3.0]) * w, INF
        else:
            l, u = pl - rng.choice([1e-3, 0.3, 2.0, 10.0]) * w, pu + rng.choice([1e-3, 0.3, 2.0, 10.0]) * w
        t = rng.random()
        if stress:
            x = l if t < 0.45 else u if t < 0.9 else pl + (pu - pl) * rng.random()
        else:
            x = (l if math.isfinite(l) else pl) if t < 0.2 else (u if math.isfinite(u) else pu) if t < 0.4 else pl + (pu - pl) * rng.random()
        lb.append(l); ub.append(u); plb.append(pl); pub.append(pu); x0.append(x)
    opts = dict(display="off")
    if rng.random() < 0.7:
        opts["tol_mesh"] = rng.choice([1e-6, 1e-3, 0.01, 2.0 ** -20, 2.0 ** -6, 0.25, 3e-7, 10 ** rng.uniform(-9, -1)])
    if stress:
        opts["search_grid_number"] = rng.choice([0, 1, 2, 3, 4])
    elif rng.random() < 0.3:
        opts["search_grid_number"] = rng.choice([4, 10, 20])
    if rng.random() < 0.2:
        opts["init_mesh_size_integer"] = rng.choice([-1, -3])
    if rng.random() < 0.3:
        opts["nonlinear_scaling"] = False
    return dict(D=D, lb=lb, ub=ub, plb=plb, pub=pub, x0=x0, options=opts)


def build(pr):
    from pybads import BADS
    return BADS(lambda x: float(np.sum(np.asarray(x) ** 2)), np.array([pr["x0"]]), np.array([pr["lb"]]), np.array([pr["ub"]]),
                np.array([pr["plb"]]), np.array([pr["pub"]]), options=dict(pr["options"]))


def real_objects(ctx, acc, n):
    """BADS(...) constructed for real; optim_state against the model and the monitors"""
    rng = ctx.rng
    nv = done = 0
    for _ in range(n):
        pr = gen_problem(rng)
        logging.disable(logging.CRITICAL)
        try:
            with np.errstate(all="ignore"):
                b = build(pr)
        except Exception as ex:                      # noqa: BLE001  (rejected problems are C08's business)
            ctx.coverage["grid_real_objects_rejected"] = ctx.coverage.get("grid_real_objects_rejected", 0) + 1
            if "not within the hard bounds" in str(ex) or "Initpoint" in str(ex):
                nv += report(ctx, ("grid:start:valid-start-rejected", f"BADS(...) rejected a valid starting point after gridisation: {ex}"), dict(kind="object", problem=pr))
            continue
        finally:
            logging.disable(logging.NOTSET)
        done += 1
        os_ = b.optim_state
        o = b.options
        pmm, k, ks = float(o["poll_mesh_multiplier"]), int(b.mesh_size_integer), int(os_["search_size_integer"])
        m = float(os_["search_mesh_size"])
        lb, ub = np.asarray(b.lower_bounds, float).reshape(-1), np.asarray(b.upper_bounds, float).reshape(-1)
        xu = np.asarray(b.var_transf(b.x0), float).reshape(-1)
        u0 = np.asarray(os_["u"], float).reshape(-1)
        lbs, ubs = np.asarray(os_["lb_search"], float).reshape(-1), np.asarray(os_["ub_search"], float).reshape(-1)
        nv += report(ctx, mon_mesh(pmm, k, os_["mesh_size"]), dict(kind="object", problem=pr))
        nv += report(ctx, mon_mesh(pmm, ks, m, SEARCH_MESH), dict(kind="object", problem=pr))
        nv += report(ctx, mon_snap(pmm, float(o["tol_mesh"]), float(os_["tol_mesh"]), ctx.coverage), dict(kind="object", problem=pr))
        if not (m <= float(os_["mesh_size"])):
            nv += report(ctx, ("grid:mesh:search-mesh-exceeds-poll-mesh", f"search mesh {m!r} > poll mesh {os_['mesh_size']!r} after construction"), dict(kind="object", problem=pr))
        for i in range(b.D):
            l, u, x = float(lb[i]), float(ub[i]), float(xu[i])
            nv += report(ctx, mon_search_box(l, u, m, float(lbs[i]), float(ubs[i])), dict(kind="object", problem=pr, coordinate=i))
            nv += report(ctx, mon_start(x, l, u, m, float(u0[i]), False), dict(kind="object", problem=pr, coordinate=i))
            if not (l <= -1.0 and 1.0 <= u):
                ctx.notes.append(f"grid: internal hard box [{l}, {u}] does not contain [-1, 1] for {pr}")
            if acc is not None:
                f = "real BADS objects"
                if math.isfinite(l):
                    acc.exact(f, "src_init_lb_search", dict(lb=l, search_mesh_size=m), lbs[i], coq=False)
                if math.isfinite(u):
                    acc.exact(f, "src_init_ub_search", dict(ub=u, search_mesh_size=m), ubs[i], coq=False)
                if math.isfinite(l) and math.isfinite(u) and abs(x) / m < 2.0 ** 50:
                    acc.exact(f, "src_init_u0", dict(x_units=x, lb=l, ub=u, search_mesh_size=m), u0[i], coq=False)
        if acc is not None:
            f = "real BADS objects"
            Z = dict(init_mesh_size_integer=int(o["init_mesh_size_integer"]), search_grid_multiplier=int(o["search_grid_multiplier"]), search_grid_number=int(o["search_grid_number"]))
            acc.exact(f, "src_init_mesh_size_integer", Z, k, coq=False)
            acc.exact(f, "src_init_search_size_integer", Z, ks, coq=False)
            acc.exact(f, "src_init_mesh_size", dict(poll_mesh_multiplier=pmm, mesh_size_integer=k), os_["mesh_size"], coq=False)
            acc.exact(f, "src_init_search_mesh_size", dict(poll_mesh_multiplier=pmm, search_size_integer=ks), m, coq=False)
            acc.real_number(f, "src_init_tol_mesh", dict(poll_mesh_multiplier=pmm, tol_mesh=float(o["tol_mesh"])), float(os_["tol_mesh"]), flags=("no-dec",))
    ctx.coverage["grid_real_objects"] = ctx.coverage.get("grid_real_objects", 0) + done
    return nv


def run_level(ctx, acc, traces, what=("box", "mesh", "si", "impr")):
    """recorded real runs (harness/trace.py): every mesh size, search box, forcing value and improvement against the model and the monitors"""
    nv = 0
    nev = 0
    for tr in traces:
        if "problem" not in tr or "options0" not in tr:
            continue
        o0 = tr["options0"]
        ev = tr["events"]
        initd = [e for e in ev if e[0] == "init_done"]
        if not initd:
            continue
        pmm = float(o0["poll_mesh_multiplier"])
        lb, ub = tr["problem"]["lb"], tr["problem"]["ub"]
        spec = tr["spec"]
        ks_now = initd[0][1]["ks"]
        rp = dict(kind="run", spec=spec)
        if "mesh" in what:
            v = mon_snap(pmm, float(o0["tol_mesh"]), float(initd[0][2]["tol_mesh_state"]), ctx.coverage)
            nv += report(ctx, v, rp)
            if acc is not None:
                acc.real_number("recorded runs/tol_mesh", "src_init_tol_mesh", dict(poll_mesh_multiplier=pmm, tol_mesh=float(o0["tol_mesh"])),
                                float(initd[0][2]["tol_mesh_state"]), flags=("no-dec",))
        for e in ev:
            kind = e[0]
            if kind in ("search_begin", "poll_begin", "poll_end"):
                s = e[1]
                nev += 1
                if kind != "poll_end":
                    ks_now = s["ks"]
                if "mesh" in what:
                    nv += report(ctx, mon_mesh(pmm, s["k"], s["mesh"]), rp)
                    if acc is not None:
                        acc.exact("recorded runs/mesh", "src_loop_mesh_size" if kind != "poll_end" else "src_poll_mesh_size",
                                  dict(poll_mesh_multiplier=pmm, mesh_size_integer=int(s["k"])), s["mesh"], coq=False)
                if "si" in what and kind != "poll_end" and s["SI"] is not None:
                    R = dict(sloppy_improvement=bool(o0["sloppy_improvement"]), tol_improvement=float(o0["tol_improvement"]), mesh_size=float(s["mesh"]),
                             forcing_exponent=float(o0["forcing_exponent"]), tol_fun=float(o0["tol_fun"]))
                    nv += report(ctx, mon_si(R["sloppy_improvement"], R["tol_improvement"], R["mesh_size"], R["forcing_exponent"], R["tol_fun"], s["SI"]), rp)
                    if acc is not None:
                        acc.real_number("recorded runs/sufficient_improvement", "src_loop_self_sufficient_improvement", R, s["SI"])
            elif kind == "hist" and "mesh" in what and e[2] == "search_mesh_size" and e[3] is not None:
                if acc is not None:
                    acc.exact("recorded runs/mesh", "src_loop_search_mesh_size", dict(poll_mesh_multiplier=pmm, search_size_integer=int(ks_now)), e[3], coq=False)
                nv += report(ctx, mon_mesh(pmm, ks_now, e[3], SEARCH_MESH), rp)
            elif kind == "filter" and "box" in what:
                _, site, phase, U, flb, fub, tolm, proj = e[:8]
                nev += 1
                if proj:
                    m = pmm ** (initd[0][1]["ks"] if phase == "init" else ks_now)
                    for i, (l, u, a, b) in enumerate(zip(lb, ub, flb, fub)):
                        nv += report(ctx, mon_search_box(l, u, m, a, b), dict(rp, coordinate=i, phase=phase))
                        if acc is not None:
                            nm = ("src_init_%s_search" if phase == "init" else "src_loop_%s_search")
                            if math.isfinite(l):
                                acc.exact("recorded runs/search box", nm % "lb", ({"lb": l} if phase == "init" else {"os_lb": l}) | {"search_mesh_size": m}, a, coq=False)
                            if math.isfinite(u):
                                acc.exact("recorded runs/search box", nm % "ub", ({"ub": u} if phase == "init" else {"os_ub": u}) | {"search_mesh_size": m}, b, coq=False)
                elif flb != lb or fub != ub:
                    nv += report(ctx, ("grid:poll-box:not-the-hard-box", f"poll candidates filtered against {flb}, {fub}, not the hard box {lb}, {ub}"), rp)
            elif kind == "impr" and "impr" in what:
                _, phase, fb, fn, sb, sn, q, z = e
                if fb is None or fn is None or z is None or not all(math.isfinite(v) for v in (fb, fn, z)):
                    continue
                nev += 1
                nv += report(ctx, mon_impr(fb, fn, sb, sn, q, z), dict(rp, phase=phase))
                if acc is not None and sb is not None and sn is not None and math.isfinite(sb) and math.isfinite(sn):
                    acc.real_number("recorded runs/improvement", "src_impr_sd", dict(f_base=fb, f_new=fn, s_base=sb, s_new=sn, q=q), z, flags=("no-dec",))
        u0 = tr["problem"].get("u0")
        if "box" in what and u0 is not None:
            for i, (l, u, x) in enumerate(zip(lb, ub, u0)):
                if not (l <= x <= u):
                    nv += report(ctx, ("grid:start:outside-box", f"constructed u0 {x!r} outside [{l!r}, {u!r}]"), dict(rp, coordinate=i))
    ctx.coverage["grid_run_events_checked"] = ctx.coverage.get("grid_run_events_checked", 0) + nev
    return nv


# --------------------------------------------------------------------------- entry points used by the plug-ins

PARTS = {
    "C01": ("force_to_grid", "search_box", "init", "loop", "objects"),
    "C13": ("init", "loop", "poll", "improvement", "objects"),
    "C17": ("cc", "force_to_grid"),
}


def load_model(ctx):
    try:
        return T.load()
    except Exception as ex:                      # noqa: BLE001   (./check has already recorded translate:grid as broken)
        ctx.notes.append("grid tie runs the monitors only: source not translatable: %r" % (ex,))
        return None


def tie_grid(ctx, broken, traces=None, scale=1.0):
    """component level + real objects + (if given) recorded runs.  Returns the number of monitor violations."""
    model = load_model(ctx)
    acc = Acc(ctx, broken, model) if model is not None else None
    parts = PARTS[ctx.pid]
    q = (1.0 if ctx.quick else 4.0) * scale
    nv = 0
    n = lambda k: max(1, int(k * q))
    if "force_to_grid" in parts:
        nv += comp_force_to_grid(ctx, acc, n(120))
    if "search_box" in parts:
        nv += comp_search_box(ctx, acc, n(250))
    if "improvement" in parts:
        nv += comp_improvement(ctx, acc, n(300))
    loose = None
    if acc is None:
        try:
            loose = loose_regions()
        except Exception as ex:                      # noqa: BLE001
            ctx.notes.append("grid: the statements could not even be located loosely: %r" % (ex,))
    if acc is not None or loose is not None:
        if "init" in parts:
            nv += comp_init_region(ctx, acc, n(250), loose)
        if "loop" in parts:
            nv += comp_loop_region(ctx, acc, n(250), loose)
    if acc is not None:
        if "poll" in parts:
            nv += comp_poll_region(ctx, acc, n(150))
        if "cc" in parts:
            nv += comp_cc_region(ctx, acc, n(80))
    if "objects" in parts:
        nv += real_objects(ctx, acc, n(60))
    if traces is not None:
        what = ("box",) if ctx.pid == "C01" else ("mesh", "si", "impr")
        nv += run_level(ctx, acc, traces, what)
    if acc is not None:
        acc.finish(ctx.pid)
    ctx.oblige("monitors:grid", "monitor", nv == 0, f"{nv} violations of the grid clauses on the real code")
    return nv


def search_grid(ctx, broken):
    """called when something is broken and no concrete input is known: more of the same, monitors only matter"""
    before = len(ctx.violations)
    tie_grid(ctx, [], traces=None, scale=3.0)
    return len(ctx.violations) > before


def replay_grid(ctx, rp):
    """re-run one replay against the real code"""
    bb, gf = real_mods()
    r = rp["replay"]
    kind = r.get("kind")
    v = None
    if kind == "force_to_grid":
        g = gf.force_to_grid(np.array([[r["x"]]]), r["mesh"])
        gg = gf.force_to_grid(g.copy(), r["mesh"])
        v = mon_force_to_grid(r["x"], r["mesh"], float(g[0, 0]), float(gg[0, 0])) if math.isfinite(r["x"]) else (
            None if float(g[0, 0]) == r["x"] else ("grid:force_to_grid:infinite-moved", "moved"))
    elif kind in ("search_box", "loop_search_box", "init_search_box") and not isinstance(r.get("lb"), list):
        stub = Stub(optim_state=dict(lb=np.array([[r["lb"]]]), ub=np.array([[r["ub"]]]), search_mesh_size=r["mesh"]))
        a, b = bb.BADS._update_search_bounds_(stub)
        v = mon_search_box(r["lb"], r["ub"], r["mesh"], float(a[0, 0]), float(b[0, 0]))
    elif kind == "impr":
        sb, sn = r["s_base"], r["s_new"]
        if sb is None:
            z = float(bb.BADS._eval_improvement_(Stub(), r["f_base"], r["f_new"], None, None, r["q"]))
        else:
            z = float(np.asarray(bb.BADS._eval_improvement_(Stub(), np.array([r["f_base"]]), np.array([r["f_new"]]), np.array([sb]), np.array([sn]), r["q"])).reshape(-1)[0])
        v = mon_impr(r["f_base"], r["f_new"], sb, sn, r["q"], z)
    elif kind == "object":
        pr = r["problem"]
        b = build(pr)
        os_ = b.optim_state
        m = float(os_["search_mesh_size"])
        for i in range(b.D):
            l, u = float(b.lower_bounds.reshape(-1)[i]), float(b.upper_bounds.reshape(-1)[i])
            v = v or mon_search_box(l, u, m, float(np.asarray(os_["lb_search"]).reshape(-1)[i]), float(np.asarray(os_["ub_search"]).reshape(-1)[i]))
            v = v or mon_start(float(np.asarray(b.var_transf(b.x0)).reshape(-1)[i]), l, u, m, float(np.asarray(os_["u"]).reshape(-1)[i]), False)
        v = v or mon_snap(float(b.options["poll_mesh_multiplier"]), float(b.options["tol_mesh"]), float(os_["tol_mesh"]))
    elif kind == "poll_region":
        mdl = T.load()
        stub = Stub(options=Options(poll_mesh_multiplier=2.0, search_grid_multiplier=r["search_grid_multiplier"], search_grid_number=r["search_grid_number"]),
                    mesh_size_integer=r["mesh_size_integer"], optim_state=dict(search_size_integer=r["search_size_integer_in"]))
        run_stmts(def_stmts(mdl.poll), dict(np=np, self=stub))
        ks_out, k = int(stub.optim_state["search_size_integer"]), r["mesh_size_integer"]
        v = mon_mesh(2.0, k, stub.optim_state["mesh_size"])
        if ks_out > r["search_size_integer_in"] or (k <= 0 and ks_out > k):
            v = ("grid:mesh:search-exponent-after-failed-poll", f"search exponent {r['search_size_integer_in']} -> {ks_out} with poll exponent {k}")
    elif kind in ("init_region", "loop_region"):
        try:
            mdl = T.load()
            st = (def_stmts(mdl.init), mdl.init_rej_stmt, def_stmts(mdl.loop), mdl.loop_stop_stmt)
        except Exception:                      # noqa: BLE001
            st = loose_regions()
        lb, ub = np.array(r["lb"], dtype=float), np.array(r["ub"], dtype=float)
        if kind == "init_region":
            xu = np.array(r["x_units"], dtype=float)
            a = (lb, ub, xu, r["init_mesh_size_integer"], r["search_grid_multiplier"], r["search_grid_number"], 2.0, r["tol_mesh"])
            stub, os_, raised = exec_init(st[0], st[1], *a)
            vs = mon_init(*a, stub, os_, raised)
        else:
            a = (lb, ub, r["mesh_size_integer"], r["search_size_integer"], r["search_size_locked"], r["search_grid_multiplier"], r["search_grid_number"],
                 r["sloppy_improvement"], r["tol_improvement"], r["forcing_exponent"], r["tol_fun"], 2.0, r["tol_mesh_state"])
            stub, stop = exec_loop(st[2], st[3], *a)
            vs = mon_loop(*a, stub, stop)
        v = vs[0][0] if vs else None
    else:
        print(f"replay of kind {kind!r}: re-run ./check {ctx.pid} (the input is regenerated from the seed)")
        return 2
    if v is not None:
        print(f"VIOLATION property={ctx.pid} (replayed) {v[0]}: {v[1]}")
        return 1
    print("replay: no violation on the current tree")
    return 0
