"""Component correspondence for construction-time validation of a problem definition
(model M3 = coq/Model/BoundsCheck.v; code = BADS.__init__ + _bounds_check_ + the checks that run
inside the constructor afterwards).

A *case* is a 5-tuple (x0, lb, ub, plb, pub); each entry is None (absent) or a tuple of Python
floats (finite, +-inf, nan).  The REAL constructor is called (in worker processes) with a target that
records calls; the same case is written as a Coq literal with the observed outcome and
`outcome_val (construct d)` is compared with it under vm_compute.

Comparison policy (see the header of Model/BoundsCheck.v):
  * accept / reject / other exception class, and the reject reason (derived from the message): exact;
  * a normalised value that is bit-identical to one of the inputs of its coordinate: exact (XV);
  * a normalised value that is NOT one of the inputs (it was moved to LB_eff / UB_eff, computed in the
    code with the binary64 constant 1e-3 and two roundings, in the model with 1/1000 exactly): XA,
    1e-9 relative;
  * x0 drawn by the constructor (observed through a recording np.random.uniform): only plb <= x0 <= pub.

Also here: the declarative monitor (the property's validity list restated on the raw inputs,
independent of the Coq model), the spelling variants, generators and the shrinker.
"""
from __future__ import annotations

import logging
import math
import warnings

import numpy as np

from vlib.core import clist, cq, cstr

INF = float("inf")
NAN = float("nan")
FIN5 = [-2.0, -1.0, 0.0, 1.0, 2.0]
TABLE = [-INF, INF, NAN] + FIN5          # index k >= 1 of the compact encoding is TABLE[k-1]; 0 = absent
NAMES = ("x0", "lb", "ub", "plb", "pub")
REASONS = ["UnknownDims", "DimMismatch", "NonFinitePB", "Fixed", "MatchingPB", "X0Outside", "TooClose",
           "StrictBounds1", "StrictBounds2", "HalfBounds"]

# ----------------------------------------------------------------------------- spellings

FLOAT_SPELLINGS = ("arr", "list", "tuple", "row", "scalar")
INT_SPELLINGS = ("int_list", "int_tuple", "int_arr", "int_row", "int_scalar")


def integral(v):
    return all(math.isfinite(a) and a == int(a) and abs(a) < 2 ** 50 for a in v)


def spell(vec, kind):
    """The same vector in another spelling.  Integer spellings apply only to integral vectors and
    Python scalars only to D = 1; otherwise the float counterpart / a list is used."""
    if vec is None:
        return None
    v = [float(a) for a in vec]
    if kind.startswith("int_"):
        if integral(v):
            iv = [int(a) for a in v]
            if kind == "int_list":
                return iv
            if kind == "int_tuple":
                return tuple(iv)
            if kind == "int_arr":
                return np.array(iv, dtype=np.int64)
            if kind == "int_row":
                return np.array([iv], dtype=np.int64)
            if kind == "int_scalar":
                return iv[0] if len(iv) == 1 else iv
        kind = {"int_list": "list", "int_tuple": "tuple", "int_arr": "arr", "int_row": "row",
                "int_scalar": "scalar"}[kind]
    if kind == "arr":
        return np.array(v, dtype=float)
    if kind == "list":
        return v
    if kind == "tuple":
        return tuple(v)
    if kind == "row":
        return np.array([v], dtype=float)
    if kind == "scalar":
        return v[0] if len(v) == 1 else v
    raise ValueError(kind)


# ----------------------------------------------------------------------------- real code

_BADS = None


def _setup():
    global _BADS
    if _BADS is None:
        warnings.simplefilter("ignore")
        logging.disable(logging.CRITICAL)
        from pybads import BADS
        _BADS = BADS
    return _BADS


def classify_message(msg: str) -> str:
    m = " ".join(msg.split())
    if m.startswith("bads:UnknownDims"):
        return "UnknownDims"
    if m.startswith("All input vectors (lower_bounds"):
        return "DimMismatch"
    if m.startswith("Plausible interval bounds"):
        return "NonFinitePB"
    if m.startswith("bads:FixedVariables"):
        return "Fixed"
    if m.startswith("bads:MatchingPB"):
        return "MatchingPB"
    if m.startswith("bads:InitialPointsNotInsideBounds"):
        return "X0Outside"
    if m.startswith("bads:StrictBoundsTooClose"):
        return "TooClose"
    if m.startswith("bads:StrictBounds"):
        return "StrictBounds1" if "lower_bounds < plausible_lower_bounds" in m else "StrictBounds2"
    if m.startswith("bads:HalfBounds"):
        return "HalfBounds"
    if m.startswith("Cannot invert the transform"):
        return "VT:SelfTest"
    if m.startswith("Plausible interval ranges"):
        return "VT:NonFinite"
    if m.startswith("Interval bounds needs to respect"):
        return "VT:Order"
    if m.startswith("bads:Initpoint"):
        return "InitPoint"
    return "Other:" + m[:40]


def _flat(a):
    return [float(v) for v in np.asarray(a, dtype=float).reshape(-1)]


def run_real(case, spelling="arr", short_run=False):
    """Construct the real BADS on `case` in the given spelling.  Returns a canonical dict."""
    BADS = _setup()
    calls = []

    def fun(x):
        calls.append(_flat(x))
        return float(np.sum((np.asarray(x, dtype=float) - 0.3) ** 2))

    args = [spell(v, spelling) for v in case]
    before = [None if a is None else repr(a) for a in args]      # the caller's own objects must still spell the same vectors afterwards
    opts = {"display": "off", "random_seed": 1}
    if short_run:
        opts["max_fun_evals"] = 20
    drawn = []
    orig_uniform = np.random.uniform

    def rec_uniform(*a, **k):
        drawn.append(1)
        return orig_uniform(*a, **k)

    np.random.uniform = rec_uniform
    try:
        try:
            b = BADS(fun, args[0], args[1], args[2], args[3], args[4], options=opts)
        finally:
            np.random.uniform = orig_uniform
    except ValueError as ex:
        return dict(kind="reject", tag=classify_message(str(ex)), msg=" ".join(str(ex).split())[:90],
                    calls=len(calls))
    except Exception as ex:  # any other class is reported under its own name
        return dict(kind="crash", tag=type(ex).__name__, msg=" ".join(str(ex).split())[:90], calls=len(calls))
    vt = b.var_transf
    D = b.D
    changed = [NAMES[i] for i, a in enumerate(args) if before[i] is not None and repr(a) != before[i]]
    arrs = dict(x0=b.x0, lb=vt.orig_lb, ub=vt.orig_ub, plb=vt.orig_plb, pub=vt.orig_pub)
    res = dict(kind="accept", D=int(D), drawn=bool(drawn), calls=len(calls),
               shapes_ok=all(np.asarray(a).shape == (1, D) for a in arrs.values()),
               state_ok=all(np.array_equal(np.asarray(b.optim_state[k + "_orig"], dtype=float),
                                           np.asarray(arrs[k], dtype=float), equal_nan=True)
                            for k in ("lb", "ub", "plb", "pub")))
    for k, a in arrs.items():
        res[k] = _flat(a)
    res["caller_vectors_changed"] = changed
    # transformed-space problem (used by the spelling comparison only)
    res["tr"] = dict(lb=_flat(b.lower_bounds), ub=_flat(b.upper_bounds), plb=_flat(b.plausible_lower_bounds),
                     pub=_flat(b.plausible_upper_bounds), u=_flat(b.u), log=[bool(v) for v in np.asarray(vt.apply_log_t).reshape(-1)])
    if short_run:
        try:
            r = b.optimize()
            res["run"] = dict(x=_flat(r["x"]), fval=float(r["fval"]), n=len(calls), calls=calls)
        except Exception as ex:
            res["run"] = dict(error=type(ex).__name__ + ": " + " ".join(str(ex).split())[:80])
    return res


def _job(job):
    case, spelling, short_run = job
    return run_real(case, spelling, short_run)


def run_jobs(jobs, workers=14):
    """Run (case, spelling, short_run) jobs on the real code in worker processes, order preserved."""
    if not jobs:
        return []
    if len(jobs) < 40:
        return [_job(j) for j in jobs]
    import multiprocessing as mp
    from concurrent.futures import ProcessPoolExecutor
    with ProcessPoolExecutor(max_workers=workers, mp_context=mp.get_context("fork")) as ex:
        return list(ex.map(_job, jobs, chunksize=max(1, min(400, len(jobs) // (workers * 4)))))


# ----------------------------------------------------------------------------- Coq side

COQ_DEFS = """
Definition TBL : list xq := [XNInf; XPInf; XNaN; XFin (-2#1); XFin (-1#1); XFin 0; XFin 1; XFin (2#1)].
Definition W (ks : list Z) : option (list xq) :=
  match ks with [] => None | _ => Some (map (fun k => nth (Z.to_nat (k - 1)) TBL XNaN) ks) end.
Definition E (a b c d e : list Z) : defn := mkDefn (W a) (W b) (W c) (W d) (W e).
Definition TAGS : list string := [%s].
Definition Rj (k : nat) : xval := XV (VL [VS "reject"%%string; VS (nth k TAGS ""%%string)]).
Definition Cr (s : string) : xval := XV (VL [VS "crash"%%string; VS s]).
""" % "; ".join(cstr(t) for t in REASONS)

CASE_TY = "defn * xval"
OK_FUN = "fun c => xval_ok (outcome_val (construct (fst c))) (snd c)"
REQUIRES = ["PV.Model.Val", "PV.Model.XQ", "PV.Model.BoundsCheck"]


REQUIRES_SRC = REQUIRES + ["PV.Model.BoundsSrc", "PV.gen.Src_bounds"]
OK_FUN_SRC = "fun c => xval_ok (construct_with2 src_head src_prog (fst c)) (snd c)"


def run_cases_both(name, cases, shard=1700, timeout=900):
    """Like core.run_cases, but every shard is evaluated twice on the SAME literals: by the hand-written model (OK_FUN) and by
    the generic interpreters on the GENERATED programs src_head / src_prog (OK_FUN_SRC).  Returns (compiled, bad_model, bad_src, log)."""
    from concurrent.futures import ThreadPoolExecutor
    from vlib import core
    tg = [r[3:].replace(".", "/") + ".vo" for r in REQUIRES_SRC if r.startswith("PV.")]
    okb, logb = core.coq_make(tg)
    if not okb:
        return False, [], [], "required modules do not build:\n" + logb[-2000:]
    shards = [cases[i:i + shard] for i in range(0, len(cases), shard)] or [[]]

    def one(k):
        body = COQ_DEFS + f"\nDefinition the_cases : list ({CASE_TY}) := " + clist(["\n  " + c for c in shards[k]]) + ".\n"
        body += f"Eval vm_compute in (bad_indices ({OK_FUN}) the_cases).\n"
        body += f"Eval vm_compute in (bad_indices ({OK_FUN_SRC}) the_cases).\n"
        ok, out = core.coq_eval(f"{name}_{k}", REQUIRES_SRC, body, timeout=timeout)
        ev = core.split_evals(out) if ok else []
        lists = [core.parse_nat_list(e) for e in ev]
        if not ok or len(lists) != 2 or any(x is None for x in lists):
            return False, None, None, out
        return True, lists[0], lists[1], out
    with ThreadPoolExecutor(max_workers=min(12, len(shards))) as ex:
        res = list(ex.map(one, range(len(shards))))
    allok, bm, bs, log = True, [], [], ""
    for k, (ok, a, b, out) in enumerate(res):
        if not ok:
            allok = False
            log += f"[shard {k}] coqc failed:\n{out[-3000:]}\n"
        else:
            bm += [k * shard + i for i in a]
            bs += [k * shard + i for i in b]
    return allok, bm, bs, log


def cxq(x):
    if math.isnan(x):
        return "XNaN"
    if math.isinf(x):
        return "XPInf" if x > 0 else "XNInf"
    return f"(XFin {cq(float(x))})"


def _tbl_index(x):
    for i, t in enumerate(TABLE):
        if (math.isnan(x) and math.isnan(t)) or x == t:
            return i + 1
    return None


def coq_defn(case):
    """Compact literal when every value is in TABLE, general literal otherwise."""
    idx = []
    for v in case:
        if v is None:
            idx.append([])
        else:
            ks = [_tbl_index(a) for a in v]
            if any(k is None for k in ks) or not ks:
                idx = None
                break
            idx.append(ks)
    if idx is not None:
        return "(E " + " ".join("[" + ";".join(str(k) for k in ks) + "]" for ks in idx) + ")"
    parts = ["None" if v is None else "(Some " + clist([cxq(a) for a in v]) + ")" for v in case]
    return "(mkDefn " + " ".join(parts) + ")"


def _cell(x, inputs):
    """inputs = the finite inputs of this coordinate, or None to compare approximately in any case"""
    if math.isnan(x):
        return "(XV VNaN)"
    if math.isinf(x):
        return "(XV VPInf)" if x > 0 else "(XV VNInf)"
    if inputs is not None and any((not math.isnan(a)) and a == x for a in inputs):
        return f"(XV (VQ {cq(x)}))"
    return f"(XA {cq(x)})"


def coord_inputs(case, i):
    out = []
    for v in case:
        if v is not None and i < len(v):
            out.append(v[i])
    return out


def coq_expect(case, res, approx_all=False):
    """approx_all: every finite normalised value is compared at 1e-9 relative (close stream: a value the
    model moves by 1e-3*range may be left bit-identical by the code because the product is absorbed)."""
    if res["kind"] == "reject":
        if res["tag"] in REASONS:
            return f"(Rj {REASONS.index(res['tag'])})"
        return "(XV (VL [VS \"reject\"%string; VS " + cstr(res["tag"]) + "]))"
    if res["kind"] == "crash":
        return "(Cr " + cstr(res["tag"]) + ")"
    D = res["D"]
    ins = [None if approx_all else coord_inputs(case, i) for i in range(D)]

    def vec(name):
        return "(XL " + clist([_cell(x, ins[i] if i < D else None) for i, x in enumerate(res[name])]) + ")"
    x0 = '(XV (VS "drawn"%string))' if res["drawn"] else vec("x0")
    return "(XL " + clist(['(XV (VS "accept"%string))', x0, vec("lb"), vec("ub"), vec("plb"), vec("pub")]) + ")"


def coq_case(case, res, approx_all=False):
    return f"({coq_defn(case)}, {coq_expect(case, res, approx_all)})"


# ----------------------------------------------------------------------------- monitor

def dimension(case):
    """D as the property defines it, or None (no way to infer it)."""
    x0, lb, ub, plb, pub = case
    if x0 is not None:
        return len(x0)
    p = plb if plb is not None else lb
    q = pub if pub is not None else ub
    if p is None or q is None:
        return None
    return len(p)


REALMIN = 2.2250738585072014e-308


def validity(case):
    """(invalid_reasons, fuzzy_reasons): the property's list restated on the raw inputs.
    fuzzy = 'numerically indistinguishable' territory where the property's wording does not fix the
    outcome (hard bounds within 1e-9 relative of each other; non-zero bounds of denormal size)."""
    x0, lb, ub, plb, pub = case
    D = dimension(case)
    if D is None:
        return ["no-dimension"], []
    bad, fuzzy = [], []
    if any(v is not None and len(v) != D for v in case):
        return ["dimension-mismatch"], []
    lbv = list(lb) if lb is not None else [-INF] * D
    ubv = list(ub) if ub is not None else [INF] * D
    plbv = list(plb) if plb is not None else lbv      # plausible bounds omitted: default to hard bounds
    pubv = list(pub) if pub is not None else ubv
    x0v = list(x0) if x0 is not None else [NAN] * D
    for i in range(D):
        l, u, p, q, x = lbv[i], ubv[i], plbv[i], pubv[i], x0v[i]
        if not (math.isfinite(p) and math.isfinite(q)):
            bad.append(f"plausible-nonfinite[{i}]")
        if p == q:
            bad.append(f"plausible-equal[{i}]")
        if not (l <= p and p < q and q <= u):
            bad.append(f"order[{i}]")
        if x < l or x > u or math.isinf(x):          # an infinite x0 is not a point of any box
            bad.append(f"x0-outside[{i}]")
        if l == u:
            bad.append(f"hard-identical[{i}]")
        if math.isfinite(l) != math.isfinite(u) and not (math.isnan(l) or math.isnan(u)):
            bad.append(f"half-bounded[{i}]")
        if math.isfinite(l) and math.isfinite(u) and l < u and (u - l) <= 1e-9 * max(abs(l), abs(u)):
            fuzzy.append(f"hard-close[{i}]")
        if any(math.isfinite(b) and b != 0.0 and abs(b) <= REALMIN for b in (l, u)):
            fuzzy.append(f"denormal-bound[{i}]")
    return bad, fuzzy


def monitor(case, res):
    """None, or (key, description).  Independent of the Coq model."""
    D = dimension(case)
    if D == 0:
        return None                       # outside the property's quantifier (D = 1..3)
    bad, fuzzy = validity(case)
    if res["calls"]:
        return "target-called", f"the constructor called the target {res['calls']} time(s)"
    if res["kind"] == "crash":
        return classify_violation(case, res, bad), (
            f"constructor raised {res['tag']} ({res['msg']}) instead of "
            + ("ValueError" if bad else "accepting the definition"))
    if bad:
        if res["kind"] != "reject":
            return "invalid-accepted", f"invalid definition ({', '.join(bad[:3])}) accepted"
        return None
    if res["kind"] == "reject":
        if fuzzy:
            return None
        return classify_violation(case, res, bad), f"valid definition rejected with ValueError [{res['tag']}]: {res['msg']}"
    # accepted: normal form
    if res.get("caller_vectors_changed"):
        return "caller-vectors-changed", (f"the constructor modified the caller's own {res['caller_vectors_changed']} object(s): the same objects handed to "
                                          "another construction (any spelling) no longer define the same problem")
    x0, lb, ub, plb, pub = case
    if not (res["shapes_ok"] and res["state_ok"]):
        return "normal-form-shape", "normalised vectors are not all (1, D) / optim_state copies differ"
    lbv = list(lb) if lb is not None else [-INF] * D
    ubv = list(ub) if ub is not None else [INF] * D
    if not (_same(res["lb"], lbv) and _same(res["ub"], ubv)):
        return "hard-bounds-changed", f"hard bounds changed by construction: {res['lb']} {res['ub']}"
    for i in range(D):
        l, u, p, q, x = res["lb"][i], res["ub"][i], res["plb"][i], res["pub"][i], res["x0"][i]
        if not (math.isfinite(p) and math.isfinite(q) and l <= p < q <= u):
            return "normal-form-order", f"accepted but not lb <= plb < pub <= ub (finite plausible) in coordinate {i}: {l} {p} {q} {u}"
        if not math.isfinite(x) or not (l <= x <= u):
            return "normal-form-x0", f"accepted but x0[{i}] = {x} is not a point of [{l}, {u}]"
        if (math.isfinite(l) and not l < x) or (math.isfinite(u) and not x < u):
            key = "x0-on-bound-denormal" if any(f.startswith("denormal") for f in fuzzy) else (
                "x0-on-bound-close-hard-bounds" if (u - l) <= 1e-12 * max(abs(l), abs(u)) else "normal-form-x0-strict")
            return key, f"accepted but x0[{i}] = {x!r} is not strictly inside the finite hard bounds [{l!r}, {u!r}]"
        if res["drawn"] and not (p <= x <= q):
            return "drawn-x0-outside-plausible", f"x0[{i}] = {x} drawn outside [{p}, {q}]"
    # the problem BADS will actually optimise (internal coordinates) must be a well-formed image of the normalised one:
    # no NaN anywhere, a bound infinite exactly where the user's is, lb <= plb < pub <= ub, start inside (that plb, pub map to -1, +1 is C11's clause)
    tr = res.get("tr")
    if tr:
        for i in range(D):
            tl, tu, tp, tq, uu = tr["lb"][i], tr["ub"][i], tr["plb"][i], tr["pub"][i], tr["u"][i]
            if any(math.isnan(v) for v in (tl, tu, tp, tq, uu)):
                return "internal-normal-form", f"accepted but the internal problem has NaN in coordinate {i}: lb {tl} plb {tp} pub {tq} ub {tu} start {uu}"
            if math.isinf(tl) != math.isinf(res["lb"][i]) or math.isinf(tu) != math.isinf(res["ub"][i]):
                return "internal-normal-form", f"accepted but internal bounds of coordinate {i} are infinite where the user's are not (or vice versa): {tl} {tu}"
            if not (tl <= tp < tq <= tu and tl <= uu <= tu):
                return "internal-normal-form", f"accepted but the internal problem is not lb <= plb < pub <= ub with the start inside in coordinate {i}: {tl} {tp} {tq} {tu} start {uu}"
    return None


def _same(a, b):
    return len(a) == len(b) and all((math.isnan(x) and math.isnan(y)) or x == y for x, y in zip(a, b))


def classify_violation(case, res, bad):
    """Stable key of a 'valid rejected / crashed' violation, from the shape of the INPUT."""
    x0 = case[0]
    if res["kind"] == "crash":
        if res["tag"] == "OverflowError" and x0 is not None and any(math.isinf(a) for a in x0):
            return "inf-x0-overflowerror"
        if res["tag"] == "AttributeError" and x0 is None:
            return "x0-absent-nonarray-plausible"
        return "crash:" + res["tag"]
    if res["tag"] == "VT:SelfTest":
        return "selftest-rejects-valid-box"
    if res["tag"] == "StrictBounds2":
        if x0 is not None and any(math.isnan(a) for a in x0) and not all(math.isnan(a) for a in x0):
            return "nan-x0-coordinate-rejected"
        if in_margin(case):
            return "plausible-box-in-margin-rejected"
        return "valid-rejected:StrictBounds2"
    return "valid-rejected:" + res["tag"]


MARGIN = 1e-3          # the documented 0.1% margin of the known finding plausible-box-in-margin-rejected


def in_margin(case):
    """Declarative reading of the known finding: SOME coordinate's plausible box lies entirely inside the 0.1% margin
    [lb, lb + 1e-3*range] or [ub - 1e-3*range, ub] of its finite hard box (1e-9 relative slack for the binary64 product)."""
    x0, lb, ub, plb, pub = case
    D = dimension(case)
    if D is None:
        return False
    for i in range(D):
        l = lb[i] if lb is not None else -INF
        u = ub[i] if ub is not None else INF
        p = plb[i] if plb is not None else l
        q_ = pub[i] if pub is not None else u
        if not (math.isfinite(l) and math.isfinite(u) and l < u):
            continue
        m = MARGIN * (u - l) * (1 + 1e-9) + 1e-300
        if q_ <= l + m or p >= u - m:
            return True
    return False


def project(case, i):
    """Coordinate i of a case as a D = 1 case (absent vectors stay absent)."""
    return tuple(None if v is None else ((v[i],) if i < len(v) else v[:1]) for v in case)


def shrink(case, key):
    """Try to reproduce the same monitor key on a single coordinate."""
    D = dimension(case)
    if D is None or D <= 1:
        return case
    for i in range(D):
        c1 = project(case, i)
        try:
            m = monitor(c1, run_real(c1))
        except Exception:
            m = None
        if m and m[0] == key:
            return c1
    return case


# ----------------------------------------------------------------------------- generators

def as_case(vals):
    return tuple(None if v is None else (tuple(v) if isinstance(v, (list, tuple)) else (v,)) for v in vals)


def gen_d1_exhaustive():
    """Every (x0, lb, ub, plb, pub) with each entry in {absent, -inf, +inf, nan, 5 finite values}."""
    import itertools
    dom = [None] + TABLE
    return [as_case(c) for c in itertools.product(dom, repeat=5)]


def outcome_class(case, res):
    """Cell label used to pick representatives: absence pattern + outcome + which repairs happened."""
    pat = "".join("-" if v is None else "+" for v in case)
    if res["kind"] != "accept":
        return pat, res["kind"] + ":" + res["tag"]
    flags = []
    D = res["D"]
    for name, k in (("x0", 0), ("plb", 3), ("pub", 4)):
        v = case[k]
        if name == "x0" and res["drawn"]:
            flags.append("drawn")
        elif v is not None and not _same(res[name], list(v)):
            flags.append(name + "-moved")
    if not res["drawn"] and any(res["x0"][i] in (res["plb"][i], res["pub"][i]) for i in range(D)):
        flags.append("x0-on-plausible")
    unb = sum(1 for i in range(D) if math.isinf(res["lb"][i]))
    flags.append("unbounded" if unb == D else ("bounded" if unb == 0 else "mixed"))
    return pat, "accept:" + ",".join(flags)


def join_cases(cells):
    """Concatenate D = 1 (or small) cases with the same absence pattern into one case."""
    out = []
    for k in range(5):
        if cells[0][k] is None:
            out.append(None)
        else:
            out.append(tuple(a for c in cells for a in c[k]))
    return tuple(out)


def gen_metric(rng, n):
    """Moderate magnitudes (|v| <= 1e6), gaps >= 1e-6 relative; positions relative to the margin
    m = 1e-3 * range chosen away from the rounding-sensitive points lb + m, ub - m."""
    cases = []
    for _ in range(n):
        D = rng.choice([1, 1, 2, 2, 3])
        cols = []
        unb_pattern = rng.random()
        for i in range(D):
            kind = rng.random()
            if kind < 0.22:                 # fully unbounded coordinate
                l, u = -INF, INF
                c = rng.choice([0.0, rng.uniform(-1e3, 1e3), rng.choice([-1, 1]) * 10 ** rng.uniform(-3, 5)])
                w = 10 ** rng.uniform(-2, 4)
                pos = [c - w, c - w / 2, c, c + w / 3, c + w]
            else:
                scale = 10 ** rng.uniform(-3, 6)
                l = rng.choice([0.0, -scale, scale * rng.uniform(0.001, 1), -scale * rng.uniform(0.5, 1),
                                float(rng.randint(-5, 5))])
                r = rng.choice([scale, scale * rng.uniform(0.01, 1), float(rng.randint(1, 9)), abs(l) * 1e-5 + 1e-5])
                u = l + r
                r = u - l
                m = 1e-3 * r
                pos = [l, l + 0.25 * m, l + 0.5 * m, l + 2 * m, l + 0.3 * r, l + 0.5 * r, l + 0.71 * r,
                       u - 2 * m, u - 0.5 * m, u - 0.25 * m, u]
                if kind > 0.9:               # half-bounded / reversed / equal hard bounds
                    l, u = rng.choice([(l, INF), (-INF, u), (u, l), (l, l)])
            p, q = sorted(rng.sample(pos, 2))
            if rng.random() < 0.06:
                p, q = q, p
            if rng.random() < 0.04:
                q = p
            x = rng.choice(pos + [pos[0] - abs(pos[0]) * 1e-3 - 1e-3, pos[-1] + abs(pos[-1]) * 1e-3 + 1e-3]
                           if rng.random() < 0.12 else pos)
            if rng.random() < 0.03:
                x = NAN
            cols.append((x, l, u, p, q))
        vecs = [tuple(c[k] for c in cols) for k in range(5)]
        # absences: hard bounds absent only if unbounded everywhere; plausible absent sometimes
        if rng.random() < 0.25:
            vecs[0] = None
        if all(math.isinf(c[1]) and math.isinf(c[2]) for c in cols) and rng.random() < 0.5:
            vecs[1] = vecs[2] = None
        r = rng.random()
        if r < 0.15:
            vecs[3] = None
        elif r < 0.3:
            vecs[4] = None
        elif r < 0.45:
            vecs[3] = vecs[4] = None
        cases.append(tuple(vecs))
    return cases


def gen_malformed(rng, n):
    """Dimension mismatches, D = 0, missing-dimension combinations."""
    cases = []
    for _ in range(n):
        lens = [rng.choice([0, 1, 1, 2, 2, 3]) if rng.random() < 0.4 else None for _ in range(5)]
        base = rng.choice([1, 2, 3])
        vecs = []
        for k in range(5):
            if rng.random() < 0.3:
                vecs.append(None)
                continue
            L = lens[k] if lens[k] is not None else base
            lo = {0: 0.0, 1: -2.0, 2: 2.0, 3: -1.0, 4: 1.0}[k]
            vecs.append(tuple(lo for _ in range(L)))
        cases.append(tuple(vecs))
    return cases


def gen_close(rng, n):
    """The separately labelled 'within rounding distance' stream (D = 1): values a few ulps apart.
    Decisions of model (exact) and code (binary64) can legitimately differ here only through
    absorption lb + 1e-3*range == lb; see props/C08.py for how disagreements are treated."""
    cases = []
    def ulps(x, k):
        for _ in range(abs(k)):
            x = float(np.nextafter(x, INF if k > 0 else -INF))
        return x
    for _ in range(n):
        base = rng.choice([1.0, -1.0, 1e6, -3.5, 0.1, 123.456, 1e-3])
        kind = rng.choice(["hard-adjacent", "hard-adjacent", "hard-few-ulps", "plausible-adjacent", "x0-adjacent-in",
                           "x0-adjacent-out", "plausible-adjacent-to-hard", "hard-identical"])
        w = abs(base) * rng.choice([0.5, 2.0, 10.0])
        if kind == "hard-adjacent":
            l, u = base, ulps(base, 1)
            case = ((rng.choice([l, u]),), (l,), (u,), None, None)
            if rng.random() < 0.3:
                case = (None, (l,), (u,), None, None)
        elif kind == "hard-few-ulps":
            l, u = base, ulps(base, rng.choice([2, 3, 8, 100]))
            case = ((rng.choice([l, u, ulps(l, 1)]),), (l,), (u,), None, None)
        elif kind == "hard-identical":
            case = ((base,), (base,), (base,), rng.choice([None, (base,)]), rng.choice([None, (base,)]))
        elif kind == "plausible-adjacent":
            l, u = base - w, base + w
            p = base
            case = ((rng.choice([p, l + 0.3 * w]),), (l,), (u,), (p,), (ulps(p, rng.choice([0, 1, 2])),))
        elif kind == "x0-adjacent-in":
            l, u = base - w, base + w
            case = ((rng.choice([ulps(l, 1), ulps(u, -1)]),), (l,), (u,), None, None)
        elif kind == "x0-adjacent-out":
            l, u = base - w, base + w
            case = ((rng.choice([ulps(l, -1), ulps(u, 1)]),), (l,), (u,), None, None)
        else:
            l, u = base - w, base + w
            case = ((base,), (l,), (u,), (rng.choice([l, ulps(l, 1)]),), (rng.choice([u, ulps(u, -1)]),))
        cases.append((kind, case))
    return cases


def gen_large(rng, n):
    """Valid boxes of large magnitude / many decades (the VariableTransformer self-test uses an
    absolute tolerance 1e-6).  Judged by the monitor only; not part of the model."""
    cases = [((5.0,), (1.0,), (1e13,), (2.0,), (1e12,))]
    for _ in range(n - 1):
        if rng.random() < 0.5:
            hi = 10 ** rng.uniform(7, 14)
            cases.append(((rng.uniform(3, 9),), (1.0,), (10 * hi,), (2.0,), (hi,)))
        else:
            c = rng.choice([-1, 1]) * 10 ** rng.uniform(8, 13)
            w = abs(c) * rng.uniform(0.01, 0.5)
            cases.append(((c,), (c - 2 * w,), (c + 2 * w,), (c - w,), (c + w,)))
    return cases


# ----------------------------------------------------------------------------- spelling comparison

def spellings_for(case):
    D = dimension(case)
    ks = ["list", "tuple", "row"]
    if D == 1:
        ks.append("scalar")
    if any(v is not None and integral(v) for v in case):
        ks += ["int_list", "int_arr", "int_row", "int_tuple"]
        if D == 1:
            ks.append("int_scalar")
    return ks


def same_problem(a, b, with_run=False):
    """None if the two canonical results denote the same normalised (and transformed) problem."""
    if a["kind"] != b["kind"]:
        return f"{a['kind']}[{a.get('tag', '')}] vs {b['kind']}[{b.get('tag', '')}: {b.get('msg', '')}]"
    if a["kind"] != "accept":
        return None if a["tag"] == b["tag"] else f"{a['tag']} vs {b['tag']}"
    for k in ("x0", "lb", "ub", "plb", "pub"):
        if not _same(a[k], b[k]):
            return f"normalised {k}: {a[k]} vs {b[k]}"
    if not b["shapes_ok"]:
        return "normalised vectors are not (1, D)"
    for k in ("lb", "ub", "plb", "pub", "u"):
        if not _same(a["tr"][k], b["tr"][k]):
            return f"transformed {k}: {a['tr'][k]} vs {b['tr'][k]}"
    if a["tr"]["log"] != b["tr"]["log"]:
        return f"log flags: {a['tr']['log']} vs {b['tr']['log']}"
    if with_run and "run" in a and "run" in b:
        ra, rb = a["run"], b["run"]
        if ("error" in ra) != ("error" in rb):
            return f"run: {ra.get('error', 'ok')} vs {rb.get('error', 'ok')}"
        if "error" not in ra and (not _same(ra["x"], rb["x"]) or ra["fval"] != rb["fval"] or ra["calls"] != rb["calls"]):
            return f"run: x={ra['x']} fval={ra['fval']} n={ra['n']} vs x={rb['x']} fval={rb['fval']} n={rb['n']}"
    return None


# ----------------------------------------------------------------------------- cases AIMED at a test / constant of the source
#
# Used by props/C08.py search() when a proof about the generated program, the translation itself or a tie is broken:
# translate/bounds.py says which test / repair / constant of the CURRENT source differs from the reference translation (or at
# which test the translation stopped); the cases below put the compared quantities of exactly those tests on, and one ulp /
# 1e-9 / 1e-6 relative around, their boundary, put values at 0.5, 1 and 2 times every margin constant (old and new), and mix
# coordinates on which the test's predicate holds with coordinates on which it does not (np.any vs np.all).  The trees are only
# used to PLACE inputs; the verdict on each case is the declarative monitor's.

def _ulps(x, k):
    for _ in range(abs(k)):
        x = float(np.nextafter(x, INF if k > 0 else -INF))
    return x


def base_coord(rng):
    """a valid coordinate (x, l, u, p, q) as a dict of the model's field names"""
    if rng.random() < 0.2:
        c = rng.choice([0.0, rng.uniform(-50, 50)])
        w = 10 ** rng.uniform(-1, 3)
        p, q_ = c - w, c + w
        return dict(cx=rng.choice([rng.uniform(p, q_), c, p, q_, c + 3 * w]), cl=-INF, cu=INF, cpl=p, cpu=q_)
    scale = 10 ** rng.uniform(-2, 4)
    l = rng.choice([0.0, -scale, scale * rng.uniform(0.1, 1), float(rng.randint(-5, 5)), -scale * rng.uniform(0.5, 2)])
    u = l + scale * rng.choice([1.0, rng.uniform(0.1, 1), 2.0, 1000.0 / scale])
    r = u - l
    if rng.random() < 0.3:
        p, q_ = l, u
    else:
        p, q_ = l + r * rng.uniform(0.02, 0.4), l + r * rng.uniform(0.6, 0.98)
    x = rng.choice([l + r * rng.uniform(0.02, 0.98), l, u, p, q_, l + r * 0.5])
    return dict(cx=x, cl=l, cu=u, cpl=p, cpu=q_)


def special_coords(rng, c):
    """invalid / degenerate variants of a coordinate (each makes some test of the list fire)"""
    out = []
    for upd in (dict(cu=INF), dict(cl=-INF), dict(cx=INF), dict(cx=-INF), dict(cx=NAN), dict(cu=c["cl"]), dict(cpu=c["cpl"]),
                dict(cl=c["cpl"], cu=c["cpl"], cpu=c["cpl"]), dict(cpl=c["cpu"], cpu=c["cpl"]), dict(cl=c["cu"], cu=c["cl"]),
                dict(cpl=NAN), dict(cpu=INF), dict(cpl=-INF), dict(cx=c["cl"] - 1.0), dict(cx=c["cu"] + 1.0),
                dict(cpl=c["cl"] - 1.0), dict(cpu=c["cu"] + 1.0), dict(cl=-INF, cu=INF, cx=INF), dict(cl=-INF, cu=INF, cx=-INF)):
        d = dict(c)
        d.update(upd)
        out.append(d)
    return out


def coords_case(cols, rng=None):
    """list of coordinate dicts -> case; plausible vectors equal to the hard ones are sometimes passed as absent"""
    vecs = [tuple(float(c[f]) for c in cols) for f in ("cx", "cl", "cu", "cpl", "cpu")]
    if rng is not None and _same(vecs[3], vecs[1]) and _same(vecs[4], vecs[2]) and rng.random() < 0.5:
        vecs[3] = vecs[4] = None
    if rng is not None and all(math.isinf(c["cl"]) and math.isinf(c["cu"]) for c in cols) and rng.random() < 0.3:
        vecs[1] = vecs[2] = None
    return tuple(vecs)


def gen_aimed(rng, focus, others, consts, n):
    """focus / others: lists of (label, [inlined boolean trees (disjuncts)]) — the tests and guards to aim at (focus gets ~70% of
    the cases); consts: margin constants (Fractions) to place values at.  Returns [(aim description, case)]."""
    from translate import bounds as TB
    out = []

    def boundary(label, trees, k):
        ats = []
        for t in trees:
            ats += TB.atoms(t)
        if not ats:
            return
        for _ in range(k):
            op, a, b = rng.choice(ats)
            c = base_coord(rng)
            for tgt, other in ((a, b), (b, a)):
                if tgt[0] != "vec":
                    continue
                try:
                    v = float(TB.ev(other, c))
                except Exception:
                    continue
                if math.isnan(v):
                    continue
                for dv in ("0", "+u", "-u", "+r9", "-r9", "+r6", "-r6"):
                    w = v
                    if math.isfinite(v):
                        w = {"0": v, "+u": _ulps(v, 1), "-u": _ulps(v, -1), "+r9": v + abs(v) * 1e-9 + 1e-300, "-r9": v - abs(v) * 1e-9 - 1e-300,
                             "+r6": v + abs(v) * 1e-6 + 1e-12, "-r6": v - abs(v) * 1e-6 - 1e-12}[dv]
                    elif dv != "0":
                        continue
                    d = dict(c)
                    d[tgt[1]] = w
                    out.append((f"{label}: {tgt[1]} {dv} at the boundary of `{op}`", coords_case([d], rng)))
                    if rng.random() < 0.4:
                        out.append((f"{label}: {tgt[1]} {dv} at the boundary of `{op}` (D=2)", coords_case([base_coord(rng), d], rng)))

    def mixed(label, trees, k):
        pool_t, pool_f = [], []
        for _ in range(40):
            c = base_coord(rng)
            for d in [c] + special_coords(rng, c):
                try:
                    v = any(bool(TB.ev(t, d)) for t in trees)
                except Exception:
                    continue
                (pool_t if v else pool_f).append(d)
        if not pool_t or not pool_f:
            return
        for _ in range(k):
            cols = [rng.choice(pool_t), rng.choice(pool_f)]
            if rng.random() < 0.4:
                cols.append(rng.choice(pool_f))
            rng.shuffle(cols)
            out.append((f"{label}: the predicate holds in some coordinates only", coords_case(cols)))
            out.append((f"{label}: the predicate holds (D=1)", coords_case([rng.choice(pool_t)])))

    def margins(k):
        ks = sorted({float(x) for x in consts if 1e-9 < x < 1})
        if not ks:
            return
        for _ in range(k):
            c = base_coord(rng)
            if not math.isfinite(c["cl"]):
                continue
            r = c["cu"] - c["cl"]
            kk = rng.choice(ks)
            ts = [0.25, 0.5, 0.999, 1.0, 1.001, 2.0, 5.0]
            t1, t2 = sorted(rng.sample(ts, 2))
            lo = rng.random() < 0.5
            e = (lambda t: c["cl"] + t * kk * r) if lo else (lambda t: c["cu"] - t * kk * r)
            variants = [dict(cpl=min(e(t1), e(t2)), cpu=max(e(t1), e(t2))), dict(cx=e(t1)), dict(cx=e(t1), cpl=c["cl"], cpu=c["cu"]),
                        dict(cpl=min(e(t1), c["cpu"]), cpu=max(e(t1), c["cpu"])) if lo else dict(cpl=min(e(t1), c["cpl"]), cpu=max(e(t1), c["cpl"]))]
            for v in variants:
                d = dict(c)
                d.update(v)
                out.append((f"values at {t1}/{t2} x margin {kk} of the {'lower' if lo else 'upper'} bound", coords_case([d], rng)))

    nf = int(n * (0.7 if focus else 0.0))
    for label, trees in focus:
        boundary(label, trees, max(3, nf // (20 * len(focus))))
        mixed(label, trees, max(10, nf // (6 * len(focus))))
    for label, trees in others:
        boundary(label, trees, max(2, (n - nf) // (30 * max(1, len(others)))))
        mixed(label, trees, max(4, (n - nf) // (12 * max(1, len(others)))))
    margins(max(20, n // 10))
    # de-duplicate, keep order
    seen, res = set(), []
    for a, c in out:
        key = repr(c)
        if key not in seen:
            seen.add(key)
            res.append((a, c))
    return res
