"""Option-mode matrix for C09: short REAL BADS runs with ONE option changed at a time (thorough tier: + random pairs) in each
of the four noise modes {deterministic, auto-detected, declared, specified}.

Inputs:  the census of option reads (translate/option_reads.py: which options are LIVE and how each is used) and the REAL default
of every option (pybads' own Options class on the two ini files).  For every live option `values_for` derives a small set of
alternative VALID values from default + use (flag -> the other truth value; positive int -> {1, 2, a larger one}; float ->
{x1e-3, x1e3}; enumeration -> the constants the code compares with) and applies the hand-written table SPECIAL, which (a) replaces
the generic values where the generic rule would leave the option's domain, (b) records the EXCLUDED values with the reason
(unsupported by code/documentation, or outside a premise of Props/C09.v), (c) adds run conditions an option needs to be
reached (a log box for nonlinear_scaling, an injected LinAlgError for the options read only in the GP-failure handlers).

A run is a harness.trace spec (so every run-level monitor and the skeleton parser apply unchanged) executed by `run_one`, which
additionally (1) decodes option values that JSON cannot carry (`options_expr`: Python expressions over {np, D}), (2) instruments
the real Options.__getitem__ for the duration of the run and returns the set of (option, file, function) reads actually
performed - the census is validated against it on every check -, (3) optionally injects LinAlgError into gpyreg.GP.fit,
(4) bounds the wall time of the run (SIGALRM).  Nothing here decides the property: `monitor` restates "returns a result, never an
internal error; inside the box; within budget, truthful count and message" on the recorded observables.
"""
from __future__ import annotations

import hashlib
import json
import math
import os
import pickle
import random
import signal
import sys
from concurrent.futures import ProcessPoolExecutor

from vlib import core

MODES = {
    "det": dict(noise="det"),
    "auto": dict(noise="auto", sigma=0.2),
    "declared": dict(noise="declared", sigma=0.3),
    "specified": dict(noise="specified", sigma=0.3),
}
MODE_ORDER = ["det", "auto", "declared", "specified"]
RUN_TIMEOUT_S = 240
VERSION = "om-5"          # part of the cache key: bump when run_one changes what a trace contains


def J(v):
    """a JSON-able option value"""
    return dict(kind="json", v=v, label=repr(v))


def E(expr):
    """an option value given as a Python expression over {np, D} (tuples, arrays, callables, inf)"""
    return dict(kind="expr", v=expr, label=expr)


# --------------------------------------------------------------------------- the hand-written part of the value derivation
# modes_pref: the noise modes in which the value takes effect (the code overwrites the option under noise, or reads it only there) - used by
# the quick tier's choice of ONE mode per value; the thorough tier runs all four.
# quick_all_modes: termination / final-phase options - where a run ends decides which final phase runs, and the final phase differs in every
# noise mode (the repaired crashes 99801e5, f2c66cf were of this kind): the quick tier runs these in all four modes too.
# values: REPLACES the generic derivation;  add: appended to it;  exclude: [(value, why)] recorded in the evidence, never run;
# spec: run conditions;  modes: restrict the noise modes;  cell_exclude: {(label, mode): why};  gpfault: also run with injected LinAlgError
SPECIAL = {
    "display": dict(values=[J("iter"), J("full"), J("notify"), J("final")],
                    why="enumeration: BADS.__init__ compares with 'off'/'iter'/'full'; 'notify'/'final' are the two further documented levels (the base runs use 'off')"),
    "max_iter": dict(quick_all_modes=True, values=[J(1), J(2), J(3)], why="positive count; a larger value than the default 200*D cannot bind in a short run"),
    "max_fun_evals": dict(quick_all_modes=True, values=[J(2), J(3), J(10), J(20), J(21), J(22)],
                          exclude=[(1, "open known finding of C09 (KeyError eff_starting_points), run by the C09 panel itself")],
                          why="budgets around the size of the initial design (D, and 20 under noise)"),
    "nonlinear_scaling": dict(spec=dict(box="log"), why="only changes anything on a box that qualifies for the log transform"),
    "uncertainty_handling": dict(values=[J(True), J(False)],
                                 cell_exclude={("False", "specified"): "documented ValueError: specify_target_noise requires uncertainty_handling",
                                               ("True", "declared"): "is the mode itself", ("True", "specified"): "is the mode itself"},
                                 why="None/True/False; False on a noisy target is re-detected at the start (auto mode)"),
    "specify_target_noise": dict(values=[], why="mode-defining: the 'specified' mode is this option (the target's return contract changes with it); every specified-mode run exercises it"),
    "noise_size": dict(values=[J(0.01), J(1.0), J(30.0), E("np.array([0.5])")],
                       why="documented as a scalar SD estimate; a 1-element array is handled explicitly by _init_optimization_ (.item())"),
    "noise_final_samples": dict(quick_all_modes=True, modes_pref=["auto", "declared", "specified"], values=[J(0), J(1), J(2), J(25)], why="count of final samples; 0 and 1 have their own branches"),
    "random_seed": dict(values=[J(None), J(7)], why="None = no seeding (documented)"),
    "plot": dict(values=[J("scatter"), J("profile")], why="enumeration of the documentation; the code only compares with 'scatter'"),
    "tol_mesh": dict(add=[J(0.25)], why="float tolerance; 0.25 stops after two refinements"),
    "tol_fun": dict(add=[J(1)], why="float tolerance; 1 is the int spelling of 1.0"),
    "tol_stall_iters": dict(values=[J(1), J(2), J(12)],
                            exclude=[(0, "premise 1 <= o_stall of C09_history_reads_in_range: the stall test would read the history row of the current iteration before it is written"),
                                     ("non-integer", "used as a history index")]),
    "tol_noise": dict(modes_pref=["det", "auto"], add=[J(10.0)], why="10.0 makes the start-up noise test treat a noisy target as deterministic (the user's statement about the target)"),
    "init_fun": dict(values=[], exclude=[("anything but 'init_sobol'", "the code raises 'Initialization function not implemented yet'")]),
    "restarts": dict(values=[J(1), J(2)], why="deprecated counter; only compared with 0"),
    "cache_size": dict(quick_all_modes=True, values=[J(1), J(2), J(1000)], why="initial size of the evaluation log (grows on demand); the log has a different set of columns in every noise mode, hence all modes in the quick tier too"),
    "fun_eval_start": dict(modes_pref=["det"], values=[J(0), J(1), J(2), J(15)], why="size of the initial design; 0 has its own branch (no design)"),
    "fun_values": dict(values=[J(None), E("{'X': np.zeros((2, D)) + [[0.1], [0.2]], 'Y': np.array([[1.0], [2.0]])}")],
                       why="None and {} mean 'no prior evaluations'; a dict with X and Y is the documented use"),
    "periodic_vars": dict(values=[], exclude=[("anything but None", "the code raises 'Periodic variables are not yet supported'")]),
    "poll_mesh_multiplier": dict(values=[J(2)], exclude=[("!= 2", "the mesh is 2^k throughout (C13, the skeleton model, force_to_grid/tol_mesh snapping); excluded by the task")],
                                 why="2 is the int spelling of the default 2.0"),
    "max_poll_grid_number": dict(values=[J(1), J(2), J(5)], why="cap of the mesh exponent"),
    "gp_rescale_poll": dict(values=[J(0), J(0.5), J(1000.0), J(1)], why="0 disables the GP-based rescaling; 1 is the int spelling of the default"),
    "tol_poi": dict(add=[J(0)], why="'set to 0 to always complete polling' (ini comment)"),
    "min_failed_poll_steps": dict(modes_pref=["det"], values=[J(0), J(2)], why="default inf; a count compared with the poll counter"),
    "accelerate_mesh_steps": dict(values=[J(1), J(2), J(6)],
                                  exclude=[(0, "premise 1 <= o_accel_steps of C09_history_reads_in_range (reads the row written later in the same iteration; DESIGN A.4)"),
                                           ("non-integer", "used as a history index")]),
    "mesh_overflow_warning": dict(values=[J(1), J(2), J(10)]),
    "init_mesh_size_integer": dict(values=[J(-1), J(-3)], exclude=[("> max_poll_grid_number", "a start above the cap (default cap 0) is a contradictory pair, not a single valid value")]),
    "stobads": dict(values=[], exclude=[(True, "Sto-BADS is outside every model (DESIGN A.8); excluded by the task")]),
    "stobads_frame_size_scaling_power": dict(values=[J(1), J(3)], why="read only under stobads=True (excluded): the runs only carry the value"),
    "tol_improvement": dict(values=[J(1e-3), J(1e3), J(2)], why="a float scale (the ini default is spelled as the int 1)"),
    "search_scale_incremental": dict(add=[J(0.5)], why="a float factor (the ini default is spelled as the int 2)"),
    "forcing_exponent": dict(values=[J(0.5), J(3.0), J(1)], why="positive exponent of the forcing function; 1 is an int spelling"),
    "incumbent_sigma_multiplier": dict(add=[J(0)]),
    "improvement_quantile": dict(values=[J(0.1), J(0.4), J(0.9)], exclude=[("<= 0 or >= 1", "a quantile: erfcinv(2q) is infinite outside (0, 1)")]),
    "final_quantile": dict(values=[J(1e-6), J(0.1), J(0.5)], exclude=[("<= 0 or >= 1", "a quantile")]),
    "n_search": dict(values=[J(1), J(2), J(16), J(2 ** 13)], why="positive number of candidate points"),
    "n_search_iter": dict(values=[J(1), J(3)], exclude=[(0, "zero ES generations leave the candidate arrays uninitialised (np.empty): clearly unsupported")]),
    "es_beta": dict(values=[J(0), J(10.0)]),
    "es_start": dict(add=[J(1)]),
    "search_method": dict(values=[J([["ES-wcm", 1]]), J([["ES-ell", 1]]), J([["ES-ell", 0], ["ES-wcm", 0]])],
                          why="enumeration: the two implemented strategies, each alone, and both without the sum rule"),
    "search_grid_number": dict(values=[J(1), J(2), J(20)]),
    "search_grid_multiplier": dict(values=[J(1), J(3)]),
    "search_n_try": dict(values=[J(0), J(1), J(2), J(8)], exclude=[("non-integer", "the loop counts searches up to search_n_try with ==: a non-integer never matches (DESIGN A.3 observation; premise of C03_terminates)")]),
    "search_mesh_expand": dict(values=[J(1), J(2), J(3)]),
    "search_mesh_increment": dict(values=[J(0), J(2)], why="0 is handled explicitly (> 0 test)"),
    "search_acq_fcn": dict(values=[E("('acq_LCB', 2.0)"), E("('acq_LCB', np.float64(2.0))"), E("('acq_LCB', lambda t, n: 1.5)")],
                           exclude=[("another acquisition name", "the code raises 'No acquisition function found'")],
                           why="second element = sqrt_beta of acq_fcn_lcb: 'a scalar or a function handle' (its docstring and error message)"),
    "mesh_noise_multiplier": dict(modes_pref=["det"], values=[J(0), J(5e-4), J(500.0)]),
    "n_train_max": dict(modes_pref=["det"], values=[J(1), J(2), J(200)]),
    "n_train_min": dict(values=[J(1), J(2), J(100)]),
    "buffer_ntrain": dict(values=[J(1), J(2), J(200)]),
    "hpd_frac": dict(values=[J(0.1), J(1.0)], exclude=[("<= 0 or > 1", "a fraction of the training set")]),
    "min_refit_time": dict(values=[J(0), J(1), J(50)]),
    "gp_mean_fun": dict(values=[J("zero"), J("negquad"), J("se")],
                        thorough_add=[J(s) for s in ("negquadse", "negquadfixiso", "negquadfix", "negquadsefix", "negquadonly", "negquadfixonly", "negquadlinonly", "negquadmix")],
                        why="enumeration: the names BADS._init_optim_state_ accepts (valid_gp_mean_funs); 'se' stands for the 9 accepted names that _meanfun_name_to_mean_function does not implement"),
    "gp_mean_percentile": dict(values=[J(10), J(50), J(100)], exclude=[("outside [0, 100]", "a percentile")]),
    "gp_mean_range_fun": dict(values=[E("lambda ym, y: np.max(y) - np.min(y)")], why="a callable (ym, y) -> non-negative range"),
    "gp_radius": dict(add=[J(1)]),
    "gp_cov_prior": dict(values=[J("none")], why="the code only compares with 'iso'"),
    "noise_nudge": dict(values=[J(None), E("np.array([2.0])"), E("np.array([0.5, 0.0])")], gpfault=True,
                        why="None / length 1 / length 2 are the three cases _robust_gp_fit_ distinguishes; read only after a LinAlgError"),
    "remove_points_after_tries": dict(values=[J(0), J(2), J(5)], gpfault=True, why="read only after a LinAlgError"),
    "gp_warnings": dict(gpfault=True, why="read only after a LinAlgError"),
    "use_slice_sampler": dict(gpfault="both", why="read in the second-fit path and after a LinAlgError"),
    "normalpha_level": dict(values=[J(1e-9), J(1e-3), J(0.05)]),
    "fun_evals_per_iter": dict(values=[J(2)]),
    "hyp_run_weight": dict(values=[J(0), J(0.5)]),
    "gp_train_n_init": dict(values=[J(1), J(8), J(300)]),
    "gp_train_n_init_final": dict(values=[J(1), J(2), J(20)]),
    "gp_train_init_method": dict(values=[J("sobol")], why="gpyreg's init_method is one of {'sobol', 'rand'}"),
    "upper_gp_length_factor": dict(values=[J(0.5), J(2.0)], why="default 0 = ignore; positive factor of the plausible range"),
    "gp_hyp_sampler": dict(values=[], exclude=[("anything but 'slicesample'", "the code raises 'Wrong sampler' (DESIGN A.8)")]),
    "warp_func": dict(values=[], exclude=[("!= 0", "output warping is not ported ('TODO warp function'): sd_y stays undefined")]),
    "acq_hedge": dict(values=[], exclude=[(True, "'Acquisition hedge (acquisition portfolio) not supported yet' (comment in _search_step_)")]),
    "hessian_method": dict(values=[J("cmaes")], why="the only value the code compares with ('Adaptive basis (unsupported)': the branch is `pass`)"),
    "output_fcn": dict(values=[E("lambda x, s: False"), E("lambda x, s: True")], why="callable (x, state) -> stop flag"),
    "f_vals": dict(values=[E("[1.5]"), E("[]")], why="'Evaluated function values at X0': one value per starting point; [] is handled explicitly"),
    "hedge_gamma": dict(values=[J(0), J(0.4)], why="0 has its own branch; n_funs*gamma must stay <= 1"),
    "uncertain_incumbent": dict(modes_pref=["det"], why="under noise the GP branch of _get_target_from_gp_ is taken regardless"),
    "hedge_decay": dict(values=[J(0.1), J(1.0)], exclude=[("> 1", "a decay factor")]),
}

# options that are parameters of Model/Skeleton.v (record opts, k0, nfs, final_quantile) or steer the control flow it models through recorded
# oracles (initial design, level detection, poll stopping rule, sufficient improvement): in the QUICK tier every run changing one of them is
# compared with the model, plus a seeded sample of the others (for which the GP/ES code the option steers is an oracle of the model anyway);
# the thorough tier compares every run inside the premises.
MODEL_RELEVANT = {
    "max_fun_evals", "max_iter", "search_n_try", "tol_mesh", "accelerate_mesh", "accelerate_mesh_steps", "tol_stall_iters", "skip_poll_after_search",
    "search_mesh_expand", "search_mesh_increment", "max_poll_grid_number", "search_grid_multiplier", "search_grid_number", "search_size_locked",
    "tol_fun", "sloppy_improvement", "init_mesh_size_integer", "noise_final_samples", "final_quantile", "fun_eval_start", "uncertainty_handling",
    "tol_noise", "improvement_quantile", "tol_improvement", "forcing_exponent", "complete_poll", "min_failed_poll_steps", "tol_poi",
    "consecutive_skipping", "noise_size", "uncertain_incumbent", "alternative_incumbent", "nonlinear_scaling", "force_poll_mesh", "cache_size",
}
QUICK_OTHER_COMPARED = 30

# premises of the skeleton model beyond those harness/skel.parse checks itself (it raises TraceShape): options whose non-default values
# change control flow that Model/Skeleton.v does not contain.  Runs that change them are monitored but NOT compared with the model.
NOT_MODELLED = {
    "output_fcn": "the output function can end the run before the loop (DESIGN A.8: not modelled)",
    "f_vals": "cached start values change the start-up phase (not modelled)",
    "fun_values": "prior evaluations (DESIGN A.8: dead code)",
    "restarts": "deprecated restarts (DESIGN A.8)",
}


# --------------------------------------------------------------------------- defaults + generic derivation

def real_defaults(D):
    """the REAL defaults: pybads' own Options class on the two ini files, loaded the way BADS.__init__ does"""
    sys.path.insert(0, os.environ.get("VERIF_REPO", "/repo"))
    import pybads.bads.bads as bb
    from pybads.bads.options import Options
    d = os.path.dirname(os.path.realpath(bb.__file__)) + "/option_configs/"
    o = Options(d + "basic_bads_options.ini", evaluation_parameters={"D": D}, user_options=None)
    o.load_options_file(d + "advanced_bads_options.ini", evaluation_parameters={"D": D})
    return {k: o[k] for k in o if k != "useroptions"}


def type_name(v):
    import numpy as np
    if isinstance(v, (bool, np.bool_)):
        return "bool"
    if isinstance(v, (int, np.integer)):
        return "int"
    if isinstance(v, (float, np.floating)):
        return "float"
    if v is None:
        return "None"
    if isinstance(v, str):
        return "str"
    if callable(v):
        return "callable"
    return type(v).__name__


def generic_values(name, default, kinds, reads):
    """the rule of the task statement; returns (values, rule) - ([], why) when the default's type gives no rule"""
    t = type_name(default)
    if t == "bool":
        return [J(not bool(default))], "flag -> the other truth value"
    if t == "int":
        d = int(default)
        vals = [v for v in (1, 2, 2 * max(d, 1) + 3) if v != d]
        return [J(v) for v in vals], "positive int -> {1, 2, a larger one}"
    if t == "float":
        if default == 0 or not math.isfinite(default):
            return [], "float default 0/inf: no multiplicative rule"
        return [J(float(default) * 1e-3), J(float(default) * 1e3)], "float -> {x1e-3, x1e3}"
    if t == "str":
        consts = []
        for r in reads:
            for u in r["uses"]:
                if u["kind"] == "eq_const":
                    try:
                        c = eval(u["detail"], {})
                    except Exception:
                        continue
                    if isinstance(c, str) and c != default and c not in consts:
                        consts.append(c)
                if u["kind"] == "member_of":
                    for c in u.get("values", []):
                        if isinstance(c, str) and c != default and c not in consts:
                            consts.append(c)
        return [J(c) for c in consts], "enumeration -> the constants the code compares with"
    return [], f"default of type {t}: no generic rule"


def value_table(cen, tier="quick", D=2):
    """-> {option: dict(default, type, kinds, rule, values=[...], excluded=[...], spec, gpfault, cell_exclude, why)} for every LIVE option"""
    dft = real_defaults(D)
    by = {}
    for r in cen["reads"]:
        by.setdefault(r["option"], []).append(r)
    tab = {}
    for name in cen["live"]:
        if name not in dft:
            raise RuntimeError(f"live option {name} has no real default")
        sp = SPECIAL.get(name, {})
        vals, rule = generic_values(name, dft[name], cen["kinds"].get(name, []), by.get(name, []))
        if "values" in sp:
            vals, rule = list(sp["values"]), "table (replaces the generic rule)"
        vals = vals + list(sp.get("add", []))
        if tier == "thorough":
            vals = vals + list(sp.get("thorough_add", []))
        seen, uniq = set(), []
        for v in vals:
            if v["label"] not in seen:
                seen.add(v["label"])
                uniq.append(v)
        tab[name] = dict(default=repr(dft[name])[:60], type=type_name(dft[name]), kinds=cen["kinds"].get(name, []), rule=rule, values=uniq,
                         excluded=[dict(value=str(v), why=w) for v, w in sp.get("exclude", [])], spec=sp.get("spec", {}),
                         gpfault=sp.get("gpfault", False), cell_exclude={f"{k[0]}|{k[1]}": w for k, w in sp.get("cell_exclude", {}).items()},
                         why=sp.get("why", ""))
        if not uniq and not sp.get("exclude") and "values" not in sp:
            raise RuntimeError(f"live option {name} (default {dft[name]!r}, kinds {cen['kinds'].get(name)}) has no alternative value and no stated exclusion")
    return tab


# --------------------------------------------------------------------------- cells -> specs

def _h(*parts):
    return int(hashlib.sha1(json.dumps(parts, sort_keys=True, default=str).encode()).hexdigest()[:8], 16)


def make_spec(changes, mode, seed, spec_over=None, gpfault=None):
    """changes: [(option, value)] (one entry, or two for a pair).  Deterministic in its arguments."""
    names = [c[0] for c in changes]
    h = _h(names, [c[1]["label"] for c in changes], mode, seed)
    D = 1 + h % 3
    target = ["sphere", "abs", "ellipsoid", "rosen"][(h // 3) % 4]
    budget = [40, 50, 60][(h // 12) % 3] if mode == "det" else [70, 80][(h // 12) % 2]
    spec = dict(D=D, target=target, box="sym", seed=1000 + h % 9000, options=dict(max_fun_evals=budget))
    spec.update(MODES[mode])
    spec.update(spec_over or {})
    for name, val in changes:
        if val["kind"] == "json":
            spec["options"][name] = val["v"]
        else:
            spec.setdefault("options_expr", {})[name] = val["v"]
    if gpfault:
        spec["gpfault"] = gpfault
    spec["om"] = dict(options=names, labels=[c[1]["label"] for c in changes], mode=mode)
    return spec


def all_cells(tab):
    cells = []
    for name in sorted(tab):
        t = tab[name]
        for val in t["values"]:
            for mode in MODE_ORDER:
                if f"{val['label']}|{mode}" in t["cell_exclude"]:
                    continue
                faults = [None]
                if t["gpfault"] is True:
                    faults = [dict(at=[1, 2])]
                elif t["gpfault"] == "both":
                    faults = [None, dict(at=[1, 2])]
                for gf in faults:
                    cells.append(dict(option=name, value=val, mode=mode, gpfault=gf))
    return cells


def plan(tab, tier, seed):
    """quick: ONE run per (live option, alternative value) - so every live option and every derived value is touched -, the noise
    mode rotating with the seed (restricted to `modes_pref` where the table says the value only takes effect in some modes);
    thorough: every cell (all 4 modes) - random pairs are added by the plug-in."""
    rng = random.Random(77000 + seed)
    cells = all_cells(tab)
    if tier == "thorough":
        chosen = cells
    else:
        by = {}
        for c in cells:
            by.setdefault((c["option"], c["value"]["label"], json.dumps(c["gpfault"])), []).append(c)
        chosen = []
        # quick tier: at most TWO alternative values per option (rotating with the seed) unless the table asks for all modes;
        # every live option is still touched on every run, every derived value over three seeds; the thorough tier runs everything
        per_opt = {}
        for k in sorted(by):
            per_opt.setdefault(k[0], []).append(k)
        keep = set()
        for o, ks in per_opt.items():
            if SPECIAL.get(o, {}).get("quick_all_modes") or len(ks) <= 2:
                keep |= set(ks)
            else:
                keep |= {ks[(seed + j) % len(ks)] for j in range(2)}
        for i, k in enumerate(sorted(by)):
            if k not in keep:
                continue
            cs = by[k]
            pref = SPECIAL.get(k[0], {}).get("modes_pref")
            if pref:
                cs = [c for c in cs if c["mode"] in pref] or cs
            if SPECIAL.get(k[0], {}).get("quick_all_modes"):
                chosen += cs
            else:
                chosen.append(cs[(i + seed + rng.randrange(4)) % len(cs)])
    return [make_spec([(c["option"], c["value"])], c["mode"], seed, tab[c["option"]]["spec"], c["gpfault"]) for c in chosen]


def pair_specs(tab, seed, n, bad_values=()):
    """random PAIRS of (option, value) in a random mode; values that already fail alone are not paired"""
    rng = random.Random(99000 + seed)
    singles = [(name, v) for name in sorted(tab) for v in tab[name]["values"] if (name, v["label"]) not in bad_values]
    out = []
    for _ in range(n):
        (a, va), (b, vb) = rng.sample(singles, 2)
        if a == b:
            continue
        mode = rng.choice(MODE_ORDER)
        if any(f"{v['label']}|{mode}" in tab[nm]["cell_exclude"] for nm, v in ((a, va), (b, vb))):
            continue
        over = dict(tab[a]["spec"])
        over.update(tab[b]["spec"])
        gf = dict(at=[1, 2]) if (tab[a]["gpfault"] or tab[b]["gpfault"]) and rng.random() < 0.5 else None
        out.append(make_spec(sorted([(a, va), (b, vb)], key=lambda c: c[0]), mode, seed, over, gf))
    return out


# --------------------------------------------------------------------------- one run

class RunTimeout(Exception):
    pass


def _decode(spec):
    import numpy as np
    out = {}
    for k, e in (spec.get("options_expr") or {}).items():
        out[k] = eval(e, {"np": np, "D": spec["D"]})
    return out


def run_one(spec):
    """Execute one spec on the real code.  Returns the harness.trace trace + om_reads (sorted [(option, file, function)])."""
    os.environ["PYBADS_VERIF"] = "1"
    sys.path.insert(0, os.environ.get("VERIF_REPO", "/repo"))
    import warnings
    warnings.filterwarnings("ignore")
    import traceback
    try:
        import numpy as np
        import gpyreg
        from harness import trace as T
        from pybads.bads.options import Options
        reads = set()
        o_get = Options.__getitem__

        def rec_get(self_, key):
            try:
                fr = sys._getframe(1)
                if "_collections_abc" in fr.f_code.co_filename:      # Mapping.get / Mapping.__contains__ ("<frozen _collections_abc>")
                    fr = fr.f_back
                fn = fr.f_code.co_filename
                i = fn.rfind("/pybads/")
                if i >= 0 and not fn.endswith("/bads/options.py"):
                    q = fr.f_code.co_qualname.split(".<locals>")[0]
                    reads.add((key, fn[i + 1:], q))
            except Exception:      # the recorder must never change the behaviour of the code under test
                pass
            return o_get(self_, key)

        extra = _decode(spec)
        o_mk = T.make_problem

        def mk(sp):
            fun, args, cons, options = o_mk(sp)
            options.update(extra)
            return fun, args, cons, options

        o_fit = gpyreg.GP.fit
        cnt = dict(n=0)
        at = set((spec.get("gpfault") or {}).get("at", []))

        def fit(self_, *a, **k):
            j = cnt["n"]
            cnt["n"] += 1
            if j in at:
                raise np.linalg.LinAlgError("injected by the option matrix at fit invocation %d" % j)
            return o_fit(self_, *a, **k)

        def on_alarm(signum, frame):
            raise RunTimeout("run exceeded %d s" % RUN_TIMEOUT_S)

        Options.__getitem__ = rec_get
        T.make_problem = mk
        if at:
            gpyreg.GP.fit = fit
        old = signal.signal(signal.SIGALRM, on_alarm)
        signal.alarm(RUN_TIMEOUT_S)
        try:
            tr = T.run_spec(spec, None)
        finally:
            signal.alarm(0)
            signal.signal(signal.SIGALRM, old)
            Options.__getitem__ = o_get
            T.make_problem = o_mk
            gpyreg.GP.fit = o_fit
        for e in tr.get("events", []):          # the ES candidate sets (thousands of rows per search) are not used by C09: keep their sizes only
            if e[0] == "filter" and e[1] == "es":
                e[3], e[8] = len(e[3]), len(e[8])
        tr["om_reads"] = sorted(reads)
        tr["om_fits"] = cnt["n"]
        return tr
    except BaseException:
        return dict(spec=spec, fault=None, harness_exc=traceback.format_exc())


def traces(specs, workers=14):
    """parallel, with an on-disk cache keyed by the content hash of the checked tree (like harness.skel.traces)"""
    here = core.VERIF / "harness"
    key = core.repo_tree_hash() + "-" + hashlib.sha1((here / "trace.py").read_bytes() + VERSION.encode()).hexdigest()[:8]
    d = core.CACHE / key
    d.mkdir(parents=True, exist_ok=True)
    out, todo = [None] * len(specs), []
    for i, sp in enumerate(specs):
        h = hashlib.sha1(json.dumps(sp, sort_keys=True, default=str).encode()).hexdigest()[:16]
        f = d / f"om-{h}.pkl"
        if f.exists():
            try:
                out[i] = pickle.loads(f.read_bytes())
                continue
            except Exception:
                pass
        todo.append((i, sp, f))
    if todo:
        with ProcessPoolExecutor(max_workers=core.safe_workers(workers)) as ex:
            for (i, sp, f), tr in zip(todo, ex.map(run_one, [t[1] for t in todo], chunksize=1)):
                out[i] = tr
                if "harness_exc" not in tr:
                    f.write_bytes(pickle.dumps(tr))
    return out


# --------------------------------------------------------------------------- monitors (declarative, independent of the model)

def monitor(tr):
    """-> list of (key, what).  Keys are 'optmatrix:<option(s)>:<clause>' so that a known finding is specific to the option."""
    from harness import runlevel as R
    om = tr["spec"].get("om", {})
    tag = "+".join(om.get("options", ["?"]))
    lab = ", ".join(f"{o}={l}" for o, l in zip(om.get("options", []), om.get("labels", []))) + f" [{om.get('mode')}, D={tr['spec'].get('D')}]"
    out = []
    exc = tr.get("exc")
    if exc and exc[0] == "RunTimeout":
        # a wall-clock limit says nothing on a loaded machine: the run is INCONCLUSIVE (counted by the plug-in), never a violation;
        # non-termination of the control loop is C03's theorem and is monitored by an iteration bound (LoopGuard), not by time
        pass
    else:
        r = R.mon_c09(tr)
        if r:
            k = r[0]
            if "construct_exc" in tr:
                k = "construct:" + tr["construct_exc"][0]
            out.append((f"optmatrix:{tag}:{k}", f"{lab}: {r[1]}"))
    for mon in (R.mon_c01, R.mon_c03):
        try:
            r = mon(tr)
        except Exception as ex:
            out.append((f"optmatrix:{tag}:monitor-crash:{mon.__name__}", f"{lab}: monitor {mon.__name__} crashed: {ex!r}"))
            continue
        if r:
            out.append((f"optmatrix:{tag}:{mon.__name__[4:]}:{r[0]}", f"{lab}: {r[1]}"))
    if "result" in tr:
        res = tr["result"]
        if not (isinstance(res.get("fval"), float) and math.isfinite(res["fval"])):
            out.append((f"optmatrix:{tag}:result-fval", f"{lab}: returned fval {res.get('fval')!r} is not a finite float"))
        if res.get("x") is None or len(res["x"]) != tr["spec"]["D"] or not all(math.isfinite(v) for v in res["x"]):
            out.append((f"optmatrix:{tag}:result-x", f"{lab}: returned x {res.get('x')!r} is not a finite point of dimension {tr['spec']['D']}"))
    return out


def validate_census(trs, cen):
    """every option read the REAL code performed during the runs must be a read of the census (same option, file, function).
    -> (missing: sorted list, observed sites, census sites never observed)"""
    from translate import option_reads as OR
    sites = OR.sites(cen)
    seen = set()
    for tr in trs:
        for r in tr.get("om_reads", []):
            seen.add(tuple(r))
    missing = sorted(s for s in seen if s not in sites)
    return missing, seen, sorted(sites - seen)


def in_model(tr):
    """may this run be compared with Model/Skeleton.v?  -> (bool, why-not)"""
    from harness import skel as S
    om = tr["spec"].get("om", {})
    for o in om.get("options", []):
        if o in NOT_MODELLED:
            return False, f"{o}: {NOT_MODELLED[o]}"
    if tr["spec"].get("gpfault"):
        pass            # a failing GP fit is invisible to the skeleton (the GP is an oracle)
    if "harness_exc" in tr or "construct_exc" in tr:
        return False, "no run"
    if tr.get("exc") and tr["exc"][0] == "RunTimeout":
        return False, "timeout"
    try:
        S.parse(tr)
    except S.TraceShape as ex:
        return False, "TraceShape: " + str(ex)[:100]
    return True, ""


def noisy_target_run_as_deterministic(tr):
    """a noisy target that the run handles at uncertainty level 0 (tol_noise above the noise, by the user's choice): the model's state
    comparison applies, its side condition det_ok ('a target handled as deterministic returns the same value at the same point') cannot"""
    return tr["spec"].get("noise", "det") != "det" and "final" in tr and tr["final"].get("level") == 0
