"""Fail-closed translator: pybads/search/es_search.py + pybads/search/search_hedge.py -> coq/gen/Src_es.v  (C18, DESIGN A.23).

What is read (located structurally: class / method names, never line numbers) and what it becomes (Model/ESSrc.v):

  ESSearch._get_selection_idx_mask_   the float part (every statement up to and including the first `w = ...`) -> src_mask_head, canonical
                                      text (its result w0 is an oracle input of the model); the integer part -> src_mask : list mstmt over the
                                      grammar below; anything else raises.
  ESSearch.__call__                   the statements before the generations loop and the loop header -> src_loop_head (text); the loop body,
                                      top-level statement by statement, is sorted into
                                        calls   `u_new = force_to_grid(..)`, `u_new = contraints_check(..)`, the acquisition block
                                                (`if self.search_acq_fcn[0] == 'acq_LCB': z_new, fmu, fs = acq_fcn_lcb(..); z_new = z_new.flatten()
                                                else: raise`) -> src_calls (function, canonical text of every argument) + src_call_binds
                                        program `if z_new is None or z_new.size == 0: z_new = np.random.rand(u_new.shape[0])` -> GRandFill,
                                                `if i == 0: <copies> else: <appends>` -> GIfFirst, assignments to N / z_idx / z / us /
                                                us_candidates / z_candidates over the grammar GCopy GAppend GArgsort GTake GMinShapeLamb
                                                -> src_gen : list gstmt
                                        book    assignments to nold / ntest / n_new and the whole `if i < self.n_search_iter - 1:` block
                                                (frac guard, step size, mask call, ll, reproduction) -> src_book (text)
                                      in source order (src_order pins the interleaving); the statements after the loop -> src_ret.
                                      A statement of any other shape, an assignment to a variable of the program inside the book block or
                                      vice versa, raises or changes the definitions.
  ESSearch.__init__, ESSearchWM.__init__   -> src_init (text)
  ESSearchHedge.__call__              prob (three assignments), the draw, the pick, the class-by-NAME chain -> src_hedge : hedge_prog; every
                                      other statement -> src_hedge_rest (text); update_hedge -> src_update (text).

Normalisations (behaviour-preserving only): locals are alpha-renamed to canonical names by the order of their first binding; `a < b` is read as
`b > a`; the operands of `==`, of np.minimum / np.maximum (commutative) may be swapped; `.item()` / `int(..)` around an integer scalar are dropped;
`ast.unparse` normalises layout, redundant parentheses and quotes.

The translation is validated on every run: props/C18.py evaluates src_mask / src_gen+src_ret / src_hedge by vm_compute on the same cases as the
hand-written model against the real code (obligation correspondence:es_source).  translate/es_reference.json (written by --write-reference) is
used ONLY by aim() to tell the search where to look.
"""
from __future__ import annotations

import ast
import copy
import json
import os
import sys
from pathlib import Path

VERIF = Path(__file__).resolve().parent.parent
REPO = Path(os.environ.get("VERIF_REPO", "/repo"))
SRC_ES = "pybads/search/es_search.py"
SRC_HEDGE = "pybads/search/search_hedge.py"
OUT = VERIF / "coq" / "gen" / "Src_es.v"
REF = VERIF / "translate" / "es_reference.json"
LAST: dict = {}
_REGION = ["?"]


class Untranslatable(Exception):
    def __init__(self, msg, region=None):
        super().__init__(msg)
        self.region = region or _REGION[0]


def _fail(node, why):
    raise Untranslatable(f"[{_REGION[0]}] line {getattr(node, 'lineno', '?')}: {why}: "
                         f"{ast.unparse(node)[:160] if isinstance(node, ast.AST) else node}")


def U(node):
    return ast.unparse(node)


def cstr(s):
    return '"' + s.replace('"', '""') + '"'


def clist(xs):
    return "[" + "; ".join(xs) + "]"


def cpairs(ps):
    return "[\n    " + ";\n    ".join(f"({cstr(a)}, {cstr(b)})" for a, b in ps) + " ]"


# --------------------------------------------------------------------------- locating and alpha-renaming


def _class(tree, name):
    cs = [n for n in tree.body if isinstance(n, ast.ClassDef) and n.name == name]
    if len(cs) != 1:
        raise Untranslatable(f"class {name} not found exactly once")
    return cs[0]


def _method(cls, name):
    ms = [n for n in cls.body if isinstance(n, ast.FunctionDef) and n.name == name]
    if len(ms) != 1:
        raise Untranslatable(f"{cls.name}.{name} not found exactly once")
    return ms[0]


def _body(fn):
    b = list(fn.body)
    if b and isinstance(b[0], ast.Expr) and isinstance(b[0].value, ast.Constant) and isinstance(b[0].value.value, str):
        b = b[1:]
    return b


def alpha(fn, canon):
    """rename the locals of fn (names bound by assignment / for, not parameters) to canon[k] by order of first binding"""
    fn = copy.deepcopy(fn)
    params = {a.arg for a in fn.args.args + fn.args.kwonlyargs}
    stores = sorted(((n.lineno, n.col_offset, n.id) for n in ast.walk(fn) if isinstance(n, ast.Name) and isinstance(n.ctx, ast.Store)))
    order = []
    for _, _, nm in stores:
        if nm not in params and nm not in order:
            order.append(nm)
    mp = {nm: (canon[k] if k < len(canon) else f"extra_{k}") for k, nm in enumerate(order)}
    if len(set(mp.values())) != len(mp):
        raise Untranslatable("alpha-renaming not injective")
    clash = [n.id for n in ast.walk(fn) if isinstance(n, ast.Name) and n.id in set(mp.values()) - set(mp) and n.id not in mp]
    if clash:
        raise Untranslatable(f"free name {clash[0]} collides with a canonical local name")
    for n in ast.walk(fn):
        if isinstance(n, ast.Name) and n.id in mp:
            n.id = mp[n.id]
    return fn


def flatten(stmts):
    """generic text form of a statement list: (target | keyword, canonical text) in source order; raises on unknown statements"""
    out = []
    for s in stmts:
        if isinstance(s, ast.Assign) and len(s.targets) == 1:
            out.append((U(s.targets[0]), U(s.value)))
        elif isinstance(s, ast.AugAssign):
            out.append((U(s.target) + " " + type(s.op).__name__ + "=", U(s.value)))
        elif isinstance(s, ast.If):
            kw = "if"
            cur = s
            while True:
                out.append((kw, U(cur.test)))
                out += flatten(cur.body)
                if len(cur.orelse) == 1 and isinstance(cur.orelse[0], ast.If):
                    cur, kw = cur.orelse[0], "elif"
                    continue
                if cur.orelse:
                    out.append(("else", ""))
                    out += flatten(cur.orelse)
                break
        elif isinstance(s, ast.For) and not s.orelse:
            out.append(("for", U(s.target) + " in " + U(s.iter)))
            out += flatten(s.body)
        elif isinstance(s, ast.Return):
            out.append(("return", U(s.value) if s.value is not None else ""))
        elif isinstance(s, ast.Raise):
            out.append(("raise", type(s.exc).__name__ if s.exc is None else U(s.exc.func) if isinstance(s.exc, ast.Call) else U(s.exc)))
        elif isinstance(s, ast.Expr) and isinstance(s.value, ast.Call) and U(s.value.func) in (
                "self.logger.warn", "self.logger.warning", "self.logger.info", "self.logger.debug", "logging.basicConfig", "super().__init__"):
            if U(s.value.func) == "super().__init__":
                out.append(("super().__init__", ", ".join(U(a) for a in s.value.args)))
        elif isinstance(s, ast.Expr) and isinstance(s.value, ast.Constant) and isinstance(s.value.value, str):
            pass
        else:
            _fail(s, "statement not in the whitelist")
    return out


# --------------------------------------------------------------------------- (a) mask

MASK_CANON = ["tot", "sqrt_tot", "w", "nonzero", "delta", "lastnonzero", "strt_point", "cw", "idx", "select_mask"]
CMP = {ast.Gt: "CGt", ast.GtE: "CGe", ast.Lt: "CLt", ast.LtE: "CLe", ast.Eq: "CEq", ast.NotEq: "CNe"}
FLIP = {"CGt": "CLt", "CLt": "CGt", "CGe": "CLe", "CLe": "CGe", "CEq": "CEq", "CNe": "CNe"}


def _np(node, name):
    return (isinstance(node, ast.Call) and isinstance(node.func, ast.Attribute) and isinstance(node.func.value, ast.Name)
            and node.func.value.id == "np" and node.func.attr == name)


def _intlit(node):
    if isinstance(node, ast.Constant) and type(node.value) is int:
        return node.value
    if isinstance(node, ast.UnaryOp) and isinstance(node.op, ast.USub) and isinstance(node.operand, ast.Constant) and type(node.operand.value) is int:
        return -node.operand.value
    return None


def cz(n):
    return str(n) if n >= 0 else f"({n})"


class MaskParser:
    def __init__(self):
        self.ty = {"w": "v", "lamb": "s"}

    def veccmp(self, node):
        """<vector> <cmp> <int literal>  (either side) -> (cmp, vx, k)"""
        if not (isinstance(node, ast.Compare) and len(node.ops) == 1 and type(node.ops[0]) in CMP):
            _fail(node, "not a comparison of a vector with an integer literal")
        a, b, c = node.left, node.comparators[0], CMP[type(node.ops[0])]
        if _intlit(b) is None and _intlit(a) is not None:
            a, b, c = b, a, FLIP[c]
        k = _intlit(b)
        t, x = self.expr(a)
        if k is None or t != "v":
            _fail(node, "not a comparison of a vector with an integer literal")
        return c, x, k

    def expr(self, node):
        k = _intlit(node)
        if k is not None:
            return "s", f"(SLit {cz(k)})"
        if isinstance(node, ast.Name):
            if node.id not in self.ty:
                _fail(node, f"free name {node.id}")
            return self.ty[node.id], (f'(SVar {cstr(node.id)})' if self.ty[node.id] == "s" else f'(VVar {cstr(node.id)})')
        if isinstance(node, ast.BinOp) and isinstance(node.op, (ast.Add, ast.Sub)):
            (ta, xa), (tb, xb) = self.expr(node.left), self.expr(node.right)
            add = isinstance(node.op, ast.Add)
            if (ta, tb) == ("s", "s"):
                return "s", f"({'SAdd' if add else 'SSub'} {xa} {xb})"
            if (ta, tb) == ("v", "s"):
                return "v", f"({'VAddS' if add else 'VSubS'} {xa} {xb})"
            if (ta, tb) == ("v", "v") and not add:
                return "v", f"(VSubV {xa} {xb})"
            _fail(node, "operand types not in grammar")
        if _np(node, "sum") and len(node.args) == 1 and not node.keywords:
            if isinstance(node.args[0], ast.Compare):
                c, x, k = self.veccmp(node.args[0])
                return "s", f"(SCount {c} {x} {cz(k)})"
            t, x = self.expr(node.args[0])
            if t != "v":
                _fail(node, "np.sum of a scalar")
            return "s", f"(SSum {x})"
        if _np(node, "maximum") and len(node.args) == 2 and not node.keywords:
            (ta, xa), (tb, xb) = self.expr(node.args[0]), self.expr(node.args[1])
            if (ta, tb) == ("s", "s"):
                return "s", f"(SMax {xa} {xb})"
            if (ta, tb) == ("s", "v"):
                return "v", f"(VMaxS {xa} {xb})"
            if (ta, tb) == ("v", "s"):
                return "v", f"(VMaxS {xb} {xa})"
            _fail(node, "np.maximum of two vectors")
        if _np(node, "cumsum") and len(node.args) == 1 and not node.keywords:
            t, x = self.expr(node.args[0])
            if t != "v":
                _fail(node, "np.cumsum of a scalar")
            return "v", f"(VCumsum {x})"
        if (isinstance(node, ast.Subscript) and isinstance(node.slice, ast.Slice) and node.slice.step is None
                and _intlit(node.slice.lower) == 0 and _intlit(node.slice.upper) == -1):
            t, x = self.expr(node.value)
            if t != "v":
                _fail(node, "slice of a scalar")
            return "v", f"(VDropLast {x})"
        # int(<scalar>) and <scalar>.item(): identities on integer scalars
        if isinstance(node, ast.Call) and isinstance(node.func, ast.Name) and node.func.id == "int" and len(node.args) == 1 and not node.keywords:
            t, x = self.expr(node.args[0])
            if t == "s":
                return t, x
        if (isinstance(node, ast.Call) and isinstance(node.func, ast.Attribute) and node.func.attr == "item" and not node.args
                and not node.keywords):
            t, x = self.expr(node.func.value)
            if t == "s":
                return t, x
        _fail(node, "expression not in the mask grammar")

    def simple(self, s):
        if not (isinstance(s, ast.Assign) and len(s.targets) == 1 and isinstance(s.targets[0], ast.Name)):
            _fail(s, "not a simple assignment")
        t, x = self.expr(s.value)
        n = s.targets[0].id
        if n in ("lamb",) or (n in self.ty and self.ty[n] != t):
            _fail(s, "assignment changes a parameter or the type of a variable")
        self.ty[n] = t
        return f"({'MSet' if t == 's' else 'MSetV'} {cstr(n)} {x})"

    def stmt(self, s):
        if isinstance(s, ast.While) and not s.orelse:
            t = s.test
            if not (isinstance(t, ast.Compare) and len(t.ops) == 1 and type(t.ops[0]) in CMP):
                _fail(s, "while test not a comparison")
            a, b, c = t.left, t.comparators[0], CMP[type(t.ops[0])]
            if c in ("CLt", "CLe"):
                a, b, c = b, a, FLIP[c]
            (ta, xa), (tb, xb) = self.expr(a), self.expr(b)
            if (ta, tb) != ("s", "s"):
                _fail(s, "while test not scalar")
            return f"MWhile {c} {xa} {xb} " + clist([self.simple(b_) for b_ in s.body])
        if isinstance(s, ast.Return):
            t, x = self.expr(s.value)
            if t != "v":
                _fail(s, "returns a scalar")
            return f"MReturn {x}"
        if not (isinstance(s, ast.Assign) and len(s.targets) == 1):
            _fail(s, "statement not in the mask grammar")
        tg, val = s.targets[0], s.value
        if isinstance(tg, ast.Name):
            # n = (np.argwhere(v <c> k)[-1]).item()
            if (isinstance(val, ast.Call) and isinstance(val.func, ast.Attribute) and val.func.attr == "item" and not val.args
                    and isinstance(val.func.value, ast.Subscript) and _np(val.func.value.value, "argwhere")
                    and _intlit(val.func.value.slice) == -1 and len(val.func.value.value.args) == 1):
                c, x, k = self.veccmp(val.func.value.value.args[0])
                self.ty[tg.id] = "s"
                return f"MLastWhere {cstr(tg.id)} {c} {x} {cz(k)}"
            # n = np.zeros(np.max(v) + k, dtype=int)
            if _np(val, "zeros"):
                kws = {k.arg: U(k.value) for k in val.keywords}
                a = val.args[0] if len(val.args) == 1 else None
                if (kws == {"dtype": "int"} and isinstance(a, ast.BinOp) and isinstance(a.op, ast.Add) and _np(a.left, "max")
                        and len(a.left.args) == 1 and not a.left.keywords and _intlit(a.right) is not None):
                    t, x = self.expr(a.left.args[0])
                    if t == "v":
                        self.ty[tg.id] = "v"
                        return f"MZerosMax {cstr(tg.id)} {x} {cz(_intlit(a.right))}"
                _fail(s, "np.zeros not of the shape np.zeros(np.max(v) + k, dtype=int)")
            return "MSimple " + self.simple(s)
        if isinstance(tg, ast.Subscript) and isinstance(tg.value, ast.Name) and self.ty.get(tg.value.id) == "v":
            n = tg.value.id
            if isinstance(tg.slice, ast.Slice):
                # n[lo:hi] = n[lo:hi] - k
                if not (tg.slice.step is None and tg.slice.lower is not None and tg.slice.upper is not None
                        and isinstance(val, ast.BinOp) and isinstance(val.op, ast.Sub) and U(val.left) == U(tg)
                        and _intlit(val.right) is not None):
                    _fail(s, "slice store not of the shape n[lo:hi] = n[lo:hi] - k")
                (tl, xl), (th, xh) = self.expr(tg.slice.lower), self.expr(tg.slice.upper)
                if (tl, th) != ("s", "s"):
                    _fail(s, "slice bounds not scalars")
                return f"MDecSlice {cstr(n)} {xl} {xh} {cz(_intlit(val.right))}"
            t, x = self.expr(tg.slice)
            if t == "v" and _intlit(val) is not None:
                return f"MStore {cstr(n)} {x} {cz(_intlit(val))}"
        _fail(s, "statement not in the mask grammar")


def parse_mask(tree):
    _REGION[0] = "mask"
    fn = _method(_class(tree, "ESSearch"), "_get_selection_idx_mask_")
    if [a.arg for a in fn.args.args] != ["self", "mu", "lamb"] or fn.args.defaults or fn.args.vararg or fn.args.kwarg:
        _fail(fn, "unexpected signature")
    # `w` is the name the source gives the weight vector: the k-th local gets the k-th canonical name
    fn = alpha(fn, MASK_CANON)
    body = _body(fn)
    cut = next((k for k, s in enumerate(body) if isinstance(s, ast.Assign) and len(s.targets) == 1 and U(s.targets[0]) == "w"), None)
    if cut is None or cut > 5:
        raise Untranslatable("[mask] no `w = ...` among the first statements")
    head = flatten(body[:cut + 1])
    if any(k in ("if", "for", "return", "raise") for k, _ in head):
        raise Untranslatable("[mask] control flow in the float part")
    mp = MaskParser()
    prog = [mp.stmt(s) for s in body[cut + 1:]]
    if not prog or not prog[-1].startswith("MReturn") or any(p.startswith("MReturn") for p in prog[:-1]):
        raise Untranslatable("[mask] return is not the last statement")
    return head, prog


# --------------------------------------------------------------------------- (b) generations loop

CALL_CANON = ["U", "nvars", "N", "u_new", "us_rows", "us", "z", "i", "z_new", "fmu", "fs", "nold", "us_candidates", "z_candidates",
              "z_idx", "ntest", "n_new", "frac", "selection_mask", "ll"]
GEN_TARGETS = {"us_candidates", "z_candidates", "N", "z_idx", "z", "us", "z_new"}
BOOK_TARGETS = {"nold", "ntest", "n_new"}
GEN_TYPES = {"u_new": "rows", "z_new": "zs", "us_candidates": "rows", "z_candidates": "zs", "us": "rows", "z": "zs"}


class GenParser:
    def __init__(self):
        self.ty = dict(GEN_TYPES)

    def expr(self, node):
        if isinstance(node, ast.Name):
            if node.id not in self.ty:
                _fail(node, f"name {node.id} is not a variable of the selection program")
            return self.ty[node.id], f"(GVar {cstr(node.id)})"
        if (isinstance(node, ast.Call) and isinstance(node.func, ast.Attribute) and node.func.attr == "copy" and not node.args
                and not node.keywords):
            t, x = self.expr(node.func.value)
            return t, f"(GCopy {x})"
        if _np(node, "append") and len(node.args) == 2:
            kws = {k.arg: U(k.value) for k in node.keywords}
            if kws != {"axis": "0"}:
                _fail(node, "np.append without axis=0")
            (ta, xa), (tb, xb) = self.expr(node.args[0]), self.expr(node.args[1])
            if ta != tb or ta not in ("rows", "zs"):
                _fail(node, "np.append of arrays of different kinds")
            return ta, f"(GAppend {xa} {xb})"
        if _np(node, "argsort") and len(node.args) == 1 and not node.keywords:
            t, x = self.expr(node.args[0])
            if t != "zs":
                _fail(node, "np.argsort of something else than acquisition values")
            return "idx", f"(GArgsort {x})"
        if _np(node, "minimum") and len(node.args) == 2 and not node.keywords:
            a, b = node.args
            if U(a) == "self.lamb":
                a, b = b, a
            if (U(b) == "self.lamb" and isinstance(a, ast.Subscript) and _intlit(a.slice) == 0 and isinstance(a.value, ast.Attribute)
                    and a.value.attr == "shape"):
                t, x = self.expr(a.value.value)
                if t in ("rows", "zs"):
                    return "nat", f"(GMinShapeLamb {x})"
            _fail(node, "np.minimum not of the shape np.minimum(<array>.shape[0], self.lamb)")
        if isinstance(node, ast.Subscript) and isinstance(node.slice, ast.Subscript) and isinstance(node.slice.slice, ast.Slice):
            sl = node.slice.slice
            if sl.step is None and _intlit(sl.lower) == 0 and sl.upper is not None:
                (ta, xa), (ti, xi), (tn, xn) = self.expr(node.value), self.expr(node.slice.value), self.expr(sl.upper)
                if ta in ("rows", "zs") and ti == "idx" and tn == "nat":
                    return ta, f"(GTake {xa} {xi} {xn})"
            _fail(node, "gather not of the shape a[idx[0:n]]")
        _fail(node, "expression not in the selection grammar")

    def assign(self, s):
        n = s.targets[0].id
        t, x = self.expr(s.value)
        if n in GEN_TYPES and GEN_TYPES[n] != t:
            _fail(s, "assignment changes the kind of an array")
        self.ty[n] = t
        return n, x


def _call_pin(val, fname):
    if not (isinstance(val, ast.Call) and U(val.func) == fname and not val.keywords):
        return None
    return [U(a) for a in val.args]


def parse_call(tree):
    _REGION[0] = "loop"
    fn = _method(_class(tree, "ESSearch"), "__call__")
    fn = alpha(fn, CALL_CANON)
    body = _body(fn)
    loops = [k for k, s in enumerate(body) if isinstance(s, ast.For)]
    if len(loops) != 1:
        raise Untranslatable("[loop] not exactly one for loop in ESSearch.__call__")
    k = loops[0]
    loop = body[k]
    if loop.orelse or not isinstance(loop.target, ast.Name) or loop.target.id != "i":
        _fail(loop, "loop shape")
    head = flatten(body[:k]) + [("for", U(loop.target) + " in " + U(loop.iter))]
    calls, binds, book, order, prog = [], [], [], [], []
    gp = GenParser()
    for s in loop.body:
        if isinstance(s, ast.Assign) and len(s.targets) == 1 and isinstance(s.targets[0], ast.Name):
            tg = s.targets[0].id
            pinned = False
            for fname in ("force_to_grid", "contraints_check"):
                a = _call_pin(s.value, fname)
                if a is not None:
                    calls.append((fname, a)); binds.append((tg, fname)); order.append("call:" + fname); pinned = True
            if pinned:
                continue
            if tg in GEN_TARGETS:
                n, x = gp.assign(s)
                prog.append(f"GAssign {cstr(n)} {x}"); order.append("gen:" + n)
                continue
            if tg in BOOK_TARGETS:
                book.append((tg, U(s.value))); order.append("book:" + tg)
                continue
            _fail(s, "assignment to a variable that is neither of the selection program nor of the bookkeeping")
        if isinstance(s, ast.If):
            test = U(s.test)
            # the acquisition block
            if "search_acq_fcn" in test:
                t = s.test
                if not (isinstance(t, ast.Compare) and len(t.ops) == 1 and isinstance(t.ops[0], ast.Eq)):
                    _fail(s, "acquisition test")
                sides = sorted([U(t.left), U(t.comparators[0])])
                if sides != ["'acq_LCB'", "self.search_acq_fcn[0]"]:
                    _fail(s, "acquisition test")
                if not (len(s.body) == 2 and len(s.orelse) == 1 and isinstance(s.orelse[0], ast.Raise)):
                    _fail(s, "acquisition block shape")
                s1, s2 = s.body
                a = _call_pin(s1.value, "acq_fcn_lcb") if isinstance(s1, ast.Assign) and len(s1.targets) == 1 else None
                if a is None:
                    _fail(s1, "acquisition call")
                calls.append(("acq_fcn_lcb", a))
                binds.append((U(s1.targets[0]), "acq_fcn_lcb if self.search_acq_fcn[0] == 'acq_LCB' else raise " + U(s.orelse[0].exc.func)))
                if not (isinstance(s2, ast.Assign) and len(s2.targets) == 1):
                    _fail(s2, "acquisition block shape")
                binds.append((U(s2.targets[0]), U(s2.value)))
                order.append("call:acq_fcn_lcb")
                continue
            # the fallback draw
            if isinstance(s.test, ast.BoolOp) and isinstance(s.test.op, ast.Or) and not s.orelse:
                parts = sorted(U(v) for v in s.test.values)
                asg = [b for b in s.body if isinstance(b, ast.Assign)]
                rest = [b for b in s.body if not isinstance(b, ast.Assign)]
                flatten(rest)   # only logger calls
                if len(asg) != 1 or len(asg[0].targets) != 1 or not isinstance(asg[0].targets[0], ast.Name):
                    _fail(s, "fallback block shape")
                n = asg[0].targets[0].id
                v = asg[0].value
                if parts != sorted([f"{n} is None", f"{n}.size == 0"]):
                    _fail(s, "fallback test is not `<target> is None or <target>.size == 0`")
                if not (isinstance(v, ast.Call) and U(v.func) == "np.random.rand" and len(v.args) == 1 and not v.keywords
                        and isinstance(v.args[0], ast.Subscript) and _intlit(v.args[0].slice) == 0
                        and isinstance(v.args[0].value, ast.Attribute) and v.args[0].value.attr == "shape"
                        and isinstance(v.args[0].value.value, ast.Name)):
                    _fail(s, "fallback draw is not np.random.rand(<array>.shape[0])")
                m = v.args[0].value.value.id
                if n not in GEN_TYPES or m not in GEN_TYPES:
                    _fail(s, "fallback draw on a variable outside the selection program")
                prog.append(f"GRandFill {cstr(n)} {cstr(m)}"); order.append("gen:fallback")
                continue
            # if i == 0
            t = s.test
            if isinstance(t, ast.Compare) and len(t.ops) == 1 and isinstance(t.ops[0], ast.Eq) and sorted([U(t.left), U(t.comparators[0])]) == ["0", "i"]:
                arms = []
                for arm in (s.body, s.orelse):
                    g2 = GenParser(); g2.ty = dict(gp.ty)
                    items = []
                    for b in arm:
                        if not (isinstance(b, ast.Assign) and len(b.targets) == 1 and isinstance(b.targets[0], ast.Name) and b.targets[0].id in GEN_TARGETS):
                            _fail(b, "statement in the first-generation branch")
                        n, x = g2.assign(b)
                        items.append(f"({cstr(n)}, {x})")
                    arms.append(items)
                if not arms[0] or not arms[1]:
                    _fail(s, "empty arm of `if i == 0`")
                prog.append("GIfFirst " + clist(arms[0]) + "\n      " + clist(arms[1])); order.append("gen:if_first")
                continue
            if test == "i < self.n_search_iter - 1" or test == "self.n_search_iter - 1 > i":
                fl = flatten([s])
                fl[0] = ("if", "i < self.n_search_iter - 1")
                bad = [a for a, _ in fl if a in GEN_TARGETS - {"z_new"} or a in ("us", "z")]
                if bad:
                    _fail(s, f"the reproduction block assigns {bad[0]}")
                book += fl; order.append("book:reproduce")
                continue
            _fail(s, "if statement not in the whitelist of the loop body")
        _fail(s, "statement not in the whitelist of the loop body")
    # after the loop
    _REGION[0] = "return"
    tail = body[k + 1:]
    if len(tail) != 2 or not isinstance(tail[0], ast.If) or not isinstance(tail[1], ast.Return) or tail[0].orelse:
        raise Untranslatable("[return] statements after the loop are not `if ..: return ..` / `return ..`")
    t = tail[0].test
    if not (isinstance(t, ast.Compare) and len(t.ops) == 1 and isinstance(t.ops[0], ast.Eq)):
        _fail(t, "guard of the empty return")
    a, b = t.left, t.comparators[0]
    if _intlit(a) == 0:
        a, b = b, a
    if not (_intlit(b) == 0 and isinstance(a, ast.Subscript) and _intlit(a.slice) == 0 and isinstance(a.value, ast.Attribute)
            and a.value.attr == "shape" and isinstance(a.value.value, ast.Name)):
        _fail(t, "guard of the empty return is not <array>.shape[0] == 0")
    guard = a.value.value.id
    r0 = [b_ for b_ in tail[0].body if not isinstance(b_, ast.Expr)]
    if len(r0) != 1 or not isinstance(r0[0], ast.Return) or not isinstance(r0[0].value, ast.Tuple) or len(r0[0].value.elts) != 2 \
            or not all(isinstance(e, ast.Name) for e in r0[0].value.elts):
        _fail(tail[0], "empty return is not `return <array>, <array>`")
    empty = tuple(e.id for e in r0[0].value.elts)
    rv = tail[1].value
    if not (isinstance(rv, ast.Tuple) and len(rv.elts) == 2 and all(isinstance(e, ast.Subscript) and isinstance(e.value, ast.Name)
                                                                   and _intlit(e.slice) is not None for e in rv.elts)):
        _fail(tail[1], "return is not `return <array>[i], <array>[j]`")
    point = [(e.value.id, _intlit(e.slice)) for e in rv.elts]
    ret = (f"mkRet {cstr(guard)} ({cstr(empty[0])}, {cstr(empty[1])}) "
           f"(({cstr(point[0][0])}, {cz(point[0][1])}), ({cstr(point[1][0])}, {cz(point[1][1])}))")
    return dict(head=head, calls=calls, binds=binds, book=book, order=order, prog=prog, ret=ret)


def parse_init(tree):
    _REGION[0] = "init"
    out = flatten(_body(_method(_class(tree, "ESSearch"), "__init__")))
    out.append(("class", "ESSearchWM(" + ", ".join(U(b) for b in _class(tree, "ESSearchWM").bases) + ")"))
    out += flatten(_body(_method(_class(tree, "ESSearchWM"), "__init__")))
    ell = _class(tree, "ESSearchELL")
    out.append(("class", "ESSearchELL(" + ", ".join(U(b) for b in ell.bases) + ")"))
    if any(isinstance(n, ast.FunctionDef) and n.name in ("__init__", "__call__", "_get_selection_idx_mask_") for n in ell.body):
        raise Untranslatable("[init] ESSearchELL overrides the constructor / the loop / the mask")
    # census of the writers of the attributes the loop / the mask / the first population read: only the constructor (and, for the step
    # size, the loop itself) may assign them, anywhere in the module
    watch = {"lamb", "mu", "vec", "scale", "n_search_iter", "search_acq_fcn", "es_beta", "w", "ns"}
    for cls in [n for n in tree.body if isinstance(n, ast.ClassDef)]:
        for f in [n for n in cls.body if isinstance(n, ast.FunctionDef)]:
            for node in ast.walk(f):
                tgs = node.targets if isinstance(node, ast.Assign) else [node.target] if isinstance(node, (ast.AugAssign, ast.AnnAssign)) else []
                for t in tgs:
                    for e in (t.elts if isinstance(t, ast.Tuple) else [t]):
                        b = e.value if isinstance(e, ast.Subscript) else e
                        if isinstance(b, ast.Attribute) and isinstance(b.value, ast.Name) and b.value.id == "self" and b.attr in watch:
                            ok = (cls.name, f.name) == ("ESSearch", "__init__") or (b.attr == "scale" and (cls.name, f.name) == ("ESSearch", "__call__"))
                            if not ok:
                                raise Untranslatable(f"[init] second writer of self.{b.attr}: {cls.name}.{f.name} line {node.lineno}")
    wm = _class(tree, "ESSearchWM")
    if any(isinstance(n, ast.FunctionDef) and n.name in ("__call__", "_get_selection_idx_mask_") for n in wm.body):
        raise Untranslatable("[init] ESSearchWM overrides the loop / the mask")
    return out


# --------------------------------------------------------------------------- (d) hedge

QNAMES = {"self.prob": "prob", "self.n_funs": "n_funs", "self.gamma": "gamma"}


def qexpr(node, subst):
    txt = U(node)
    if txt in subst:
        return f"(QVar {cstr(subst[txt])})"
    k = _intlit(node)
    if k is not None:
        return f"(QLit {cz(k)})"
    if isinstance(node, ast.BinOp) and type(node.op) in (ast.Add, ast.Sub, ast.Mult, ast.Div):
        c = {ast.Add: "QAdd", ast.Sub: "QSub", ast.Mult: "QMul", ast.Div: "QDiv"}[type(node.op)]
        return f"({c} {qexpr(node.left, subst)} {qexpr(node.right, subst)})"
    if _np(node, "sum") and len(node.args) == 1 and not node.keywords:
        return f"(QSumOf {qexpr(node.args[0], subst)})"
    _fail(node, "expression not in the hedge grammar")


def parse_hedge(tree):
    _REGION[0] = "hedge"
    cls = _class(tree, "ESSearchHedge")
    fn = _method(cls, "__call__")
    meths = sorted(n.name for n in cls.body if isinstance(n, ast.FunctionDef))
    if meths != ["__call__", "__init__", "update_hedge"]:
        raise Untranslatable(f"[hedge] ESSearchHedge has methods {meths}: a writer of its state outside the three translated ones")
    body = _body(fn)
    rest, probs = [], []
    h = {}
    chain = None
    for s in body:
        if isinstance(s, ast.Assign) and len(s.targets) == 1 and U(s.targets[0]) == "self.prob":
            probs.append(s.value)
            rest.append(("self.prob", f"<{len(probs)}>"))
            continue
        if isinstance(s, ast.Assign) and len(s.targets) == 1 and U(s.targets[0]) == "self.chosen_hedge" and "argwhere" in U(s.value):
            v = s.value
            if not (isinstance(v, ast.Subscript) and _intlit(v.slice) is not None and _np(v.value, "argwhere") and len(v.value.args) == 1
                    and isinstance(v.value.args[0], ast.Compare) and len(v.value.args[0].ops) == 1):
                _fail(s, "draw is not np.argwhere(<rand> <cmp> np.cumsum(self.prob))[k]")
            c = v.value.args[0]
            a, b, op = c.left, c.comparators[0], CMP[type(c.ops[0])]
            if U(a) == "np.cumsum(self.prob)":
                a, b, op = b, a, FLIP[op]
            if not (isinstance(a, ast.Name) and U(b) == "np.cumsum(self.prob)"):
                _fail(s, "draw is not np.argwhere(<rand> <cmp> np.cumsum(self.prob))[k]")
            h["draw"] = f"({op}, {cz(_intlit(v.slice))})"
            h["rand"] = a.id
            rest.append(("self.chosen_hedge", "<draw>"))
            continue
        if isinstance(s, ast.Assign) and len(s.targets) == 1 and U(s.targets[0]) == "self.chosen_search_fun":
            h["pick"] = U(s.value)
            rest.append(("self.chosen_search_fun", "<pick>"))
            continue
        if isinstance(s, ast.If) and "chosen_search_fun" in U(s.test):
            if chain is not None:
                _fail(s, "second strategy chain")
            chain = s
            rest.append(("if", "<classes>"))
            continue
        rest += flatten([s])
    if len(probs) != 3 or "draw" not in h or "pick" not in h or chain is None:
        raise Untranslatable("[hedge] probabilities / draw / pick / class chain not found exactly once")
    if ("self.chosen_hedge", "<draw>") not in rest or (h["rand"], "np.random.rand()") not in rest:
        raise Untranslatable("[hedge] the draw does not read np.random.rand()")
    h["exp"] = U(probs[0])
    if not _np(probs[0], "exp"):
        _fail(probs[0], "first assignment of self.prob is not np.exp(..)")
    h["norm"] = qexpr(probs[1], {"self.prob": "E", h["exp"]: "E"})
    h["scale"] = qexpr(probs[2], QNAMES)
    classes, ctor, call = [], None, None
    cur = chain
    while True:
        t = cur.test
        if not (isinstance(t, ast.Compare) and len(t.ops) == 1 and isinstance(t.ops[0], ast.Eq)):
            _fail(t, "strategy test is not an equality")
        a, b = t.left, t.comparators[0]
        if isinstance(a, ast.Constant):
            a, b = b, a
        if not (U(a) == "self.chosen_search_fun[0]" and isinstance(b, ast.Constant) and isinstance(b.value, str)):
            _fail(t, "strategy test is not `self.chosen_search_fun[0] == <NAME>`")
        bd = cur.body
        if not (len(bd) == 3 and isinstance(bd[0], ast.Assign) and isinstance(bd[0].value, ast.Call) and isinstance(bd[0].value.func, ast.Name)
                and U(bd[0].targets[0]) == "search" and not bd[0].value.keywords
                and isinstance(bd[1], ast.Assign) and isinstance(bd[1].value, ast.Call) and U(bd[1].value.func) == "search" and not bd[1].value.keywords
                and isinstance(bd[2], ast.Return) and U(bd[2].value) == U(bd[1].targets[0])):
            _fail(cur, "strategy branch is not `search = <Class>(..); r = search(..); return r`")
        classes.append((b.value, bd[0].value.func.id))
        c1, c2 = [U(x) for x in bd[0].value.args], [U(x) for x in bd[1].value.args]
        if (ctor is not None and (ctor, call) != (c1, c2)):
            _fail(cur, "the strategies are constructed / called with different arguments")
        ctor, call = c1, c2
        if len(cur.orelse) == 1 and isinstance(cur.orelse[0], ast.If):
            cur = cur.orelse[0]
            continue
        if not (len(cur.orelse) == 1 and isinstance(cur.orelse[0], ast.Raise)):
            _fail(cur, "strategy chain does not end with raise")
        break
    h.update(classes=classes, ctor=ctor, call=call, rest=rest)
    _REGION[0] = "update"
    h["update"] = flatten(_body(_method(cls, "update_hedge")))
    h["ctor_init"] = flatten(_body(_method(cls, "__init__")))
    return h


# --------------------------------------------------------------------------- rendering


def definitions():
    tree = ast.parse((REPO / SRC_ES).read_text())
    htree = ast.parse((REPO / SRC_HEDGE).read_text())
    head, mask = parse_mask(tree)
    c = parse_call(tree)
    init = parse_init(tree)
    h = parse_hedge(htree)
    d = {}
    d["src_mask_head"] = ("list (string * string)", cpairs(head))
    d["src_mask"] = ("list mstmt", "[\n    " + ";\n    ".join(mask) + " ]")
    d["src_loop_head"] = ("list (string * string)", cpairs(c["head"]))
    d["src_calls"] = ("list (string * list string)", "[\n    " + ";\n    ".join(f"({cstr(f)}, {clist([cstr(a) for a in args])})" for f, args in c["calls"]) + " ]")
    d["src_call_binds"] = ("list (string * string)", cpairs(c["binds"]))
    d["src_gen"] = ("list gstmt", "[\n    " + ";\n    ".join(c["prog"]) + " ]")
    d["src_book"] = ("list (string * string)", cpairs(c["book"]))
    d["src_order"] = ("list string", clist([cstr(o) for o in c["order"]]))
    d["src_ret"] = ("ret_prog", c["ret"])
    d["src_init"] = ("list (string * string)", cpairs(init))
    d["src_hedge"] = ("hedge_prog", "mkHedge " + cstr(h["exp"]) + "\n    " + h["norm"] + "\n    " + h["scale"] + "\n    " + h["draw"] + "\n    "
                      + cstr(h["pick"]) + "\n    " + clist([f"({cstr(a)}, {cstr(b)})" for a, b in h["classes"]]) + "\n    "
                      + clist([cstr(a) for a in h["ctor"]]) + "\n    " + clist([cstr(a) for a in h["call"]]))
    d["src_hedge_rest"] = ("list (string * string)", cpairs(h["rest"]))
    d["src_hedge_init"] = ("list (string * string)", cpairs(h["ctor_init"]))
    d["src_update"] = ("list (string * string)", cpairs(h["update"]))
    return d


def render(d):
    lines = ["(* GENERATED by translate/es.py from " + SRC_ES + " and " + SRC_HEDGE + " on every ./check run - do not edit, never committed. *)",
             "From Coq Require Import ZArith QArith List String.", "From PV Require Import Model.Val Model.ESSelect Model.ESSrc.",
             "Import ListNotations.", "Open Scope string_scope.", "Open Scope Z_scope.", ""]
    for k, (ty, body) in d.items():
        lines.append(f"Definition {k} : {ty} :=\n  {body}.\n")
    return "\n".join(lines)


def poison(ex):
    OUT.parent.mkdir(parents=True, exist_ok=True)
    OUT.write_text("(* GENERATED by translate/es.py: the source is NOT translatable, no definition emitted.\n   "
                   + repr(ex).replace("*)", "* )").replace("(*", "( *").replace('"', "'") + " *)\n")


def diff_reference(d):
    try:
        ref = json.loads(REF.read_text())
    except Exception:
        return None
    return [k for k in d if ref.get(k) != d[k][1]]


def emit():
    try:
        d = definitions()
        text = render(d)
    except Exception as ex:          # fail closed on ANYTHING (also a crash of the translator itself)
        poison(ex)
        LAST.update(region=getattr(ex, "region", _REGION[0]), changed=None, error=repr(ex))
        if isinstance(ex, Untranslatable):
            raise
        raise Untranslatable(f"translator crashed: {ex!r}")
    OUT.parent.mkdir(parents=True, exist_ok=True)
    if not OUT.exists() or OUT.read_text() != text:
        OUT.write_text(text)
    ch = diff_reference(d)
    LAST.update(region=None, changed=ch, error=None)
    return dict(emitted=str(OUT), changed_vs_reference=ch)


REGION_OF = {"src_mask": "mask", "src_mask_head": "mask", "src_gen": "loop", "src_ret": "return", "src_calls": "loop", "src_call_binds": "loop",
             "src_book": "loop", "src_order": "loop", "src_loop_head": "loop", "src_init": "init", "src_hedge": "hedge", "src_hedge_rest": "hedge",
             "src_hedge_init": "hedge", "src_update": "update"}


def aim():
    """where the search should look after emit(): subset of mask / loop / return / init / hedge / update.  Only orders the search."""
    if not LAST:
        return []
    if LAST.get("error"):
        return [LAST.get("region") or "?"]
    out = []
    for k in LAST.get("changed") or []:
        r = REGION_OF.get(k, "?")
        if r not in out:
            out.append(r)
    return out


if __name__ == "__main__":
    if "--write-reference" in sys.argv:
        d = definitions()
        REF.write_text(json.dumps({k: v[1] for k, v in d.items()}, indent=1, sort_keys=True) + "\n")
        print("reference written:", REF)
    else:
        print(emit())
        print(OUT.read_text())
