"""Fail-closed translator: the DECISION LOGIC of BADS.optimize() / _search_step_ / _poll_step_  ->  coq/gen/Src_loop.v

Re-read on every run from VERIF_REPO (default /repo), pybads/bads/bads.py, class BADS.  Statements are located BY STRUCTURE
(which place they write, which names their test reads), never by line number.  Every located REGION is executed symbolically
as a branching straight-line program over a declared set of tracked places; the value of every tracked place at the end of
the region is emitted as a Gallina definition with a FIXED name and a FIXED parameter list (a source edit shows up as a failed
proof in Proofs/LoopSourceProofs.v, not as a Coq syntax / arity error).

Regions and what is emitted for them
  optimize   before the loop     is_finished / poll_iteration / search_success / search_spree initial values  (src_init_*)
             loop head           optim_state["iter"] = poll_iteration; mesh_size = pmm ** mesh_size_integer; the search-size lock
                                 (src_lock_ks, src_head_mesh_exp)
             search decision     do_search_step_flag                                                           (src_want_search)
             poll-skip block     search_count / search_success / search_spree / mesh_size_integer / do_poll_step  (src_pd_*)
             termination block   msg = "" ... optim_state["termination_msg"] = msg                             (src_term_fin, src_term_msg,
                                 src_stall_guard, src_stall_index)
             history guard       `if do_poll_step or is_finished:`                                             (src_record_hist)
             re-evaluation guard `if level > 0 and do_poll_step and poll_iteration > 0:`                       (src_reeval_guard)
             iteration counter   `if is_finished: ... else: if do_poll_step: poll_iteration += 1 ...`          (src_next_piter, src_next_iter)
  _search_step_  search_count += 1; the non-stobads evaluation; the `if is_search_improved:` block             (src_search_*)
  _poll_step_    initial values; the while guard; the best-so-far update; poll_count += 1; "Evaluate poll";
                 the mesh update block; mesh_size = pmm ** mesh_size_integer                                   (src_poll_*)
  _check_mesh_overflow_   whitelisted as a whole (writes only self.mesh_overflows)

Everything in a region must be understood: a statement is either (a) a write of a tracked place whose right-hand side is in the
expression grammar, (b) the binding of a local name to an expression of the grammar, to a history read or to an ORACLE call
(`self._eval_improvement_(...)` with checked arguments), (c) an `if` whose test is in the grammar, (d) one of the EXPLICITLY
whitelisted unmodelled shapes (IGN_* below: display strings, logging, u_success lists, reset_gp, gp hand-over).  Anything else
raises Untranslatable -> the generated file is poisoned -> ./check reports a broken tie.

Outside the regions: no other statement of the enclosing method, no other method of BADS and no other module of the package may
write a tracked place (WRITER CENSUS below; a second writer is a broken tie).  The stobads branches (`if not options["stobads"]:
... else: ...`, `if options["stobads"]: ...`) are OUT of the model: the non-stobads arm is translated, their number is emitted as
src_stobads_sites so that a new one is noticed.

Expression grammar
  e ::= int literal | tracked place | local | self.D | self.function_logger.func_count | options[<int key>] | optim_state["iter"]
      | len(self.function_logger.Y[self.function_logger.X_flag])            (number of logged rows)
      | e + e | e - e | e * e | np.minimum(e, e) | min(e, e) | np.maximum(e, e) | max(e, e) | np.mod(e, e) | e % e
      | options["poll_mesh_multiplier"] ** e                                  (a mesh size, carried by its EXPONENT: pmm > 1)
  b ::= e < e | e <= e | e > e | e >= e | e == e | b and b | b or b | not b | options[<bool key>] | True | False | tracked bool
Floats (improvements, tol_fun, sufficient improvement) are Q parameters; comparisons between them are emitted through Qle_bool so
that `<` and `<=` are different terms.  mesh sizes are compared through their exponents (Src_grid.v proves that reading).
"""
from __future__ import annotations

import ast
import copy
import os
import warnings
from pathlib import Path

VERIF = Path(__file__).resolve().parent.parent
REPO = Path(os.environ.get("VERIF_REPO", "/repo"))
SRC = "pybads/bads/bads.py"
OUT = VERIF / "coq" / "gen" / "Src_loop.v"


class Untranslatable(Exception):
    def __init__(self, msg, region="?"):
        super().__init__(f"[region {region}] {msg}")
        self.region = region


_REGION = ["?"]


def fail(node, why):
    d = ast.unparse(node)[:160] if isinstance(node, ast.AST) else repr(node)
    raise Untranslatable(f"{SRC}:{getattr(node, 'lineno', '?')}: {why}: {d!r}", _REGION[0])


# ----------------------------------------------------------------------------- tables

MSGS = {
    "": 0,
    "Optimization terminated: reached maximum number of function evaluations options['max_fun_evals'].": 1,
    "Optimization terminated: reached maximum number of iterations options['max_iter'].": 2,
    "Optimization terminated: change in the function value less than options['tol_mesh']": 3,
    "Optimization terminated: change in the function value less than options['tol_fun'].": 4,
}

# option key -> (parameter, type)
OPT = {
    "max_fun_evals": ("maxfe", "Z"), "max_iter": ("maxiter", "Z"), "search_n_try": ("ntry", "Z"), "tol_stall_iters": ("stall", "Z"),
    "search_mesh_expand": ("sme", "Z"), "search_mesh_increment": ("smi", "Z"), "max_poll_grid_number": ("maxgrid", "Z"),
    "search_grid_multiplier": ("sgm", "Z"), "search_grid_number": ("sgn", "Z"), "accelerate_mesh_steps": ("steps", "Z"),
    "tol_fun": ("tolfun", "Q"),
    "search_size_locked": ("locked", "B"), "skip_poll_after_search": ("skip", "B"), "accelerate_mesh": ("accel", "B"),
    "sloppy_improvement": ("sloppy", "B"),
}
# tracked places: canonical place string -> (parameter holding the value at region entry, type)
PLACES = {
    "self.mesh_size_integer": ("k", "Z"),
    "optim_state[search_size_integer]": ("ks", "Z"),
    "optim_state[search_count]": ("scount", "Z"),
    "self.search_success": ("ssucc", "Z"),
    "self.search_spree": ("spree", "Z"),
    "optim_state[iter]": ("iter", "Z"),
    "self.mesh_size": ("mesh_exp", "P"),
    "optim_state[mesh_size]": ("mesh_exp", "P"),
    "optim_state[tol_mesh]": ("tolmesh_exp", "P"),
    "optim_state[uncertainty_handling_level]": ("level", "Z"),
    "self.sufficient_improvement": ("SI", "Q"),
    "optim_state[search_sufficient_improvement]": ("SI", "Q"),
    "self.f_q_historic_improvement": ("hist", "Q"),
}
READ_ONLY = {"optim_state[tol_mesh]", "optim_state[uncertainty_handling_level]", "self.sufficient_improvement",
             "optim_state[search_sufficient_improvement]"}
PARAM_TY = {"k": "Z", "ks": "Z", "scount": "Z", "ssucc": "Z", "spree": "Z", "iter": "Z", "piter": "Z", "fc": "Z", "D": "Z", "nrows": "Z",
            "mesh_exp": "Z", "tolmesh_exp": "Z", "level": "Z", "cnt": "Z", "SI": "Q", "hist": "Q", "impr": "Q", "best": "Q",
            "have_cand": "B", "good": "B", "dopoll": "B", "fin": "B", "improved": "B", "success": "B"}
for _k, (_p, _t) in OPT.items():
    PARAM_TY[_p] = _t

# explicitly whitelisted UNMODELLED statement shapes inside the regions
IGN_NAMES = {"is_sucess_poll_flag", "exit_flag", "search_string", "search_status", "method", "gp", "u_base"}
IGN_ATTRS = {"reset_gp"}
IGN_CALLS = {"logger.debug", "logger.info", "logger.warn", "logger.warning", "self.logger.debug", "self.logger.info", "self.logger.warn",
             "self.logger.warning", "self._display_function_log_", "self.logging_action.append",
             "optim_state[u_success].append", "optim_state[y_success].append", "optim_state[f_success].append"}


# ----------------------------------------------------------------------------- shapes

def dotted(n):
    if isinstance(n, ast.Name):
        return n.id
    if isinstance(n, ast.Attribute):
        b = dotted(n.value)
        return None if b is None else b + "." + n.attr
    if isinstance(n, ast.Subscript):
        p = place(n)
        return p
    return None


def place(n):
    """canonical string of a place expression, or None"""
    if isinstance(n, ast.Name):
        return n.id
    if isinstance(n, ast.Attribute) and isinstance(n.value, ast.Name) and n.value.id == "self":
        return "self." + n.attr
    if isinstance(n, ast.Subscript) and isinstance(n.slice, ast.Constant) and isinstance(n.slice.value, str):
        b = n.value
        if isinstance(b, ast.Attribute) and isinstance(b.value, ast.Name) and b.value.id == "self" and b.attr in ("options", "optim_state"):
            return f"{b.attr}[{n.slice.value}]"
        if isinstance(b, ast.Name) and b.id in ("options", "optim_state"):
            return f"{b.id}[{n.slice.value}]"
    return None


def is_np(f, name):
    return isinstance(f, ast.Attribute) and isinstance(f.value, ast.Name) and f.value.id == "np" and f.attr == name


def parse_expr(text):
    return ast.parse(text, mode="eval").body


def same(node, text):
    return ast.dump(node) == ast.dump(parse_expr(text))


def stores_of(node):
    """every place written anywhere inside node (assignment, augmented assignment, for target, with ... as, walrus, del)"""
    out = []

    def targets(t):
        if isinstance(t, (ast.Tuple, ast.List)):
            for e in t.elts:
                targets(e)
        elif isinstance(t, ast.Starred):
            targets(t.value)
        else:
            out.append(t)
    for n in ast.walk(node):
        if isinstance(n, ast.Assign):
            for t in n.targets:
                targets(t)
        elif isinstance(n, (ast.AugAssign, ast.AnnAssign)):
            targets(n.target)
        elif isinstance(n, (ast.For, ast.comprehension)):
            targets(n.target)
        elif isinstance(n, ast.NamedExpr):
            targets(n.target)
        elif isinstance(n, ast.withitem) and n.optional_vars is not None:
            targets(n.optional_vars)
        elif isinstance(n, ast.Delete):
            for t in n.targets:
                targets(t)
        elif isinstance(n, (ast.Global, ast.Nonlocal)):
            out.extend(ast.Name(id=x) for x in n.names)
    return out


def stored_places(node):
    return [p for p in (place(t) for t in stores_of(node)) if p is not None]


# ----------------------------------------------------------------------------- IR

def ty(ir):
    k = ir[0]
    if k == "par":
        return PARAM_TY[ir[1]]
    if k == "int":
        return "Z"
    if k == "qlit":
        return "Q"
    if k in ("bool", "cmp", "and", "or", "not"):
        return "B"
    if k in ("bin", "min", "max", "mod"):
        return "Z"
    if k == "pow":
        return "P"
    if k == "ite":
        return ty(ir[2])
    raise Untranslatable("IR " + repr(ir), _REGION[0])


def free(ir, acc=None):
    acc = set() if acc is None else acc
    if ir[0] == "par":
        acc.add(ir[1])
    for x in ir[1:]:
        if isinstance(x, tuple):
            free(x, acc)
    return acc


def coq(ir):
    k = ir[0]
    if k == "int":
        return f"({ir[1]})" if ir[1] < 0 else str(ir[1])
    if k == "qlit":
        return f"({ir[1]} # 1)"
    if k == "bool":
        return "true" if ir[1] else "false"
    if k == "par":
        return ir[1]
    if k == "bin":
        return f"({coq(ir[2])} {ir[1]} {coq(ir[3])})"
    if k == "min":
        return f"(Z.min {coq(ir[1])} {coq(ir[2])})"
    if k == "max":
        return f"(Z.max {coq(ir[1])} {coq(ir[2])})"
    if k == "mod":
        return f"(Z.modulo {coq(ir[1])} {coq(ir[2])})"
    if k == "pow":                       # a mesh size is carried by its exponent
        return coq(ir[1])
    if k == "and":
        return f"(andb {coq(ir[1])} {coq(ir[2])})"
    if k == "or":
        return f"(orb {coq(ir[1])} {coq(ir[2])})"
    if k == "not":
        return f"(negb {coq(ir[1])})"
    if k == "ite":
        return f"(if {coq(ir[1])} then {coq(ir[2])} else {coq(ir[3])})"
    if k == "cmp":
        op, a, b = ir[1], ir[2], ir[3]
        ta, tb = ty(a), ty(b)
        if ta == "Q" or tb == "Q":
            qa, qb = coq(a), coq(b)
            return {"<": f"(Qlt_b {qa} {qb})", ">": f"(Qlt_b {qb} {qa})", "<=": f"(Qle_bool {qa} {qb})", ">=": f"(Qle_bool {qb} {qa})",
                    "==": f"(Qeq_bool {qa} {qb})"}[op]
        f = {"<": "Z.ltb", "<=": "Z.leb", ">": "Z.gtb", ">=": "Z.geb", "==": "Z.eqb"}[op]
        return f"({f} {coq(a)} {coq(b)})"
    raise Untranslatable("IR " + repr(ir), _REGION[0])


def evaluate(ir, env):
    """the same IR on Python values (int / Fraction or float / bool): used by the plug-in to pre-screen recorded runs"""
    k = ir[0]
    if k in ("int", "qlit", "bool"):
        return ir[1]
    if k == "par":
        return env[ir[1]]
    if k == "bin":
        a, b = evaluate(ir[2], env), evaluate(ir[3], env)
        return a + b if ir[1] == "+" else a - b if ir[1] == "-" else a * b
    if k == "min":
        return min(evaluate(ir[1], env), evaluate(ir[2], env))
    if k == "max":
        return max(evaluate(ir[1], env), evaluate(ir[2], env))
    if k == "mod":
        b = evaluate(ir[2], env)
        return evaluate(ir[1], env) % b if b != 0 else evaluate(ir[1], env)      # Z.modulo a 0 = a (Coq 8.16)
    if k == "pow":
        return evaluate(ir[1], env)
    if k == "and":
        return bool(evaluate(ir[1], env)) and bool(evaluate(ir[2], env))
    if k == "or":
        return bool(evaluate(ir[1], env)) or bool(evaluate(ir[2], env))
    if k == "not":
        return not evaluate(ir[1], env)
    if k == "ite":
        return evaluate(ir[2], env) if evaluate(ir[1], env) else evaluate(ir[3], env)
    if k == "cmp":
        a, b = evaluate(ir[2], env), evaluate(ir[3], env)
        return {"<": a < b, "<=": a <= b, ">": a > b, ">=": a >= b, "==": a == b}[ir[1]]
    raise Untranslatable("IR " + repr(ir))


def coerce(ir, want, node):
    t = ty(ir)
    if t == want:
        return ir
    if want == "Q" and ir[0] == "int":
        return ("qlit", ir[1])
    fail(node, f"value of type {t} stored / compared where {want} is expected")


# ----------------------------------------------------------------------------- symbolic state

class State:
    """tracked places -> IR; locals -> IR or ('hread', key, idx) / ('opaque',)"""

    def __init__(self, tracked, local_ty=None):
        self.v = {}
        self.tracked = dict(tracked)          # place -> type
        self.local_ty = dict(local_ty or {})  # tracked LOCAL names -> type (must be assigned before being read, or seeded)
        self.loc = {}
        self.flags = {}                       # pseudo places: 'moved' (the incumbent was updated), oracle call census
        self.written = set()

    def fork(self):
        s = State(self.tracked, self.local_ty)
        s.v, s.loc, s.flags, s.written = dict(self.v), dict(self.loc), dict(self.flags), set(self.written)
        return s

    def read(self, p, node):
        if p in self.v:
            return self.v[p]
        if p in PLACES:                       # the value at region entry
            return ("par", PLACES[p][0])
        fail(node, f"read of {p} which has no value in this region")

    def write(self, p, ir, node):
        if p in READ_ONLY or p not in self.tracked:
            fail(node, f"write to {p} inside a region that does not own it")
        self.v[p] = coerce(ir, self.tracked[p], node)
        self.written.add(p)


def merge(c, a: State, b: State, node) -> State:
    out = a.fork()
    for p in set(a.v) | set(b.v):
        va = a.v.get(p, ("par", PLACES[p][0]) if p in PLACES else None)
        vb = b.v.get(p, ("par", PLACES[p][0]) if p in PLACES else None)
        if va is None or vb is None:
            # a tracked LOCAL assigned in one arm only: undefined on the other path
            out.v.pop(p, None)
            out.flags.setdefault("partial", set()).add(p)
            continue
        out.v[p] = va if va == vb else ("ite", c, va, vb)
    out.written = a.written | b.written
    for f in set(a.flags) | set(b.flags):
        if f == "partial":
            out.flags["partial"] = a.flags.get("partial", set()) | b.flags.get("partial", set())
            continue
        fa, fb = a.flags.get(f, ("bool", False)), b.flags.get(f, ("bool", False))
        out.flags[f] = fa if fa == fb else ("ite", c, fa, fb)
    out.loc = {k: v for k, v in a.loc.items() if b.loc.get(k) == v}
    return out


# ----------------------------------------------------------------------------- expressions

def tr(n, st: State):
    if isinstance(n, ast.Constant):
        if type(n.value) is int:
            return ("int", n.value)
        if type(n.value) is bool:
            return ("bool", n.value)
        fail(n, "literal not in the grammar")
    if isinstance(n, ast.UnaryOp) and isinstance(n.op, ast.USub) and isinstance(n.operand, ast.Constant) and type(n.operand.value) is int:
        return ("int", -n.operand.value)
    if isinstance(n, ast.Name):
        if n.id in st.local_ty:
            if n.id not in st.v:
                fail(n, f"local {n.id} read before it is assigned on every path")
            return st.v[n.id]
        if n.id in st.loc:
            v = st.loc[n.id]
            if v[0] in ("hread", "opaque"):
                fail(n, f"local {n.id} holds an unmodelled value and is used in a modelled expression")
            return v
        fail(n, f"free name {n.id}")
    p = place(n)
    if p is not None:
        if p.startswith("options["):
            key = p[8:-1]
            if key in OPT:
                return ("par", OPT[key][0])
            fail(n, f"option {key!r} is not part of the decision logic")
        if p == "self.D":
            return ("par", "D")
        if p in PLACES:
            return st.read(p, n)
        fail(n, f"place {p} is not in the grammar")
    if same(n, "self.function_logger.func_count"):
        return ("par", "fc")
    if same(n, "len(self.function_logger.Y[self.function_logger.X_flag])"):
        return ("par", "nrows")
    if isinstance(n, ast.BinOp):
        if isinstance(n.op, ast.Pow):
            if place(n.left) != "options[poll_mesh_multiplier]":
                fail(n, "power with a base other than options['poll_mesh_multiplier']")
            return ("pow", coerce(tr(n.right, st), "Z", n))
        if isinstance(n.op, ast.Mod):
            return ("mod", coerce(tr(n.left, st), "Z", n), coerce(tr(n.right, st), "Z", n))
        ops = {ast.Add: "+", ast.Sub: "-", ast.Mult: "*"}
        if type(n.op) not in ops:
            fail(n, "operator not in the grammar")
        return ("bin", ops[type(n.op)], coerce(tr(n.left, st), "Z", n), coerce(tr(n.right, st), "Z", n))
    if isinstance(n, ast.Call) and not n.keywords and len(n.args) == 2:
        f = n.func
        a = lambda: (coerce(tr(n.args[0], st), "Z", n), coerce(tr(n.args[1], st), "Z", n))
        if (isinstance(f, ast.Name) and f.id == "min") or is_np(f, "minimum"):
            return ("min",) + a()
        if (isinstance(f, ast.Name) and f.id == "max") or is_np(f, "maximum"):
            return ("max",) + a()
        if is_np(f, "mod"):
            return ("mod",) + a()
    if isinstance(n, ast.Compare):
        if len(n.ops) != 1:
            fail(n, "chained comparison")
        ops = {ast.Lt: "<", ast.LtE: "<=", ast.Gt: ">", ast.GtE: ">=", ast.Eq: "=="}
        if type(n.ops[0]) not in ops:
            fail(n, "comparison not in the grammar")
        a, b = tr(n.left, st), tr(n.comparators[0], st)
        ta, tb = ty(a), ty(b)
        if "Q" in (ta, tb):
            a, b = coerce(a, "Q", n), coerce(b, "Q", n)
            if ops[type(n.ops[0])] == "==":
                fail(n, "== between floats is not in the grammar")
        elif ta == "P" and tb == "P":
            a, b = a[1] if a[0] == "pow" else a, b[1] if b[0] == "pow" else b      # pmm > 1: compare the exponents
            a, b = _as_exp(a), _as_exp(b)
        elif not (ta == "Z" and tb == "Z"):
            fail(n, f"comparison between {ta} and {tb}")
        return ("cmp", ops[type(n.ops[0])], a, b)
    if isinstance(n, ast.BoolOp):
        k = "and" if isinstance(n.op, ast.And) else "or"
        r = coerce(tr(n.values[0], st), "B", n)
        for v in n.values[1:]:
            r = (k, r, coerce(tr(v, st), "B", n))
        return r
    if isinstance(n, ast.UnaryOp) and isinstance(n.op, ast.Not):
        return ("not", coerce(tr(n.operand, st), "B", n))
    fail(n, "expression not in the grammar")


def _as_exp(ir):
    """a P-typed IR (parameter mesh_exp / tolmesh_exp, or an ite of powers) read as its exponent"""
    if ir[0] == "par":
        return ir
    if ir[0] == "pow":
        return ir[1]
    if ir[0] == "ite":
        return ("ite", ir[1], _as_exp(ir[2]), _as_exp(ir[3]))
    return ir


# ----------------------------------------------------------------------------- unmodelled shapes

def no_calls(n, allow_copy=True):
    for c in ast.walk(n):
        if isinstance(c, ast.Call):
            if allow_copy and isinstance(c.func, ast.Attribute) and c.func.attr == "copy" and not c.args and not c.keywords:
                continue
            return False
        if isinstance(c, (ast.NamedExpr, ast.Await, ast.Yield, ast.YieldFrom, ast.Lambda)):
            return False
    return True


def hist_read(n, st):
    """self.iteration_history.get("<key>")[<index in the grammar>] -> ('hread', key, idx)"""
    if isinstance(n, ast.Subscript) and isinstance(n.value, ast.Call) and same(n.value.func, "self.iteration_history.get") \
            and len(n.value.args) == 1 and not n.value.keywords and isinstance(n.value.args[0], ast.Constant) and isinstance(n.value.args[0].value, str):
        return ("hread", n.value.args[0].value, coerce(tr(n.slice, st), "Z", n))
    return None


def is_ignorable(s, st) -> bool:
    if isinstance(s, ast.Pass):
        return True
    if isinstance(s, ast.Expr) and isinstance(s.value, ast.Constant) and isinstance(s.value.value, str):
        return True
    if isinstance(s, ast.Expr) and isinstance(s.value, ast.Call):
        c = s.value
        name = dotted(c.func.value) + "." + c.func.attr if isinstance(c.func, ast.Attribute) and dotted(c.func.value) else dotted(c.func)
        if name is not None:
            name = name.replace("self.optim_state[", "optim_state[")
        if name in IGN_CALLS and all(no_calls(a) for a in c.args) and all(no_calls(k.value) for k in c.keywords):
            return True
        return False
    if isinstance(s, ast.Assign) and len(s.targets) == 1:
        t = s.targets[0]
        rhs_ok = isinstance(s.value, (ast.Constant, ast.Name, ast.JoinedStr)) and no_calls(s.value, allow_copy=False) or \
            (isinstance(s.value, (ast.Attribute, ast.Subscript)) and no_calls(s.value, allow_copy=False))
        if isinstance(t, ast.Name) and t.id in IGN_NAMES and (rhs_ok or hist_read(s.value, st) is not None):
            return True
        if isinstance(t, ast.Attribute) and isinstance(t.value, ast.Name) and t.value.id == "self" and t.attr in IGN_ATTRS and rhs_ok:
            return True
    return False


# ----------------------------------------------------------------------------- statement execution

class Ctx:
    def __init__(self):
        self.stobads_sites = 0
        self.oracles = []          # (region, target, description)
        self.overflow_calls = 0


def is_stobads_test(t):
    """-> 'neg' for `not self.options["stobads"]`, 'pos' for `self.options["stobads"]`, else None"""
    if place(t) == "options[stobads]":
        return "pos"
    if isinstance(t, ast.UnaryOp) and isinstance(t.op, ast.Not) and place(t.operand) == "options[stobads]":
        return "neg"
    return None


def mentions_stobads(n):
    return any(isinstance(c, ast.Constant) and c.value in ("stobads", "opp_stobads") for c in ast.walk(n))


def oracle_call(v, st, cx, what):
    """self._eval_improvement_(a, b, c, d, self.options["improvement_quantile"]) -> description of the arguments"""
    if not (isinstance(v, ast.Call) and same(v.func, "self._eval_improvement_") and len(v.args) == 5 and not v.keywords):
        return None
    if place(v.args[4]) != "options[improvement_quantile]":
        fail(v, "the quantile of _eval_improvement_ is not options['improvement_quantile']")

    def arg(a):
        if isinstance(a, ast.Name) and a.id in st.loc and st.loc[a.id][0] == "hread":
            return st.loc[a.id]
        p = place(a)
        if p in ("self.fval", "self.fsd"):
            return ("cur", p)
        if isinstance(a, ast.Name):
            return ("local", a.id)
        fail(a, "argument of _eval_improvement_ not understood")
    return [arg(a) for a in v.args[:4]]


def exec_block(stmts, st: State, cx: Ctx, hooks=None) -> State:
    for s in stmts:
        st = exec_stmt(s, st, cx, hooks or {})
    return st


def exec_stmt(s, st: State, cx: Ctx, hooks) -> State:
    # --- if
    if isinstance(s, ast.If):
        sb = is_stobads_test(s.test)
        if sb is not None:
            cx.stobads_sites += 1
            return exec_block(s.body if sb == "neg" else s.orelse, st, cx, hooks)
        if mentions_stobads(s.test):
            fail(s.test, "a test mixing the stobads options with modelled state")
        try:
            c = coerce(tr(s.test, st), "B", s.test)
        except Untranslatable:
            # an `if` on an unmodelled option flag is acceptable only around unmodelled statements
            p = place(s.test)
            if p is not None and p.startswith("options[") and p[8:-1] not in OPT and all(is_ignorable(x, st) for x in s.body + s.orelse):
                return st
            raise
        a = exec_block(s.body, st.fork(), cx, hooks)
        b = exec_block(s.orelse, st.fork(), cx, hooks)
        return merge(c, a, b, s)
    # --- hooks of the region (e.g. the incumbent update, the overflow check)
    for h in hooks.values():
        r = h(s, st, cx)
        if r is not None:
            return r
    # --- writes of tracked places
    if isinstance(s, ast.Assign) and len(s.targets) == 1:
        t = s.targets[0]
        p = place(t)
        if p is not None and (p in st.tracked or p in st.local_ty):
            want = st.tracked.get(p) or st.local_ty[p]
            if want == "M":
                if not (isinstance(s.value, ast.Constant) and s.value.value in MSGS):
                    fail(s, "termination message is not one of the five known strings")
                st.v[p] = ("int", MSGS[s.value.value])
                st.written.add(p)
                return st
            orc = oracle_call(s.value, st, cx, p)
            if orc is not None:
                if want != "Q":
                    fail(s, "an oracle float stored in a non-float place")
                cx.oracles.append((_REGION[0], p, orc))
                st.v[p] = ("par", hooks_oracle_name(p))
                st.written.add(p)
                return st
            ir = tr(s.value, st)
            if p in st.local_ty:
                st.v[p] = coerce(ir, want, s)
                st.written.add(p)
            else:
                st.write(p, ir, s)
            return st
        if p is not None and (p in PLACES or p in READ_ONLY):
            fail(s, f"write to {p} inside a region that does not own it")
        if isinstance(t, ast.Name) and not is_ignorable(s, st):
            # binding of an untracked local: a history read, or an expression of the grammar
            h = hist_read(s.value, st)
            if h is not None:
                st.loc[t.id] = h
                return st
            st.loc[t.id] = tr(s.value, st)
            return st
    if isinstance(s, ast.AugAssign):
        p = place(s.target)
        if p is not None and (p in st.tracked or p in st.local_ty):
            ops = {ast.Add: "+", ast.Sub: "-", ast.Mult: "*"}
            if type(s.op) not in ops:
                fail(s, "augmented operator not in the grammar")
            cur = st.v[p] if p in st.v else (st.read(p, s) if p in st.tracked else fail(s, f"local {p} updated before it is assigned"))
            ir = ("bin", ops[type(s.op)], coerce(cur, "Z", s), coerce(tr(s.value, st), "Z", s))
            if p in st.local_ty:
                st.v[p] = ir
                st.written.add(p)
            else:
                st.write(p, ir, s)
            return st
        fail(s, "augmented assignment to an unmodelled place inside a region")
    if is_ignorable(s, st):
        return st
    fail(s, "statement not understood inside a modelled region")


def hooks_oracle_name(p):
    return {"self.f_q_historic_improvement": "hist", "search_improvement": "impr", "poll_improvement": "impr"}[p]


def hook_overflow(s, st, cx):
    if isinstance(s, ast.Expr) and isinstance(s.value, ast.Call) and same(s.value, "self._check_mesh_overflow_()"):
        cx.overflow_calls += 1
        return st
    return None


def make_hook_incumbent(argnames):
    def h(s, st, cx):
        if isinstance(s, ast.Expr) and isinstance(s.value, ast.Call) and same(s.value.func, "self._update_incumbent_"):
            got = [a.id if isinstance(a, ast.Name) else None for a in s.value.args]
            if got != argnames or s.value.keywords:
                fail(s, f"_update_incumbent_ is not called with {argnames}")
            st.flags["moved"] = ("bool", True)
            return st
        return None
    return h


# ----------------------------------------------------------------------------- locating

def methods_of(tree):
    cls = [n for n in tree.body if isinstance(n, ast.ClassDef) and n.name == "BADS"]
    if len(cls) != 1:
        raise Untranslatable("class BADS not found exactly once", "census")
    return {n.name: n for n in cls[0].body if isinstance(n, ast.FunctionDef)}, cls[0]


def body_wo_doc(fn):
    b = fn.body
    if b and isinstance(b[0], ast.Expr) and isinstance(b[0].value, ast.Constant) and isinstance(b[0].value.value, str):
        return b[1:]
    return b


def find_one(stmts, pred, what, node):
    hit = [i for i, s in enumerate(stmts) if pred(s)]
    if len(hit) != 1:
        fail(node, f"expected exactly one {what} at this level, found {len(hit)}")
    return hit[0]


def assigns_place(s, p):
    return isinstance(s, (ast.Assign, ast.AugAssign)) and p in [place(t) for t in (s.targets if isinstance(s, ast.Assign) else [s.target])]


def names_in(n):
    return {x.id for x in ast.walk(n) if isinstance(x, ast.Name)}


def check_no_writes(stmts, places, where):
    for s in stmts:
        bad = [p for p in stored_places(s) if p in places]
        if bad:
            fail(s, f"{where}: a statement outside the modelled regions writes {sorted(set(bad))}")


# ----------------------------------------------------------------------------- regions

OPT_TRACKED = {"self.mesh_size_integer": "Z", "optim_state[search_size_integer]": "Z", "optim_state[search_count]": "Z",
               "self.search_success": "Z", "self.search_spree": "Z", "optim_state[iter]": "Z", "self.mesh_size": "P",
               "optim_state[mesh_size]": "P", "self.f_q_historic_improvement": "Q"}
OPT_LOCALS = {"is_finished": "B", "poll_iteration": "Z", "do_poll_step": "B", "do_search_step_flag": "B", "msg": "M"}
ALL_OPT = set(OPT_TRACKED) | set(OPT_LOCALS)


def seed(st, **kw):
    for name, par in kw.items():
        st.v[name] = ("par", par)
    return st


def region(name):
    _REGION[0] = name


def parse_optimize(fn, cx, defs, info):
    body = body_wo_doc(fn)
    region("optimize:init")
    iw = find_one(body, lambda s: isinstance(s, ast.While), "while loop", fn)
    loop = body[iw]
    if not same(loop.test, "not is_finished") or loop.orelse:
        fail(loop, "the main loop is not `while not is_finished:`")
    # --- before the loop: initial values
    st = State(OPT_TRACKED, OPT_LOCALS)
    pre_written = {}
    for s in body[:iw]:
        ps = [p for p in stored_places(s) if p in ALL_OPT]
        if not ps:
            continue
        if isinstance(s, ast.If):
            # the output function may set is_finished before the loop: `if options["output_fcn"] is not None: ... is_finished = output_fcn(...)`
            if ps == ["is_finished"] and same(s.test, 'self.options["output_fcn"] is not None') and not s.orelse:
                continue
            fail(s, "conditional write of loop state before the loop")
        if not isinstance(s, (ast.Assign, ast.AugAssign)):
            fail(s, "loop state written by a compound statement before the loop")
        st = exec_stmt(s, st, cx, {})
    for p, nm in (("is_finished", "init_fin"), ("poll_iteration", "init_piter"), ("self.search_success", "init_ssucc"), ("self.search_spree", "init_spree")):
        if p not in st.v:
            fail(fn, f"{p} is not initialised before the loop")
        defs.append((nm, [], st.v[p]))
    if set(st.written) - {"is_finished", "poll_iteration", "self.search_success", "self.search_spree"}:
        fail(fn, f"unexpected loop state written before the loop: {sorted(st.written)}")
    check_no_writes(body[iw + 1:], ALL_OPT - {"self.f_q_historic_improvement"}, "after the loop")
    for s in body[iw + 1:]:
        if any(isinstance(n, ast.Name) and n.id == "is_finished" and isinstance(n.ctx, ast.Store) for n in ast.walk(s)):
            fail(s, "is_finished written after the loop")
    L = loop.body
    if any(isinstance(n, (ast.Break, ast.Continue, ast.Return)) for s in L for n in ast.walk(s) if not isinstance(s, (ast.FunctionDef,))):
        # break / continue / return inside the main loop would bypass the termination block
        inner = [n for s in L for n in ast.walk(s) if isinstance(n, (ast.Break, ast.Continue, ast.Return))]
        # (breaks of nested for-loops are fine only if the nested loop is theirs; there is none in the modelled code)
        fail(inner[0], "break / continue / return inside the main loop")

    # --- loop head
    region("optimize:head")
    i_iter = find_one(L, lambda s: assigns_place(s, "optim_state[iter]"), 'top-level store to optim_state["iter"]', loop)
    i_ms = find_one(L, lambda s: assigns_place(s, "self.mesh_size"), "top-level store to self.mesh_size", loop)
    i_oms = find_one(L, lambda s: assigns_place(s, "optim_state[mesh_size]"), 'top-level store to optim_state["mesh_size"]', loop)
    i_lock = find_one(L, lambda s: isinstance(s, ast.If) and "optim_state[search_size_integer]" in stored_places(s), "search-size lock", loop)
    i_si = find_one(L, lambda s: assigns_place(s, "optim_state[search_sufficient_improvement]"), "store to search_sufficient_improvement", loop)
    if not same(L[i_si].value, "self.sufficient_improvement"):
        fail(L[i_si], 'optim_state["search_sufficient_improvement"] is not self.sufficient_improvement')
    if i_iter != 0:
        fail(L[i_iter], 'optim_state["iter"] = poll_iteration is not the first statement of the loop')
    st = seed(State(OPT_TRACKED, OPT_LOCALS), poll_iteration="piter")
    for i in (i_iter, i_ms, i_oms, i_lock):
        st = exec_stmt(L[i], st, cx, {})
    if not (i_iter < i_ms < i_oms < i_lock):
        fail(loop, "loop head statements are not in the modelled order")
    defs.append(("head_iter", ["piter"], st.v["optim_state[iter]"]))
    defs.append(("head_mesh_exp", ["k"], _as_exp(st.v["optim_state[mesh_size]"])))
    if st.v["self.mesh_size"] != st.v["optim_state[mesh_size]"]:
        fail(L[i_oms], 'optim_state["mesh_size"] is not self.mesh_size')
    defs.append(("lock_ks", ["locked", "k", "ks", "sgm", "sgn"], st.v.get("optim_state[search_size_integer]", ("par", "ks"))))

    # --- search decision
    region("optimize:want_search")
    i_ws = find_one(L, lambda s: assigns_place(s, "do_search_step_flag"), "assignment of do_search_step_flag", loop)
    st = State(OPT_TRACKED, OPT_LOCALS)
    st = exec_stmt(L[i_ws], st, cx, {})
    defs.append(("want_search", ["scount", "ntry", "nrows", "D"], st.v["do_search_step_flag"]))
    i_sc = find_one(L, lambda s: isinstance(s, ast.If) and any(isinstance(c, ast.Call) and same(c.func, "self._search_step_") for c in ast.walk(s)),
                    "call of _search_step_", loop)
    sc = L[i_sc]
    if not (same(sc.test, "do_search_step_flag") and not sc.orelse and len(sc.body) == 1 and isinstance(sc.body[0], ast.Assign)
            and isinstance(sc.body[0].value, ast.Call) and same(sc.body[0].value, "self._search_step_(gp)")
            and not [p for p in stored_places(sc.body[0]) if p in ALL_OPT]):
        fail(sc, "the search step is not `if do_search_step_flag: (...) = self._search_step_(gp)`")

    # --- poll-skip block
    region("optimize:pollskip")
    i_pd = find_one(L, lambda s: isinstance(s, ast.If) and "do_poll_step" in stored_places(s), "poll decision block", loop)
    st = State(OPT_TRACKED, OPT_LOCALS)
    st = exec_stmt(L[i_pd], st, cx, {"ov": hook_overflow})
    if "do_poll_step" not in st.v:
        fail(L[i_pd], "do_poll_step is not assigned on every path of the poll decision block")
    extra = st.written - {"do_poll_step", "optim_state[search_count]", "self.search_success", "self.search_spree", "self.mesh_size_integer"}
    if extra:
        fail(L[i_pd], f"the poll decision block writes {sorted(extra)}")
    PD = ["scount", "ntry", "ssucc", "skip", "spree", "sme", "smi", "k", "maxgrid"]
    defs.append(("pd_dopoll", PD, st.v["do_poll_step"]))
    defs.append(("pd_scount", PD, st.v.get("optim_state[search_count]", ("par", "scount"))))
    defs.append(("pd_ssucc", PD, st.v.get("self.search_success", ("par", "ssucc"))))
    defs.append(("pd_spree", PD, st.v.get("self.search_spree", ("par", "spree"))))
    defs.append(("pd_k", PD, st.v.get("self.mesh_size_integer", ("par", "k"))))

    # --- the poll step call
    region("optimize:poll_call")
    i_pc = find_one(L, lambda s: isinstance(s, ast.If) and any(isinstance(c, ast.Call) and same(c.func, "self._poll_step_") for c in ast.walk(s)),
                    "call of _poll_step_", loop)
    pc = L[i_pc]
    if not (same(pc.test, "do_poll_step") and not pc.orelse and len(pc.body) == 1 and isinstance(pc.body[0], ast.Expr)
            and same(pc.body[0].value, "self._poll_step_(gp)")):
        fail(pc, "the poll step is not `if do_poll_step: self._poll_step_(gp)`")

    # --- termination block: from `msg = ""` to optim_state["termination_msg"] = msg
    region("optimize:termination")
    i_m0 = find_one(L, lambda s: assigns_place(s, "msg"), "top-level assignment of msg", loop)
    i_m1 = find_one(L, lambda s: assigns_place(s, "optim_state[termination_msg]"), "store of the termination message", loop)
    if not same(L[i_m1].value, "msg") or i_m1 <= i_m0:
        fail(L[i_m1], 'optim_state["termination_msg"] = msg does not close the termination block')
    st = seed(State(OPT_TRACKED, OPT_LOCALS), poll_iteration="piter")
    st.v["is_finished"] = ("bool", False)             # `while not is_finished` and no write of is_finished earlier in the body (checked below)
    blk = L[i_m0:i_m1]
    st = exec_block(blk, st, cx, {})
    extra = st.written - {"msg", "is_finished", "self.f_q_historic_improvement"}
    if extra:
        fail(L[i_m0], f"the termination block writes {sorted(extra)}")
    TP = ["fc", "maxfe", "piter", "maxiter", "mesh_exp", "tolmesh_exp", "stall", "hist", "tolfun"]
    defs.append(("term_fin", TP, st.v["is_finished"]))
    defs.append(("term_msg", TP, st.v["msg"]))
    stall_ifs = [s for s in blk if isinstance(s, ast.If) and "self.f_q_historic_improvement" in stored_places(s)]
    if len(stall_ifs) != 1:
        fail(L[i_m0], "expected exactly one stall test computing self.f_q_historic_improvement")
    st2 = seed(State(OPT_TRACKED, OPT_LOCALS), poll_iteration="piter")
    defs.append(("stall_guard", ["piter", "stall"], coerce(tr(stall_ifs[0].test, st2), "B", stall_ifs[0].test)))
    orc = [o for o in cx.oracles if o[0] == "optimize:termination"]
    if len(orc) != 1:
        fail(L[i_m0], f"{len(orc)} oracle calls in the termination block")
    a = orc[0][2]
    if not (a[0][0] == "hread" and a[0][1] == "fval" and a[2][0] == "hread" and a[2][1] == "fsd" and a[0][2] == a[2][2]
            and a[1] == ("cur", "self.fval") and a[3] == ("cur", "self.fsd")):
        fail(stall_ifs[0], "the stall test is not _eval_improvement_(history fval[i], self.fval, history fsd[i], self.fsd, q)")
    defs.append(("stall_index", ["piter", "stall"], a[0][2]))

    # --- history guard / re-evaluation guard / iteration counter
    region("optimize:record")
    i_rec = find_one(L, lambda s: isinstance(s, ast.If) and names_in(s.test) == {"do_poll_step", "is_finished"} and isinstance(s.test, ast.BoolOp), "history guard", loop)
    st = State(OPT_TRACKED, OPT_LOCALS)
    st.v["do_poll_step"], st.v["is_finished"] = ("par", "dopoll"), ("par", "fin")
    defs.append(("record_hist", ["dopoll", "fin"], coerce(tr(L[i_rec].test, st), "B", L[i_rec])))
    if L[i_rec].orelse or not all(isinstance(x, ast.Expr) and isinstance(x.value, ast.Call) and same(x.value.func, "self.iteration_history.record")
                                  for x in L[i_rec].body):
        fail(L[i_rec], "the history guard holds something else than iteration_history.record(...) calls")
    rec_keys = [x.value.args[0].value for x in L[i_rec].body if x.value.args and isinstance(x.value.args[0], ast.Constant)]
    info["history_keys_recorded"] = rec_keys
    region("optimize:reeval")
    i_re = find_one(L, lambda s: isinstance(s, ast.If) and "do_poll_step" in names_in(s.test)
                    and any(isinstance(c, ast.Constant) and c.value == "uncertainty_handling_level" for c in ast.walk(s.test)), "re-evaluation guard", loop)
    st = seed(State(OPT_TRACKED, OPT_LOCALS), poll_iteration="piter", do_poll_step="dopoll")
    defs.append(("reeval_guard", ["level", "dopoll", "piter"], coerce(tr(L[i_re].test, st), "B", L[i_re])))
    check_no_writes(L[i_re].body + L[i_re].orelse, ALL_OPT, "re-evaluation block")
    region("optimize:next_iter")
    i_nx = find_one(L, lambda s: isinstance(s, ast.If) and "poll_iteration" in stored_places(s), "iteration counter update", loop)
    st = seed(State(OPT_TRACKED, OPT_LOCALS), poll_iteration="piter", do_poll_step="dopoll", is_finished="fin")
    st.v["optim_state[iter]"] = ("par", "piter")      # the loop head stored poll_iteration there
    nx = L[i_nx]
    # `if is_finished: if self.restarts > 0: pass` : the deprecated restart stub is whitelisted by shape
    if not same(nx.test, "is_finished"):
        fail(nx, "the iteration counter is not updated under `if is_finished: ... else: ...`")
    for x in nx.body:
        if not (isinstance(x, ast.If) and same(x.test, "self.restarts > 0") and all(isinstance(y, ast.Pass) for y in x.body) and not x.orelse):
            fail(x, "statement in the `if is_finished:` arm is not the restart stub")
    a_, b_ = st.fork(), exec_block(nx.orelse, st.fork(), cx, {})
    stn = merge(("par", "fin"), a_, b_, nx)
    extra = stn.written - {"poll_iteration", "optim_state[iter]"}
    if extra:
        fail(nx, f"the iteration counter block writes {sorted(extra)}")
    defs.append(("next_piter", ["fin", "dopoll", "piter"], stn.v["poll_iteration"]))
    defs.append(("next_iter", ["fin", "dopoll", "piter"], stn.v["optim_state[iter]"]))

    # --- order of the regions and the rest of the loop body
    order = [i_iter, i_ms, i_oms, i_lock, i_si, i_ws, i_sc, i_pd, i_pc, i_m0, i_m1, i_rec, i_re, i_nx]
    if order != sorted(order) or len(set(order)) != len(order):
        region("optimize:order")
        fail(loop, f"the regions of the loop body are not in the modelled order (positions {order})")
    region("optimize:second-writer")
    modelled = set([i_iter, i_ms, i_oms, i_lock, i_ws, i_pd, i_nx]) | set(range(i_m0, i_m1))
    rest = [s for i, s in enumerate(L) if i not in modelled]
    check_no_writes(rest, ALL_OPT, "optimize loop body")
    info["loop_body_statements"] = len(L)
    # mesh size read by the termination test: written at the head (exponent k at the head) and by _poll_step_ (called under do_poll_step,
    # after the poll decision block, before the termination block) -- nobody else (census)
    defs.append(("mesh_obs", ["dopoll", "k_head", "k_poll"], ("ite", ("par", "dopoll"), ("par", "k_poll"), ("par", "k_head"))))


SEARCH_LOCALS = {"search_improvement": "Q", "is_search_success": "B", "is_search_improved": "B"}
SEARCH_TRACKED = {"optim_state[search_count]": "Z", "self.search_success": "Z"}


def parse_search(fn, cx, defs, info):
    body = body_wo_doc(fn)
    region("search:count")
    i_c = find_one(body, lambda s: assigns_place(s, "optim_state[search_count]"), "top-level update of search_count", fn)
    st = exec_stmt(body[i_c], State(SEARCH_TRACKED, SEARCH_LOCALS), cx, {})
    defs.append(("search_scount", ["scount"], st.v["optim_state[search_count]"]))
    region("search:evaluate")
    i_e = find_one(body, lambda s: isinstance(s, ast.If) and "is_search_success" in stored_places(s), "search evaluation block", fn)
    if is_stobads_test(body[i_e].test) != "neg":
        fail(body[i_e], "the search evaluation is not under `if not self.options['stobads']:`")
    st = exec_stmt(body[i_e], State(SEARCH_TRACKED, SEARCH_LOCALS), cx, {})
    orc = [o for o in cx.oracles if o[0] == "search:evaluate"]
    if len(orc) != 1 or orc[0][2] != [("cur", "self.fval"), ("local", "f_mu_search"), ("cur", "self.fsd"), ("local", "f_sd_search")]:
        fail(body[i_e], "search_improvement is not _eval_improvement_(self.fval, f_mu_search, self.fsd, f_sd_search, q)")
    if st.written != {"search_improvement", "is_search_success", "is_search_improved"}:
        fail(body[i_e], f"the search evaluation writes {sorted(st.written)}")
    defs.append(("search_success", ["impr", "SI"], st.v["is_search_success"]))
    defs.append(("search_improved", ["impr", "SI", "sloppy"], st.v["is_search_improved"]))
    region("search:update")
    i_u = find_one(body, lambda s: isinstance(s, ast.If) and "self.search_success" in stored_places(s), "search bookkeeping block", fn)
    st = State(SEARCH_TRACKED, SEARCH_LOCALS)
    st.v["is_search_improved"], st.v["is_search_success"] = ("par", "improved"), ("par", "success")
    st.flags["moved"] = ("bool", False)
    st = exec_stmt(body[i_u], st, cx, {"inc": make_hook_incumbent(["u_search", "y_search", "f_mu_search", "f_sd_search"])})
    if st.written - {"self.search_success"}:
        fail(body[i_u], f"the search bookkeeping block writes {sorted(st.written)}")
    defs.append(("search_ssucc", ["improved", "success", "ssucc"], st.v.get("self.search_success", ("par", "ssucc"))))
    defs.append(("search_moves", ["improved", "success"], st.flags["moved"]))
    if not (i_c < i_e < i_u):
        fail(fn, "regions of _search_step_ are not in the modelled order")
    region("search:second-writer")
    rest = [s for i, s in enumerate(body) if i not in (i_c, i_e, i_u)]
    check_no_writes(rest, set(SEARCH_TRACKED) | set(SEARCH_LOCALS) | set(OPT_TRACKED), "_search_step_")
    for s in rest:
        if any(isinstance(c, ast.Call) and same(c.func, "self._update_incumbent_") for c in ast.walk(s)):
            fail(s, "_update_incumbent_ called outside the search bookkeeping block")
    logger_calls = [i for i, s in enumerate(body) if any(isinstance(c, ast.Call) and same(c.func, "self.function_logger") for c in ast.walk(s))]
    if not logger_calls or max(logger_calls) > i_e or min(logger_calls) < i_c:
        fail(fn, "the target evaluation of the search step is not between the counter update and the evaluation of the search")


POLL_LOCALS = {"poll_best_improvement": "Q", "poll_count": "Z", "certain_good_poll": "B", "poll_improvement": "Q", "is_poll_moved": "B"}
POLL_TRACKED = {"self.mesh_size_integer": "Z", "optim_state[search_size_integer]": "Z", "self.mesh_size": "P", "optim_state[mesh_size]": "P",
                "self.f_q_historic_improvement": "Q"}
HAVE_CAND = "(u_poll is not None and len(u_poll) > 0) or (B is None or len(B) == 0)"


def parse_poll(fn, cx, defs, info):
    body = body_wo_doc(fn)
    region("poll:init")
    iw = find_one(body, lambda s: isinstance(s, ast.While), "while loop", fn)
    w = body[iw]
    st = State(POLL_TRACKED, POLL_LOCALS)
    for s in body[:iw]:
        ps = [p for p in stored_places(s) if p in POLL_LOCALS or p in POLL_TRACKED or p in OPT_TRACKED]
        if ps:
            if not isinstance(s, ast.Assign):
                fail(s, "poll state initialised by something else than a plain assignment")
            st = exec_stmt(s, st, cx, {})
    for p, nm in (("poll_best_improvement", "poll_best0"), ("poll_count", "poll_count0"), ("certain_good_poll", "poll_good0")):
        if p not in st.v:
            fail(fn, f"{p} is not initialised before the poll loop")
        defs.append((nm, [], st.v[p]))
    if st.written != {"poll_best_improvement", "poll_count", "certain_good_poll"}:
        fail(fn, f"unexpected state written before the poll loop: {sorted(st.written)}")
    # --- guard
    region("poll:guard")
    t = w.test
    if w.orelse or not (isinstance(t, ast.BoolOp) and isinstance(t.op, ast.And) and len(t.values) == 3 and same(t.values[0], HAVE_CAND)):
        fail(t, "the poll loop guard is not `(<candidates left or no basis yet>) and <budget> and <count>`")
    st = State(POLL_TRACKED, POLL_LOCALS)
    st.v["poll_count"] = ("par", "cnt")
    g = ("and", ("and", ("par", "have_cand"), coerce(tr(t.values[1], st), "B", t)), coerce(tr(t.values[2], st), "B", t))
    defs.append(("poll_guard", ["have_cand", "fc", "maxfe", "cnt", "D"], g))
    # --- loop body
    region("poll:loop")
    W = w.body
    i_call = find_one(W, lambda s: any(isinstance(c, ast.Call) and same(c.func, "self.function_logger") for c in ast.walk(s)), "target evaluation", w)
    for i, s in enumerate(W):
        for n in ast.walk(s):
            if isinstance(n, ast.Continue) or isinstance(n, ast.Return):
                fail(n, "continue / return inside the poll loop")
            if isinstance(n, ast.Break) and i >= i_call:
                fail(n, "break after the target evaluation (the bookkeeping of an evaluated point would be skipped)")
    i_pi = find_one(W, lambda s: assigns_place(s, "poll_improvement"), "assignment of poll_improvement", w)
    i_b = find_one(W, lambda s: isinstance(s, ast.If) and "poll_best_improvement" in stored_places(s), "best-so-far update", w)
    i_n = find_one(W, lambda s: assigns_place(s, "poll_count"), "poll_count update", w)
    i_sb = [i for i, s in enumerate(W) if isinstance(s, ast.If) and is_stobads_test(s.test) == "pos"]
    st = State(POLL_TRACKED, POLL_LOCALS)
    st = exec_stmt(W[i_pi], st, cx, {})
    orc = [o for o in cx.oracles if o[0] == "poll:loop"]
    if len(orc) != 1 or orc[0][2] != [("cur", "self.fval"), ("local", "f_poll"), ("cur", "self.fsd"), ("local", "f_sd_poll")]:
        fail(W[i_pi], "poll_improvement is not _eval_improvement_(self.fval, f_poll, self.fsd, f_sd_poll, q)")
    st.v["poll_best_improvement"], st.v["certain_good_poll"], st.v["poll_count"] = ("par", "best"), ("par", "good"), ("par", "cnt")
    st.written = set()
    # the body of the best-so-far update also copies the point / value / hyperparameters: unmodelled locals, whitelisted by name
    upd = W[i_b]
    keep = []
    for x in upd.body:
        if isinstance(x, ast.Assign) and len(x.targets) == 1 and isinstance(x.targets[0], ast.Name) and \
                x.targets[0].id in ("u_poll_best", "y_poll_best", "f_poll_best", "f_sd_poll_best", "gp_poll_hyp_best"):
            continue
        keep.append(x)
    if upd.orelse:
        fail(upd, "the best-so-far update has an else arm")
    c = coerce(tr(upd.test, st), "B", upd.test)
    a = exec_block(keep, st.fork(), cx, {})
    stb = merge(c, a, st.fork(), upd)
    for i in i_sb:
        stb = exec_stmt(W[i], stb, cx, {})
    stb = exec_stmt(W[i_n], stb, cx, {})
    if stb.written != {"poll_best_improvement", "certain_good_poll", "poll_count"}:
        fail(upd, f"the poll bookkeeping writes {sorted(stb.written)}")
    defs.append(("poll_better", ["impr", "best"], c))
    defs.append(("poll_best", ["impr", "best"], stb.v["poll_best_improvement"]))
    defs.append(("poll_good", ["impr", "best", "SI", "good"], stb.v["certain_good_poll"]))
    defs.append(("poll_count", ["cnt"], stb.v["poll_count"]))
    if not (i_call < i_pi < i_b < i_n) or any(i < i_b for i in i_sb):
        fail(w, "statements of the poll loop are not in the modelled order")
    region("poll:second-writer")
    rest = [s for i, s in enumerate(W) if i not in [i_pi, i_b, i_n] + i_sb]
    check_no_writes(rest, set(POLL_LOCALS) | set(POLL_TRACKED) | set(OPT_TRACKED), "poll loop body")
    # --- after the loop
    A = body[iw + 1:]
    region("poll:moved")
    i_mv = find_one(A, lambda s: isinstance(s, ast.If) and "is_poll_moved" in stored_places(s), "poll evaluation block", fn)
    if is_stobads_test(A[i_mv].test) != "neg":
        fail(A[i_mv], "the poll evaluation is not under `if not self.options['stobads']:`")
    st = State(POLL_TRACKED, POLL_LOCALS)
    st.v["poll_best_improvement"] = ("par", "best")
    st.flags["moved"] = ("bool", False)
    st = exec_stmt(A[i_mv], st, cx, {"inc": make_hook_incumbent(["u_poll_best", "y_poll_best", "f_poll_best", "f_sd_poll_best"])})
    if st.written != {"is_poll_moved"}:
        fail(A[i_mv], f"the poll evaluation writes {sorted(st.written)}")
    if st.v["is_poll_moved"] != st.flags["moved"]:
        fail(A[i_mv], "is_poll_moved does not coincide with the call of _update_incumbent_")
    defs.append(("poll_moved", ["best", "SI", "sloppy"], st.flags["moved"]))
    region("poll:mesh")
    i_mb = find_one(A, lambda s: isinstance(s, ast.If) and "self.mesh_size_integer" in stored_places(s), "mesh update block", fn)
    i_ms = find_one(A, lambda s: assigns_place(s, "self.mesh_size"), "store to self.mesh_size", fn)
    i_oms = find_one(A, lambda s: assigns_place(s, "optim_state[mesh_size]"), 'store to optim_state["mesh_size"]', fn)
    st = State(POLL_TRACKED, POLL_LOCALS)
    st.v["certain_good_poll"] = ("par", "good")
    for i in (i_mb, i_ms, i_oms):
        st = exec_stmt(A[i], st, cx, {"ov": hook_overflow})
    extra = st.written - {"self.mesh_size_integer", "optim_state[search_size_integer]", "self.mesh_size", "optim_state[mesh_size]", "self.f_q_historic_improvement"}
    if extra:
        fail(A[i_mb], f"the mesh update block writes {sorted(extra)}")
    MP = ["good", "k", "maxgrid", "accel", "iter", "steps", "hist", "tolfun", "ks", "sgm", "sgn"]
    defs.append(("poll_k", MP, st.v["self.mesh_size_integer"]))
    defs.append(("poll_ks", MP, st.v.get("optim_state[search_size_integer]", ("par", "ks"))))
    defs.append(("poll_mesh_exp", MP, _as_exp(st.v["optim_state[mesh_size]"])))
    if st.v["self.mesh_size"] != st.v["optim_state[mesh_size]"]:
        fail(A[i_oms], 'optim_state["mesh_size"] is not self.mesh_size')
    accel_ifs = [n for n in ast.walk(A[i_mb]) if isinstance(n, ast.If) and "self.f_q_historic_improvement" in stored_places(n)
                 and not any(isinstance(m, ast.If) and m is not n and "self.f_q_historic_improvement" in stored_places(m) for m in ast.walk(n))]
    if len(accel_ifs) != 1:
        fail(A[i_mb], "expected exactly one acceleration test computing self.f_q_historic_improvement")
    st2 = State(POLL_TRACKED, POLL_LOCALS)
    st2.loc["iter"] = ("par", "iter")
    # the local the code calls `iter` may have any name: re-read its binding from the block
    for n in ast.walk(A[i_mb]):
        if isinstance(n, ast.Assign) and len(n.targets) == 1 and isinstance(n.targets[0], ast.Name) and place(n.value) == "optim_state[iter]":
            st2.loc[n.targets[0].id] = ("par", "iter")
    defs.append(("accel_guard", ["accel", "iter", "steps"], coerce(tr(accel_ifs[0].test, st2), "B", accel_ifs[0].test)))
    orc = [o for o in cx.oracles if o[0] == "poll:mesh"]
    if len(orc) != 1:
        fail(A[i_mb], f"{len(orc)} oracle calls in the mesh update block")
    a = orc[0][2]
    if not (a[0][0] == "hread" and a[0][1] == "fval" and a[2][0] == "hread" and a[2][1] == "fsd" and a[0][2] == a[2][2]
            and a[1] == ("cur", "self.fval") and a[3] == ("cur", "self.fsd")):
        fail(accel_ifs[0], "the acceleration test is not _eval_improvement_(history fval[i], self.fval, history fsd[i], self.fsd, q)")
    defs.append(("accel_index", ["iter", "steps"], a[0][2]))
    if not (i_mv < i_mb < i_ms < i_oms):
        fail(fn, "regions after the poll loop are not in the modelled order")
    if cx.overflow_calls < 2:
        fail(fn, "self._check_mesh_overflow_() is expected before each mesh enlargement")
    region("poll:second-writer")
    rest = [s for i, s in enumerate(A) if i not in (i_mv, i_mb, i_ms, i_oms)]
    check_no_writes(rest, set(POLL_LOCALS) | set(POLL_TRACKED) | set(OPT_TRACKED) - {"self.f_q_historic_improvement"}, "_poll_step_ after the loop")
    for s in rest + [x for i, x in enumerate(W)]:
        if any(isinstance(c, ast.Call) and same(c.func, "self._update_incumbent_") for c in ast.walk(s)):
            fail(s, "_update_incumbent_ called outside the poll evaluation block")


def parse_overflow(fn):
    region("overflow")
    body = body_wo_doc(fn)
    ok = (len(body) == 1 and isinstance(body[0], ast.If) and same(body[0].test, 'self.mesh_size_integer == self.options["max_poll_grid_number"]')
          and not body[0].orelse)
    if ok:
        for s in body[0].body:
            if isinstance(s, ast.AugAssign) and place(s.target) == "self.mesh_overflows":
                continue
            if isinstance(s, ast.If) and not s.orelse and all(isinstance(x, ast.Expr) and isinstance(x.value, ast.Call) and
                                                             dotted(x.value.func) in ("self.logger.warn", "self.logger.warning") for x in s.body) \
                    and not stored_places(s.test) and set(stored_places(s)) == set():
                continue
            ok = False
    if not ok:
        fail(fn, "_check_mesh_overflow_ is not the whitelisted counter + warning")


# ----------------------------------------------------------------------------- writer census (whole package)

CENSUS_KEYS = {"search_size_integer", "search_count", "iter", "mesh_size", "search_sufficient_improvement", "termination_msg"}
CENSUS_ATTRS = {"mesh_size_integer", "search_success", "search_spree", "sufficient_improvement"}
EXPECTED_WRITERS = {
    ("bads.py", "_init_optim_state_", "attr:mesh_size_integer"): 1,
    ("bads.py", "_init_optim_state_", "key:search_size_integer"): 1,
    ("bads.py", "_init_optim_state_", "key:mesh_size"): 1,
    ("bads.py", "_init_optim_state_", "attr:mesh_size"): 1,
    ("bads.py", "_init_optim_state_", "key:search_count"): 1,
    ("bads.py", "_init_optim_state_", "key:iter"): 1,
    ("bads.py", "optimize", "attr:search_success"): 2,
    ("bads.py", "optimize", "attr:search_spree"): 3,
    ("bads.py", "optimize", "key:iter"): 2,
    ("bads.py", "optimize", "attr:mesh_size"): 1,
    ("bads.py", "optimize", "key:mesh_size"): 1,
    ("bads.py", "optimize", "key:search_size_integer"): 1,
    ("bads.py", "optimize", "key:search_count"): 1,
    ("bads.py", "optimize", "attr:mesh_size_integer"): 1,
    ("bads.py", "optimize", "attr:sufficient_improvement"): 2,
    ("bads.py", "optimize", "key:search_sufficient_improvement"): 1,
    ("bads.py", "optimize", "key:termination_msg"): 1,
    ("bads.py", "_search_step_", "key:search_count"): 1,
    ("bads.py", "_search_step_", "attr:search_success"): 1,
    ("bads.py", "_poll_step_", "attr:mesh_size_integer"): 3,
    ("bads.py", "_poll_step_", "key:search_size_integer"): 1,
    ("bads.py", "_poll_step_", "attr:mesh_size"): 1,
    ("bads.py", "_poll_step_", "key:mesh_size"): 1,
}
# call sites of the methods that write loop state, in the whole class (a second call of _poll_step_ is a second writer)
EXPECTED_CALLS = {"_poll_step_": 1, "_search_step_": 1, "_check_mesh_overflow_": 2, "_update_incumbent_": 4, "_init_optim_state_": 1}
DYNAMIC = ("setattr", "__setattr__", "__dict__", "exec", "eval", "vars")


def census():
    region("census")
    got = {}
    pkg = REPO / "pybads"
    for f in sorted(pkg.rglob("*.py")):
        rel = f.relative_to(pkg)
        if "testing" in rel.parts or "tests" in rel.parts or "examples" in rel.parts:
            continue
        with warnings.catch_warnings():
            warnings.simplefilter("ignore")
            try:
                tree = ast.parse(f.read_text())
            except SyntaxError as ex:
                raise Untranslatable(f"{rel}: {ex}", "census")
        in_bads = f.name == "bads.py" and f.parent.name == "bads"

        def visit(node, fn_name, in_class_bads):
            for ch in ast.iter_child_nodes(node):
                if isinstance(ch, (ast.FunctionDef, ast.AsyncFunctionDef)):
                    visit(ch, ch.name if fn_name in (None, "<class>") else fn_name, in_class_bads)
                    continue
                if isinstance(ch, ast.ClassDef):
                    visit(ch, "<class>", in_bads and ch.name == "BADS")
                    continue
                if isinstance(ch, (ast.Assign, ast.AugAssign, ast.AnnAssign, ast.For, ast.NamedExpr, ast.withitem, ast.Delete, ast.comprehension)):
                    one = copy.copy(ch)
                    for t in stores_of_shallow(ch):
                        tag = None
                        if isinstance(t, ast.Subscript) and isinstance(t.slice, ast.Constant) and t.slice.value in CENSUS_KEYS:
                            base = dotted(t.value) or ""
                            if base.endswith("optim_state") or in_class_bads:
                                tag = "key:" + t.slice.value
                        if isinstance(t, ast.Attribute) and (t.attr in CENSUS_ATTRS or (t.attr == "mesh_size" and in_class_bads)):
                            if t.attr != "sufficient_improvement" or in_class_bads:
                                tag = "attr:" + t.attr
                        if tag:
                            k = (f.name, fn_name or "<module>", tag)
                            got[k] = got.get(k, 0) + 1
                if in_class_bads and isinstance(ch, ast.Call):
                    nm = dotted(ch.func) or ""
                    if nm.split(".")[-1] in DYNAMIC:
                        fail(ch, "dynamic attribute write / code execution inside class BADS")
                    if isinstance(ch.func, ast.Attribute) and dotted(ch.func.value) in ("self.optim_state", "optim_state") and \
                            ch.func.attr in ("update", "pop", "setdefault", "clear", "popitem", "__setitem__", "__delitem__"):
                        fail(ch, "optim_state mutated through a method call")
                visit(ch, fn_name, in_class_bads)
        visit(tree, None, False)
    if got != EXPECTED_WRITERS:
        extra = {k: v for k, v in got.items() if EXPECTED_WRITERS.get(k) != v}
        missing = {k: v for k, v in EXPECTED_WRITERS.items() if k not in got}
        raise Untranslatable(f"writer census differs from the modelled one: unexpected/changed {extra}, missing {missing}", "census")
    return {f"{a}:{b}:{c}": n for (a, b, c), n in sorted(got.items())}


def stores_of_shallow(n):
    """targets written by this node itself (not by nested statements)"""
    out = []

    def targets(t):
        if isinstance(t, (ast.Tuple, ast.List)):
            for e in t.elts:
                targets(e)
        elif isinstance(t, ast.Starred):
            targets(t.value)
        else:
            out.append(t)
    if isinstance(n, ast.Assign):
        for t in n.targets:
            targets(t)
    elif isinstance(n, (ast.AugAssign, ast.AnnAssign, ast.For, ast.comprehension, ast.NamedExpr)):
        targets(n.target)
    elif isinstance(n, ast.withitem) and n.optional_vars is not None:
        targets(n.optional_vars)
    elif isinstance(n, ast.Delete):
        for t in n.targets:
            targets(t)
    return out


# ----------------------------------------------------------------------------- driver

def parse():
    with warnings.catch_warnings():
        warnings.simplefilter("ignore")
        tree = ast.parse((REPO / SRC).read_text())
    methods, cls = methods_of(tree)
    for need in ("optimize", "_search_step_", "_poll_step_", "_check_mesh_overflow_"):
        if need not in methods:
            raise Untranslatable(f"method {need} not found", "census")
    cx, defs, info = Ctx(), [], {}
    parse_overflow(methods["_check_mesh_overflow_"])
    parse_optimize(methods["optimize"], cx, defs, info)
    parse_search(methods["_search_step_"], cx, defs, info)
    parse_poll(methods["_poll_step_"], cx, defs, info)
    info["writers"] = census()
    region("census")
    calls = {}
    for n in ast.walk(cls):
        if isinstance(n, ast.Call) and isinstance(n.func, ast.Attribute) and isinstance(n.func.value, ast.Name) and n.func.value.id == "self" \
                and n.func.attr in EXPECTED_CALLS:
            calls[n.func.attr] = calls.get(n.func.attr, 0) + 1
    for n in ast.walk(cls):
        # a bound method handed around (`f = self._poll_step_`) escapes the census
        if isinstance(n, ast.Attribute) and isinstance(n.value, ast.Name) and n.value.id == "self" and n.attr in EXPECTED_CALLS and isinstance(n.ctx, ast.Load):
            pass
    loads = sum(1 for n in ast.walk(cls) if isinstance(n, ast.Attribute) and isinstance(n.value, ast.Name) and n.value.id == "self" and n.attr in EXPECTED_CALLS)
    if calls != EXPECTED_CALLS or loads != sum(EXPECTED_CALLS.values()):
        raise Untranslatable(f"call sites of the loop's methods differ from the modelled ones: {calls} (references {loads}), expected {EXPECTED_CALLS}", "census")
    info["call_sites"] = calls
    # stobads branches anywhere in the class (the regions count the ones they step over; the rest of the class must hold no more)
    region("stobads")
    loop_methods = [methods[m] for m in ("optimize", "_search_step_", "_poll_step_")]
    total = sum(1 for m in loop_methods for n in ast.walk(m) if isinstance(n, ast.If) and is_stobads_test(n.test) is not None)
    other = sum(1 for m in loop_methods for n in ast.walk(m) if isinstance(n, (ast.If, ast.IfExp, ast.While)) and is_stobads_test(n.test) is None and
                any(isinstance(c, ast.Constant) and c.value == "stobads" for c in ast.walk(n.test)))
    if other:
        raise Untranslatable("a test mixes options['stobads'] with other conditions", "stobads")
    defs.append(("stobads_sites", [], ("int", total)))
    info["stobads_sites_in_regions"] = cx.stobads_sites
    names = [d[0] for d in defs]
    if len(set(names)) != len(names):
        raise Untranslatable(f"duplicate definitions {names}", "driver")
    region("driver")
    for name, params, ir in defs:
        extra = free(ir) - set(params)
        if extra:
            raise Untranslatable(f"definition {name} reads {sorted(extra)}, which the modelled expression does not", REGION_OF.get(name, "?"))
    info["definitions"] = names
    return defs, info


# definition -> region tag (for the directed search of the plug-ins)
REGION_OF = {
    "init_fin": "termination", "init_piter": "termination", "init_ssucc": "pollskip", "init_spree": "pollskip", "head_iter": "termination",
    "head_mesh_exp": "mesh", "lock_ks": "mesh", "want_search": "search", "pd_dopoll": "pollskip", "pd_scount": "pollskip", "pd_ssucc": "pollskip",
    "pd_spree": "pollskip", "pd_k": "pollskip", "term_fin": "termination", "term_msg": "termination", "stall_guard": "termination",
    "stall_index": "termination", "record_hist": "termination", "reeval_guard": "termination", "next_piter": "termination", "next_iter": "termination",
    "mesh_obs": "mesh", "search_scount": "search", "search_success": "search", "search_improved": "search", "search_ssucc": "search",
    "search_moves": "search", "poll_best0": "poll", "poll_count0": "poll", "poll_good0": "poll", "poll_guard": "poll", "poll_better": "poll",
    "poll_best": "poll", "poll_good": "poll", "poll_count": "poll", "poll_moved": "poll", "poll_k": "mesh", "poll_ks": "mesh",
    "poll_mesh_exp": "mesh", "accel_guard": "mesh", "accel_index": "mesh", "stobads_sites": "stobads",
}

# the emitted right-hand sides for the pinned source: a definition whose text differs tells the plug-in WHICH region was edited
BASELINE = {}


def render(defs):
    lines = ["(* GENERATED by translate/loop.py from " + SRC + " on every ./check run - do not edit, never committed.",
             "   Parameters: k / ks = mesh_size_integer / search_size_integer, scount / ssucc / spree = search_count / search_success / search_spree,",
             "   piter = the local poll_iteration, iter = optim_state['iter'], fc = function_logger.func_count, nrows = number of logged rows,",
             "   mesh_exp / tolmesh_exp = exponents of optim_state['mesh_size'] / ['tol_mesh'] (powers of poll_mesh_multiplier > 1),",
             "   SI = sufficient improvement, impr / best / hist = floats returned by _eval_improvement_ (oracle values), tolfun = options['tol_fun'],",
             "   the remaining names are the options of the same meaning.  Messages are numbered 0 (none) .. 4 as in harness/trace.py. *)",
             "From Coq Require Import ZArith QArith Bool.", "Open Scope Z_scope.", "",
             "Definition Qlt_b (a b : Q) : bool := negb (Qle_bool b a).", ""]
    for name, params, ir in defs:
        t = {"Z": "Z", "Q": "Q", "B": "bool", "P": "Z"}[ty(ir)]
        binder = "".join(f" ({p} : {({'Z': 'Z', 'Q': 'Q', 'B': 'bool'})[PARAM_TY.get(p, 'Z')]})" for p in params)
        lines.append(f"Definition src_{name}{binder} : {t} := {coq(ir)}.")
    return "\n".join(lines) + "\n"


PARAM_TY.update({"k_head": "Z", "k_poll": "Z"})


def changed_definitions(defs):
    try:
        import json
        base = json.loads((Path(__file__).with_name("loop_baseline.json")).read_text())
    except Exception:
        return None
    return [name for name, params, ir in defs if base.get(name) != coq(ir)]


def emit():
    try:
        defs, info = parse()
        text = render(defs)
    except Exception as ex:          # fail closed on ANYTHING (also on a crash of the translator itself): never leave a stale translation behind
        OUT.parent.mkdir(parents=True, exist_ok=True)
        OUT.write_text("(* GENERATED by translate/loop.py: the source is NOT translatable, no definition emitted.\n   "
                       + repr(ex).replace("*)", "* )").replace("(*", "( *") + " *)\n")
        LAST.update(region=getattr(ex, "region", _REGION[0]), changed=None, error=repr(ex), defs=None)
        if isinstance(ex, Untranslatable):
            raise
        raise Untranslatable(f"translator crashed: {ex!r}", _REGION[0])
    OUT.parent.mkdir(parents=True, exist_ok=True)
    if not OUT.exists() or OUT.read_text() != text:
        OUT.write_text(text)
    ch = changed_definitions(defs)
    LAST.update(region=None, changed=ch, error=None, defs=defs)
    info["emitted"] = str(OUT)
    info["changed_vs_baseline"] = ch
    return info


LAST = {}


def regions_to_search():
    """region tags the plug-ins should direct their search at after emit(): the failing region, or the regions of the definitions whose text
    differs from the pinned baseline; [] when nothing is known (search everything)."""
    if LAST.get("region"):
        r = LAST["region"]
        for key, tag in (("termination", "termination"), ("next_iter", "termination"), ("record", "termination"), ("reeval", "termination"),
                         ("pollskip", "pollskip"), ("poll_call", "pollskip"), ("want_search", "search"), ("search", "search"), ("poll:mesh", "mesh"),
                         ("head", "mesh"), ("overflow", "mesh"), ("poll", "poll"), ("second-writer", "any"), ("census", "any"), ("order", "any")):
            if key in r:
                return [tag]
        return ["any"]
    if LAST.get("changed"):
        return sorted({REGION_OF.get(n, "any") for n in LAST["changed"]})
    return []


if __name__ == "__main__":
    import json
    import sys
    if "--baseline" in sys.argv:
        defs, info = parse()
        Path(__file__).with_name("loop_baseline.json").write_text(json.dumps({n: coq(ir) for n, p, ir in defs}, indent=1) + "\n")
    print(json.dumps(emit(), indent=1, default=str))
    print(OUT.read_text())
