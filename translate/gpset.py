"""Fail-closed translator:  the GP training-set code  ->  coq/gen/Src_gpset.v      (property C15, DESIGN A.22)

Re-reads, from VERIF_REPO (default /repo) on every ./check C15 run,
  pybads/bads/gaussian_process_train.py : get_grid_search_neighbors, _get_fevals_data, add_and_update_gp, the head of local_gp_fitting
  pybads/bads/bads.py                   : every call of local_gp_fitting / add_and_update_gp in class BADS
and emits the programs whose meaning is fixed by coq/Model/GPSetSrc.v.  Functions are located by NAME, parameters by POSITION,
locals are followed through an environment (a renamed local changes nothing in the output).  Bodies are walked IN STATEMENT ORDER
by a symbolic executor with an explicit whitelist; ANYTHING else raises Untranslatable (./check counts that as a broken obligation,
never as a pass) and the generated file is replaced by a comment, so Props/C15src.v stops building too.

get_grid_search_neighbors(function_logger, u, gp, options, optim_state) — symbolic values
  Z      integer expression:  int literal | function_logger.X_max_idx | options["n_train_min" | "n_train_max" | "buffer_ntrain"] | Z + Z | Z - Z
         | np.minimum(Z, Z) / min | np.maximum(Z, Z) / max | np.max([Z, ...]) / np.min([Z, ...]) (folded from the left)
         | np.sum(MASK)                                         -> ZCount cmp
  COL    function_logger.X | .Y | .S, optionally [lo:hi] (Z bounds, lo default 0) and .copy()
  DIST   udist(COL X, u, gp.temporary_data["len_scale"], optim_state["lb"], ["ub"], ["scale"], ["periodic_vars"])   (7 positional arguments;
         the second must be the function's 2nd parameter; the texts of the others are emitted as src_udist_args)
         `if dist.ndim > 1: dist = np.min(dist, axis=1)`        -> row minimum
  SORT   np.argsort(DIST) (no keyword)         TAKE  SORT[lo:hi]         GATHER  COL[TAKE]   |   GATHER ** k
  RADIUS options["gp_radius"] * gp.temporary_data["effective_radius"] (either order);  RADIUS2 = RADIUS ** 2 | RADIUS * RADIUS
  MASK   DIST <cmp> RADIUS2   (RADIUS2 <cmp> DIST is read with the comparison turned round: provably the same)
  None;  `if function_logger.noise_flag:` assignments (value defined under the noise flag only; may be read only under it or returned)
statements: docstring | name = VALUE | optim_state["ntrain"] = Z (exactly once) | the two `if`s above | return (GATHER X, GATHER Y, res_S)
  where res_S is None unless noise_flag, then GATHER S ** k.  The count, the sort and the three gathers must use the SAME distance
  vector and the three gathers the SAME slice of the sort, otherwise Untranslatable.
_get_fevals_data(function_logger): x = X[X_flag, :] | X[X_flag]; y; s2 = S[X_flag] ** k under noise_flag else None; the time column; return.
add_and_update_gp(function_logger, gp, x_new, y_new, sd_new, options): gp.F = np.concatenate((gp.F, np.atleast_2d(ARG) [** k])), possibly under
  `if options["specify_target_noise"] and sd_new is not None:` (conjuncts in source order); gp.update(compute_posterior=True) after
  the appends; return gp.
local_gp_fitting: first statement `gp.X, gp.y, s2 = get_grid_search_neighbors(function_logger, current_point, gp, options, optim_state)`
  (arguments = own parameters 2, 1, 0, 3, 4), then (after call-free local assignments) `if s2 is not None: gp.s2 = s2`.
Census: every store to an attribute X / y / s2 (or into it) in both files -> src_gp_writers; call sites -> src_fit_sites, src_append_sites.

translate/gpset_reference.json is the snapshot of the translation the proofs were written against.  It is NEVER used to decide
anything; diff() only says which component of the current source differs so that the search can be aimed.
"""
from __future__ import annotations

import ast
import json
import sys
import warnings
from pathlib import Path

from vlib import core

REL_GP = "pybads/bads/gaussian_process_train.py"
REL_BADS = "pybads/bads/bads.py"
OUT = core.GEN / "Src_gpset.v"
REFERENCE = Path(__file__).resolve().parent / "gpset_reference.json"
OPT_VARS = {"n_train_min": "VNMin", "n_train_max": "VNMax", "buffer_ntrain": "VBuffer"}
COLS = {"X": "KX", "Y": "KY", "S": "KS"}
FLIP = {"CLe": "CGe", "CLt": "CGt", "CGe": "CLe", "CGt": "CLt"}
CMP = {ast.LtE: "CLe", ast.Lt: "CLt", ast.GtE: "CGe", ast.Gt: "CGt"}


class Untranslatable(Exception):
    def __init__(self, msg, where=None, focus=None):
        super().__init__(msg + (f" [{where}]" if where else ""))
        self.focus = focus


def bad(msg, node=None, fn=None, focus=None):
    where = None
    if node is not None:
        try:
            where = f"{fn or ''} l.{node.lineno}: {ast.unparse(node)[:160]}"
        except Exception:
            where = fn
    raise Untranslatable(msg, where, focus or fn)


def parse_quiet(text):
    with warnings.catch_warnings():
        warnings.simplefilter("ignore")
        return ast.parse(text)


def is_np(n, name):
    return isinstance(n, ast.Attribute) and n.attr == name and isinstance(n.value, ast.Name) and n.value.id in ("np", "numpy")


def const_str(n):
    return n.value if isinstance(n, ast.Constant) and isinstance(n.value, str) else None


def is_docstring(s):
    return isinstance(s, ast.Expr) and isinstance(s.value, ast.Constant) and isinstance(s.value.value, str)


def params(fn):
    a = fn.args
    if a.vararg or a.kwarg or a.kwonlyargs or a.posonlyargs:
        bad("unexpected parameter kinds", fn, fn.name)
    return [x.arg for x in a.args]


# ============================================================================= get_grid_search_neighbors

class GSN:
    FN = "get_grid_search_neighbors"

    def __init__(self, fn):
        self.fn = fn
        ps = params(fn)
        if len(ps) != 5:
            bad("get_grid_search_neighbors no longer has 5 parameters", fn, self.FN)
        self.P = dict(zip(ps, ["fl", "u", "gp", "options", "optim_state"]))
        self.env = {}
        self.under_noise = False
        self.ntrain_store = None
        self.udist_args = None
        self.ret = None

    def bad(self, msg, node=None):
        bad(msg, node, self.FN)

    # ---- expressions
    def sym(self, n):
        if isinstance(n, ast.Constant):
            if n.value is None:
                return ("NONE",)
            if isinstance(n.value, int) and not isinstance(n.value, bool):
                return ("Z", ("ZLit", n.value))
            self.bad("constant outside the whitelist", n)
        if isinstance(n, ast.Name):
            if n.id in self.env:
                v = self.env[n.id]
                if v[0] == "NOISE":
                    if not self.under_noise:
                        self.bad(f"`{n.id}` is defined only under function_logger.noise_flag but read outside it", n)
                    return v[1]
                return v
            if n.id in self.P:
                return ("P", self.P[n.id])
            self.bad(f"unknown name {n.id}", n)
        if isinstance(n, ast.Attribute):
            b = self.sym(n.value) if isinstance(n.value, ast.Name) else None
            if b == ("P", "fl"):
                if n.attr == "X_max_idx":
                    return ("Z", ("ZVar", "VXMax"))
                if n.attr in COLS:
                    return ("COL", COLS[n.attr], "full")
                if n.attr == "noise_flag":
                    return ("FLAG",)
            self.bad("attribute outside the whitelist", n)
        if isinstance(n, ast.Subscript):
            return self.sym_subscript(n)
        if isinstance(n, ast.Call):
            return self.sym_call(n)
        if isinstance(n, ast.BinOp):
            a, b = self.sym(n.left), self.sym(n.right)
            if isinstance(n.op, (ast.Add, ast.Sub)) and a[0] == "Z" and b[0] == "Z":
                return self.zmerge("ZAdd" if isinstance(n.op, ast.Add) else "ZSub", [a, b])
            if isinstance(n.op, ast.Mult) and {a, b} == {("GPRADIUS",), ("EFFRADIUS",)}:
                return ("RADIUS",)
            if isinstance(n.op, ast.Mult) and a == ("RADIUS",) and b == ("RADIUS",):
                return ("RADIUS2",)
            if isinstance(n.op, ast.Pow) and a == ("RADIUS",) and b == ("Z", ("ZLit", 2)):
                return ("RADIUS2",)
            if isinstance(n.op, ast.Pow) and a[0] == "GATHER" and b[0] == "Z" and b[1][0] == "ZLit" and b[1][1] >= 1:
                return ("GATHER", a[1], a[2], a[3] * b[1][1])
            self.bad("arithmetic outside the whitelist", n)
        if isinstance(n, ast.Compare) and len(n.ops) == 1 and type(n.ops[0]) in CMP:
            a, b = self.sym(n.left), self.sym(n.comparators[0])
            c = CMP[type(n.ops[0])]
            if a[0] == "DIST" and b == ("RADIUS2",):
                return ("MASK", c, a)
            if b[0] == "DIST" and a == ("RADIUS2",):
                return ("MASK", FLIP[c], b)
            self.bad("comparison outside the whitelist (expected dist <cmp> radius**2)", n)
        self.bad("expression outside the whitelist", n)

    def zlist(self, n):
        if not isinstance(n, (ast.List, ast.Tuple)) or not n.elts:
            self.bad("expected a list of integer expressions", n)
        vs = [self.sym(e) for e in n.elts]
        if any(v[0] != "Z" for v in vs):
            self.bad("non-integer element", n)
        return [v[1] for v in vs]

    def sym_call(self, n):
        f = n.func
        if n.keywords:
            self.bad("keyword arguments outside the whitelist", n)
        if isinstance(f, ast.Attribute) and f.attr == "copy" and not n.args:
            v = self.sym(f.value)
            if v[0] == "COL":
                return v
            self.bad(".copy() of something that is not a logger array", n)
        if isinstance(f, ast.Name) and f.id == "udist":
            if len(n.args) != 7:
                self.bad("udist is not called with 7 positional arguments", n)
            c = self.sym(n.args[0])
            if c[0] != "COL" or c[1] != "KX":
                self.bad("first argument of udist is not rows of function_logger.X", n.args[0])
            if self.sym(n.args[1]) != ("P", "u"):
                self.bad("second argument of udist is not the centre parameter (2nd parameter of the function)", n.args[1])
            if self.udist_args is not None:
                self.bad("udist called twice", n)
            texts = []
            for a in n.args[2:]:
                for nm in ast.walk(a):
                    if isinstance(nm, ast.Name) and nm.id in self.env:
                        self.bad("udist argument reads a local", a)
                texts.append(self.param_text(a))
            self.udist_args = texts
            return ("DIST", c, False)
        if is_np(f, "argsort") and len(n.args) == 1:
            d = self.sym(n.args[0])
            if d[0] != "DIST":
                self.bad("np.argsort of something that is not the distance vector", n)
            return ("SORT", d)
        if is_np(f, "sum") and len(n.args) == 1:
            m = self.sym(n.args[0])
            if m[0] != "MASK":
                self.bad("np.sum of something that is not dist <cmp> radius**2", n)
            return ("Z", ("ZCount", m[1]), m[2])
        two = {"minimum": "ZMin", "maximum": "ZMax"}
        if (isinstance(f, ast.Attribute) and isinstance(f.value, ast.Name) and f.value.id in ("np", "numpy") and f.attr in two and len(n.args) == 2) or \
           (isinstance(f, ast.Name) and f.id in ("min", "max") and len(n.args) == 2):
            op = two[f.attr] if isinstance(f, ast.Attribute) else {"min": "ZMin", "max": "ZMax"}[f.id]
            a, b = self.sym(n.args[0]), self.sym(n.args[1])
            if a[0] != "Z" or b[0] != "Z":
                self.bad("min/max of non-integers", n)
            return self.zmerge(op, [a, b])
        red = None
        if isinstance(f, ast.Attribute) and isinstance(f.value, ast.Name) and f.value.id in ("np", "numpy") and f.attr in ("max", "amax", "min", "amin"):
            red = "ZMax" if "max" in f.attr else "ZMin"
        if isinstance(f, ast.Name) and f.id in ("max", "min") and len(n.args) == 1:
            red = "ZMax" if f.id == "max" else "ZMin"
        if red and len(n.args) == 1 and isinstance(n.args[0], (ast.List, ast.Tuple)):
            vs = [self.sym(e) for e in n.args[0].elts]
            if not vs or any(v[0] != "Z" for v in vs):
                self.bad("reduction of non-integers", n)
            return self.zmerge(red, vs)
        self.bad("call outside the whitelist", n)

    def zmerge(self, op, vs):
        """fold from the left, carrying the distance vector a count refers to"""
        dist = [v[2] for v in vs if len(v) > 2]
        if len({repr(d) for d in dist}) > 1:
            self.bad("counts over different distance vectors")
        z = vs[0][1]
        for v in vs[1:]:
            z = (op, z, v[1])
        return ("Z", z) + ((dist[0],) if dist else ())

    def param_text(self, a):
        """canonical text of an expression over the parameters, with the parameter NAMES replaced by their roles"""
        class R(ast.NodeTransformer):
            def visit_Name(s, nd):
                role = self.P.get(nd.id)
                names = {"fl": "function_logger", "u": "u", "gp": "gp", "options": "options", "optim_state": "optim_state"}
                return ast.copy_location(ast.Name(id=names[role], ctx=nd.ctx), nd) if role else nd
        import copy as _c
        return ast.unparse(R().visit(_c.deepcopy(a)))

    def sym_subscript(self, n):
        key = const_str(n.slice)
        if key is not None:
            base = n.value
            if isinstance(base, ast.Name) and self.P.get(base.id) == "options" and base.id not in self.env:
                if key in OPT_VARS:
                    return ("Z", ("ZVar", OPT_VARS[key]))
                if key == "gp_radius":
                    return ("GPRADIUS",)
                self.bad("option outside the whitelist", n)
            if self.param_text(n) == "gp.temporary_data['effective_radius']" and not any(
                    isinstance(x, ast.Name) and x.id in self.env for x in ast.walk(n)):
                return ("EFFRADIUS",)
            self.bad("string subscript outside the whitelist", n)
        b = self.sym(n.value)
        if isinstance(n.slice, ast.Slice):
            if n.slice.step is not None:
                self.bad("slice with a step", n)
            lo = ("Z", ("ZLit", 0)) if n.slice.lower is None else self.sym(n.slice.lower)
            if n.slice.upper is None:
                self.bad("slice without upper bound", n)
            hi = self.sym(n.slice.upper)
            if lo[0] != "Z" or hi[0] != "Z":
                self.bad("slice bounds are not integer expressions", n)
            if b[0] == "COL" and b[2] == "full":
                if len(lo) > 2 or len(hi) > 2:
                    self.bad("log prefix depends on the distances", n)
                return ("COL", b[1], ("prefix", lo[1], hi[1]))
            if b[0] == "SORT":
                dd = [v[2] for v in (lo, hi) if len(v) > 2]
                if any(repr(d) != repr(b[1]) for d in dd):
                    self.bad("the slice of the sort counts over another distance vector than the one sorted", n)
                return ("TAKE", b[1], lo[1], hi[1])
            self.bad("slice of something that is neither a logger array nor the sort order", n)
        i = self.sym(n.slice)
        if b[0] == "COL" and i[0] == "TAKE":
            return ("GATHER", b, i, 1)
        self.bad("subscript outside the whitelist", n)

    # ---- statements
    def run(self):
        body = list(self.fn.body)
        if body and is_docstring(body[0]):
            body = body[1:]
        for k, s in enumerate(body):
            if self.ret is not None:
                self.bad("statement after return", s)
            self.stmt(s)
        if self.ret is None:
            self.bad("no return statement")
        return self.finish()

    def assign_name(self, name, v):
        if v[0] in ("P", "FLAG", "MASK"):
            self.bad(f"assignment of a {v[0]} value to a local is outside the whitelist")
        self.env[name] = v

    def stmt(self, s):
        if isinstance(s, ast.Assign) and len(s.targets) == 1:
            t = s.targets[0]
            if isinstance(t, ast.Name):
                if t.id in self.P:
                    self.bad("a parameter is re-bound", s)
                self.assign_name(t.id, self.sym(s.value))
                return
            if isinstance(t, ast.Subscript) and isinstance(t.value, ast.Name) and self.P.get(t.value.id) == "optim_state" \
                    and const_str(t.slice) == "ntrain":
                v = self.sym(s.value)
                if v[0] != "Z" or self.ntrain_store is not None or self.under_noise:
                    self.bad("optim_state['ntrain'] must be stored exactly once, unconditionally, an integer expression", s)
                self.ntrain_store = v
                return
            self.bad("store outside the whitelist", s)
        if isinstance(s, ast.If):
            t = s.test
            # if function_logger.noise_flag:
            if isinstance(t, ast.Attribute) and self.sym(t) == ("FLAG",):
                if self.under_noise:
                    self.bad("nested noise_flag test", s)
                then, other = {}, {}
                for branch, acc, flag in ((s.body, then, True), (s.orelse, other, False)):
                    for b in branch:
                        if not (isinstance(b, ast.Assign) and len(b.targets) == 1 and isinstance(b.targets[0], ast.Name)):
                            self.bad("only local assignments are allowed under the noise_flag test", b)
                        self.under_noise = flag
                        try:
                            saved = dict(self.env)
                            for k2, v2 in acc.items():
                                self.env[k2] = v2 if flag else v2
                            v = self.sym(b.value)
                            self.env = saved
                        finally:
                            self.under_noise = False
                        if v[0] not in ("COL", "GATHER", "NONE"):
                            self.bad("value outside the whitelist under the noise_flag test", b)
                        acc[b.targets[0].id] = v
                for name in set(then) | set(other):
                    old = self.env.get(name)
                    if old is not None and old[0] == "NOISE":
                        old_t, old_e = old[1], old[2]
                    else:
                        old_t = old_e = old
                    self.env[name] = ("NOISE", then.get(name, old_t), other.get(name, old_e))
                return
            # if dist.ndim > 1: dist = np.min(dist, axis=1)
            if (isinstance(t, ast.Compare) and len(t.ops) == 1 and isinstance(t.ops[0], ast.Gt) and isinstance(t.left, ast.Attribute)
                    and t.left.attr == "ndim" and isinstance(t.left.value, ast.Name)
                    and isinstance(t.comparators[0], ast.Constant) and t.comparators[0].value == 1 and not s.orelse and len(s.body) == 1):
                nm = t.left.value.id
                d = self.env.get(nm)
                b = s.body[0]
                ok = (d is not None and d[0] == "DIST" and d[2] is False and isinstance(b, ast.Assign) and len(b.targets) == 1
                      and isinstance(b.targets[0], ast.Name) and b.targets[0].id == nm and isinstance(b.value, ast.Call))
                if ok:
                    c = b.value
                    kw = {k.arg: k.value for k in c.keywords}
                    ax = kw.get("axis")
                    form1 = (is_np(c.func, "min") or is_np(c.func, "amin")) and len(c.args) == 1 and isinstance(c.args[0], ast.Name) and c.args[0].id == nm
                    form2 = isinstance(c.func, ast.Attribute) and c.func.attr == "min" and isinstance(c.func.value, ast.Name) and c.func.value.id == nm and not c.args
                    ok = (form1 or form2) and set(kw) == {"axis"} and isinstance(ax, ast.Constant) and ax.value in (1, -1)
                if not ok:
                    self.bad("the `ndim > 1` statement is not the row minimum of the distance matrix", s)
                self.env[nm] = ("DIST", d[1], True)
                return
            self.bad("`if` outside the whitelist", s)
        if isinstance(s, ast.Return):
            if not (isinstance(s.value, ast.Tuple) and len(s.value.elts) == 3):
                self.bad("return is not a 3-tuple", s)
            out = []
            for e in s.value.elts:
                if isinstance(e, ast.Name) and e.id in self.env and self.env[e.id][0] == "NOISE":
                    out.append(self.env[e.id])
                else:
                    out.append(self.sym(e))
            self.ret = out
            return
        self.bad("statement outside the whitelist", s)

    def finish(self):
        x, y, sv = self.ret
        if sv[0] != "NOISE" or sv[2] != ("NONE",) or sv[1] is None or sv[1][0] != "GATHER":
            self.bad("third returned value is not `None unless noise_flag, else function_logger.S[kept] ** k`")
        g = [x, y, sv[1]]
        for v, k in zip(g, ("KX", "KY", "KS")):
            if v[0] != "GATHER" or v[1][1] != k:
                self.bad(f"returned column {k} is not a gather from function_logger.{k[1]}")
        if x[3] != 1 or y[3] != 1:
            self.bad("a power is applied to the returned X / Y")
        takes = {repr(v[2]) for v in g}
        if len(takes) != 1:
            self.bad("the three returned columns do not keep the same slice of the sort order", focus="take")
        take = x[2]
        dist = take[1]
        if self.ntrain_store is None:
            self.bad("optim_state['ntrain'] is not stored")
        for z in (self.ntrain_store,):
            if len(z) > 2 and repr(z[2]) != repr(dist):
                self.bad("the count and the sort use different distance vectors")
        if self.udist_args is None:
            self.bad("udist not called")

        def rs(c):
            return c[2]
        return dict(dist_of=rs(dist[1]), rowmin=dist[2], ntrain=self.ntrain_store[1], take_lo=take[2], take_hi=take[3],
                    x=rs(x[1]), y=rs(y[1]), s=rs(sv[1][1]), s_pow=sv[1][3], udist_args=self.udist_args)


# ============================================================================= _get_fevals_data

def parse_fevals(fn):
    FN = "_get_fevals_data"
    ps = params(fn)
    if len(ps) != 1:
        bad("_get_fevals_data no longer has 1 parameter", fn, FN)
    fl = ps[0]
    env = {}

    def col(n):
        """COLNAME, mask, pow  for  fl.C[fl.X_flag(, :)] (** k)   or None"""
        pw = 1
        if isinstance(n, ast.BinOp) and isinstance(n.op, ast.Pow) and isinstance(n.right, ast.Constant) and isinstance(n.right.value, int) \
                and not isinstance(n.right.value, bool) and n.right.value >= 1:
            pw, n = n.right.value, n.left
        mask = "MAll"
        if isinstance(n, ast.Subscript):
            sl = n.slice
            if isinstance(sl, ast.Tuple) and len(sl.elts) == 2 and isinstance(sl.elts[1], ast.Slice) and \
                    sl.elts[1].lower is None and sl.elts[1].upper is None and sl.elts[1].step is None:
                sl = sl.elts[0]
            if not (isinstance(sl, ast.Attribute) and sl.attr == "X_flag" and isinstance(sl.value, ast.Name) and sl.value.id == fl):
                return None
            mask, n = "MFlag", n.value
        if isinstance(n, ast.Attribute) and isinstance(n.value, ast.Name) and n.value.id == fl and n.attr in ("X", "Y", "S", "fun_eval_time"):
            return (n.attr, mask, pw)
        return None

    body = list(fn.body)
    if body and is_docstring(body[0]):
        body = body[1:]
    ret = None
    for s in body:
        if ret is not None:
            bad("statement after return", s, FN)
        if isinstance(s, ast.Assign) and len(s.targets) == 1 and isinstance(s.targets[0], ast.Name):
            c = col(s.value)
            if c is None:
                bad("assignment outside the whitelist", s, FN)
            env[s.targets[0].id] = c
        elif isinstance(s, ast.If) and isinstance(s.test, ast.Attribute) and s.test.attr == "noise_flag" and \
                isinstance(s.test.value, ast.Name) and s.test.value.id == fl:
            if not (len(s.body) == 1 and len(s.orelse) == 1):
                bad("noise_flag test without exactly one statement per branch", s, FN)
            a, b = s.body[0], s.orelse[0]
            okf = all(isinstance(q, ast.Assign) and len(q.targets) == 1 and isinstance(q.targets[0], ast.Name) for q in (a, b))
            if not okf or a.targets[0].id != b.targets[0].id or not (isinstance(b.value, ast.Constant) and b.value.value is None):
                bad("noise_flag branches are not `name = ...` / `name = None`", s, FN)
            c = col(a.value)
            if c is None:
                bad("noise column outside the whitelist", a, FN)
            env[a.targets[0].id] = ("NOISE",) + c
        elif isinstance(s, ast.Return):
            if not (isinstance(s.value, ast.Tuple) and len(s.value.elts) == 4 and all(isinstance(e, ast.Name) and e.id in env for e in s.value.elts)):
                bad("return is not a 4-tuple of locals", s, FN)
            ret = [env[e.id] for e in s.value.elts]
        else:
            bad("statement outside the whitelist", s, FN)
    if ret is None:
        bad("no return", fn, FN)
    x, y, s2, t = ret
    if x[0] != "X" or y[0] != "Y" or s2[0] != "NOISE" or s2[1] != "S" or t[0] != "fun_eval_time":
        bad(f"returned columns are {[r[:2] for r in ret]}, expected X, Y, S under noise_flag, fun_eval_time", fn, FN)
    if x[2] != 1 or y[2] != 1:
        bad("a power is applied to the returned X / Y", fn, FN)
    return dict(x=x[1], y=y[1], s=s2[2], s_pow=s2[3])


# ============================================================================= add_and_update_gp

def parse_add(fn):
    FN = "add_and_update_gp"
    ps = params(fn)
    if len(ps) != 6:
        bad("add_and_update_gp no longer has 6 parameters", fn, FN)
    fl, gp, xn, yn, sdn, opts = ps
    dflt = fn.args.defaults
    if len(dflt) != 2 or not all(isinstance(d, ast.Constant) and d.value is None for d in dflt):
        bad("defaults of sd_new / options are not None", fn, FN)
    ARG = {xn: "AXNew", yn: "AYNew", sdn: "ASdNew"}
    FIELD = {"X": "FX", "y": "FY", "s2": "FS2"}
    out, updated, returned = [], False, False

    def gfield(n):
        return FIELD.get(n.attr) if isinstance(n, ast.Attribute) and isinstance(n.value, ast.Name) and n.value.id == gp else None

    def append(s, cond):
        t = s.targets[0] if isinstance(s, ast.Assign) and len(s.targets) == 1 else None
        f = gfield(t) if t is not None else None
        v = s.value if f else None
        ok = (f and isinstance(v, ast.Call) and is_np(v.func, "concatenate") and len(v.args) == 1 and not v.keywords
              and isinstance(v.args[0], ast.Tuple) and len(v.args[0].elts) == 2 and gfield(v.args[0].elts[0]) == f)
        if not ok:
            bad("statement is not gp.F = np.concatenate((gp.F, ...))", s, FN)
        e, pw = v.args[0].elts[1], 1
        if isinstance(e, ast.BinOp) and isinstance(e.op, ast.Pow) and isinstance(e.right, ast.Constant) and isinstance(e.right.value, int) \
                and not isinstance(e.right.value, bool) and e.right.value >= 1:
            pw, e = e.right.value, e.left
        if not (isinstance(e, ast.Call) and is_np(e.func, "atleast_2d") and len(e.args) == 1 and not e.keywords
                and isinstance(e.args[0], ast.Name) and e.args[0].id in ARG):
            bad("appended value is not np.atleast_2d(<x_new | y_new | sd_new>) [** k]", s, FN)
        out.append(dict(cond=cond, field=f, arg=ARG[e.args[0].id], pow=pw))

    def cond_of(t):
        if isinstance(t, ast.BoolOp) and isinstance(t.op, ast.And):
            cs = [cond_of(v) for v in t.values]
            c = cs[0]
            for d in cs[1:]:
                c = ("AAnd", c, d)
            return c
        if isinstance(t, ast.Subscript) and isinstance(t.value, ast.Name) and t.value.id == opts and const_str(t.slice) == "specify_target_noise":
            return ("ASpecify",)
        if isinstance(t, ast.Compare) and len(t.ops) == 1 and isinstance(t.ops[0], ast.IsNot) and isinstance(t.left, ast.Name) \
                and t.left.id == sdn and isinstance(t.comparators[0], ast.Constant) and t.comparators[0].value is None:
            return ("ASdGiven",)
        bad("condition outside the whitelist", t, FN)

    body = list(fn.body)
    if body and is_docstring(body[0]):
        body = body[1:]
    for s in body:
        if returned:
            bad("statement after return", s, FN)
        if isinstance(s, ast.Assign):
            if updated:
                bad("a store after gp.update", s, FN)
            append(s, ("ATrue",))
        elif isinstance(s, ast.If):
            if updated or s.orelse:
                bad("`if` after gp.update / with else", s, FN)
            c = cond_of(s.test)
            for b in s.body:
                append(b, c)
        elif isinstance(s, ast.Expr) and isinstance(s.value, ast.Call):
            c = s.value
            ok = (isinstance(c.func, ast.Attribute) and c.func.attr == "update" and isinstance(c.func.value, ast.Name) and c.func.value.id == gp
                  and not c.args and len(c.keywords) == 1 and c.keywords[0].arg == "compute_posterior"
                  and isinstance(c.keywords[0].value, ast.Constant) and c.keywords[0].value.value is True and not updated)
            if not ok:
                bad("expression statement is not the single gp.update(compute_posterior=True)", s, FN)
            updated = True
        elif isinstance(s, ast.Return):
            if not (isinstance(s.value, ast.Name) and s.value.id == gp and updated):
                bad("return is not `return gp` after gp.update", s, FN)
            returned = True
        else:
            bad("statement outside the whitelist", s, FN)
    if not returned:
        bad("no return", fn, FN)
    return out


# ============================================================================= head of local_gp_fitting

def parse_lgf(fn, gsn_params):
    FN = "local_gp_fitting"
    ps = params(fn)
    if len(ps) != 7:
        bad("local_gp_fitting no longer has 7 parameters", fn, FN)
    body = list(fn.body)
    if body and is_docstring(body[0]):
        body = body[1:]
    s = body[0]
    ok = (isinstance(s, ast.Assign) and len(s.targets) == 1 and isinstance(s.targets[0], ast.Tuple) and len(s.targets[0].elts) == 3
          and isinstance(s.value, ast.Call) and isinstance(s.value.func, ast.Name) and s.value.func.id == "get_grid_search_neighbors"
          and not s.value.keywords and len(s.value.args) == 5 and all(isinstance(a, ast.Name) for a in s.value.args))
    if not ok:
        bad("first statement is not `a, b, c = get_grid_search_neighbors(5 positional names)`", s, FN)
    got = [a.id for a in s.value.args]
    want = [ps[2], ps[1], ps[0], ps[3], ps[4]]      # (function_logger, current_point, gp, options, optim_state)
    flow = []
    flow.append("local_gp_fitting.param[1] -> get_grid_search_neighbors.arg[1]" if got[1] == ps[1]
                else f"get_grid_search_neighbors.arg[1] = {got[1]}")
    flow.append("get_grid_search_neighbors.param[1] -> udist.arg[1]")      # enforced by GSN.sym_call (raises otherwise)
    rest_ok = [got[0], got[2], got[3], got[4]] == [want[0], want[2], want[3], want[4]]
    flow.append("local_gp_fitting passes function_logger, gp, options, optim_state unchanged" if rest_ok
                else f"get_grid_search_neighbors called with {got}")
    gp = ps[0]
    FIELD = {"X": "FX", "y": "FY", "s2": "FS2"}
    stmts, pending = [], None
    for k, t in enumerate(s.targets[0].elts):
        if isinstance(t, ast.Attribute) and isinstance(t.value, ast.Name) and t.value.id == gp and t.attr in FIELD:
            stmts.append(dict(field=FIELD[t.attr], comp=k, guard="GAlways"))
        elif isinstance(t, ast.Name) and pending is None and t.id not in ps:
            pending = (t.id, k)
        else:
            bad("target of the returned triple outside the whitelist", s, FN)
    if pending:
        done = False
        for b in body[1:]:
            if isinstance(b, ast.Assign) and len(b.targets) == 1 and isinstance(b.targets[0], ast.Name) and b.targets[0].id != pending[0] \
                    and b.targets[0].id not in ps and not any(isinstance(x, ast.Call) for x in ast.walk(b.value)):
                continue
            t = b.test if isinstance(b, ast.If) else None
            ok = (t is not None and isinstance(t, ast.Compare) and len(t.ops) == 1 and isinstance(t.ops[0], ast.IsNot)
                  and isinstance(t.left, ast.Name) and t.left.id == pending[0] and isinstance(t.comparators[0], ast.Constant)
                  and t.comparators[0].value is None and not b.orelse and len(b.body) == 1)
            if ok:
                a = b.body[0]
                ok = (isinstance(a, ast.Assign) and len(a.targets) == 1 and isinstance(a.targets[0], ast.Attribute)
                      and isinstance(a.targets[0].value, ast.Name) and a.targets[0].value.id == gp and a.targets[0].attr in FIELD
                      and isinstance(a.value, ast.Name) and a.value.id == pending[0])
            if not ok:
                bad(f"expected `if {pending[0]} is not None: gp.s2 = {pending[0]}` after the selection", b, FN)
            stmts.append(dict(field=FIELD[a.targets[0].attr], comp=pending[1], guard="GNotNone"))
            done = True
            break
        if not done:
            bad("the third returned value is never stored", fn, FN)
    return stmts, flow


# ============================================================================= census of writers

def writers(tree, fname):
    out = []

    def tgt(t, fn):
        if isinstance(t, (ast.Tuple, ast.List)):
            for e in t.elts:
                tgt(e, fn)
            return
        if isinstance(t, ast.Starred):
            return tgt(t.value, fn)
        base = t
        while isinstance(base, ast.Subscript):
            base = base.value
        if isinstance(base, ast.Attribute) and base.attr in ("X", "y", "s2"):
            out.append(f"{fname}:{fn}: {ast.unparse(t)}")

    def visit(node, fn):
        for ch in ast.iter_child_nodes(node):
            f2 = ch.name if isinstance(ch, (ast.FunctionDef, ast.AsyncFunctionDef)) else fn
            if isinstance(ch, ast.Assign):
                for t in ch.targets:
                    tgt(t, fn)
            elif isinstance(ch, (ast.AugAssign, ast.AnnAssign)):
                tgt(ch.target, fn)
            elif isinstance(ch, ast.Delete):
                for t in ch.targets:
                    tgt(t, fn)
            elif isinstance(ch, (ast.For, ast.AsyncFor)):
                tgt(ch.target, fn)
            elif isinstance(ch, ast.Call) and isinstance(ch.func, ast.Name) and ch.func.id in ("setattr", "delattr"):
                out.append(f"{fname}:{fn}: {ast.unparse(ch)[:80]}")
            visit(ch, f2)
    visit(tree, "<module>")
    return out


# ============================================================================= call sites in bads.py

def ordered_stmts(body):
    """statements in source order with the stack of enclosing compound statements"""
    for s in body:
        yield s
        for fld in ("body", "orelse", "finalbody"):
            sub = getattr(s, fld, None)
            if isinstance(sub, list) and sub and isinstance(sub[0], ast.stmt):
                yield from ordered_stmts(sub)
        if isinstance(s, ast.Try):
            for h in s.handlers:
                yield from ordered_stmts(h.body)


def parse_sites(tree):
    FN = "bads.py call sites"
    cls = [n for n in tree.body if isinstance(n, ast.ClassDef) and n.name == "BADS"]
    if len(cls) != 1:
        bad("class BADS not found exactly once", None, FN)
    fits, appends, ncalls = [], [], 0
    for m in cls[0].body:
        if not isinstance(m, ast.FunctionDef):
            continue
        ps = [a.arg for a in m.args.args]
        working = ps[1] if len(ps) > 1 else None      # the surrogate parameter (named gp today)
        defs, nassign, logger = {}, {}, None
        loops = {}

        def note(name, val):
            defs[name] = val
            nassign[name] = nassign.get(name, 0) + 1

        def centre(e):
            if isinstance(e, ast.Attribute) and isinstance(e.value, ast.Name) and e.value.id == "self" and e.attr == "u":
                return "CenIncumbent"
            if isinstance(e, ast.Name):
                if logger and logger["arg"] == e.id and nassign.get(e.id, 0) == logger["arg_version"]:
                    return "CenEvaluated"
                d = defs.get(e.id)
                if d and d[0] == "index" and defs.get(d[1]) == ("hist", "u") and loops.get(d[2]) == d[1]:
                    return ("CenHistoryRow", d[2])
            return ("CenOther", ast.unparse(e))

        def gpref(e):
            if isinstance(e, ast.Name):
                if e.id == working:
                    return "GWorking"
                d = defs.get(e.id)
                if d == ("copy", working):
                    return "GCopy"
                if d and d[0] == "index" and defs.get(d[1]) == ("hist", "gp"):
                    return ("GHistory", d[2])
            return ("GOther", ast.unparse(e))

        def res(e):
            if isinstance(e, ast.Name) and logger and e.id in logger["targets"] and nassign.get(e.id, 0) == logger["versions"][e.id]:
                return f"logger_result[{logger['targets'].index(e.id)}]"
            return ast.unparse(e)

        def need(e, text, what):
            if ast.unparse(e) != text:
                bad(f"{what} is {ast.unparse(e)}, expected {text}", e, m.name)

        for s in ordered_stmts(m.body):
            calls = [c for c in ast.walk(s) if isinstance(c, ast.Call) and isinstance(c.func, ast.Name)
                     and c.func.id in ("local_gp_fitting", "add_and_update_gp")] if isinstance(s, (ast.Assign, ast.Expr, ast.Return, ast.AugAssign)) else []
            for c in calls:
                ncalls += 1
                if c.keywords or any(isinstance(a, ast.Starred) for a in c.args):
                    bad("call with keyword / starred arguments", c, m.name)
                if not (isinstance(s, ast.Assign) and s.value is c and len(s.targets) == 1):
                    bad("call is not the right-hand side of a plain assignment", s, m.name)
                t = s.targets[0]
                first = t.elts[0] if isinstance(t, ast.Tuple) else t
                bound = "working" if isinstance(first, ast.Name) and first.id == working else "other"
                if c.func.id == "local_gp_fitting":
                    if len(c.args) != 7:
                        bad("local_gp_fitting not called with 7 positional arguments", c, m.name)
                    need(c.args[2], "self.function_logger", "logger argument")
                    need(c.args[3], "self.options", "options argument")
                    need(c.args[4], "self.optim_state", "optim_state argument")
                    need(c.args[5], "self.iteration_history", "history argument")
                    g, ce = gpref(c.args[0]), centre(c.args[1])
                    if isinstance(g, tuple) and g[0] == "GHistory":
                        g = "GHistory" if (isinstance(ce, tuple) and ce[0] == "CenHistoryRow" and ce[1] == g[1]) else ("GOther", "history row of another index")
                    if isinstance(ce, tuple) and ce[0] == "CenHistoryRow":
                        ce = "CenHistoryRow" if g == "GHistory" else ("CenOther", "history row of another index than the surrogate")
                    fits.append([m.name, g, ce, ast.unparse(c.args[6]), bound])
                else:
                    if len(c.args) != 6:
                        bad("add_and_update_gp not called with 6 positional arguments", c, m.name)
                    need(c.args[0], "self.function_logger", "logger argument")
                    g, ce = gpref(c.args[1]), centre(c.args[2])
                    if bound != "working":
                        g = ("GOther", "result not bound to the working surrogate")
                    appends.append([m.name, g, ce, res(c.args[3]), res(c.args[4]), ast.unparse(c.args[5])])
            # ---- bookkeeping AFTER the calls of this statement were read
            if isinstance(s, ast.For) and isinstance(s.target, ast.Name):
                it = s.iter
                if (isinstance(it, ast.Call) and isinstance(it.func, ast.Name) and it.func.id == "range" and len(it.args) == 1
                        and isinstance(it.args[0], ast.Subscript) and isinstance(it.args[0].value, ast.Attribute) and it.args[0].value.attr == "shape"
                        and isinstance(it.args[0].value.value, ast.Name) and isinstance(it.args[0].slice, ast.Constant) and it.args[0].slice.value == 0):
                    loops[s.target.id] = it.args[0].value.value.id
                note(s.target.id, ("loop",))
            if isinstance(s, (ast.Assign, ast.AugAssign, ast.AnnAssign)):
                tg = s.targets if isinstance(s, ast.Assign) else [s.target]
                names = []
                for t in tg:
                    names += [e.id for e in (t.elts if isinstance(t, ast.Tuple) else [t]) if isinstance(e, ast.Name)]
                v = s.value
                val = ("other",)
                if isinstance(s, ast.Assign) and len(tg) == 1 and isinstance(tg[0], ast.Name) and v is not None:
                    if isinstance(v, ast.Call) and ast.unparse(v.func) == "copy.deepcopy" and len(v.args) == 1 and isinstance(v.args[0], ast.Name):
                        val = ("copy", v.args[0].id)
                    elif isinstance(v, ast.Call) and ast.unparse(v.func) == "self.iteration_history.get" and len(v.args) == 1 and const_str(v.args[0]):
                        val = ("hist", const_str(v.args[0]))
                    elif isinstance(v, ast.Subscript) and isinstance(v.value, ast.Name) and isinstance(v.slice, ast.Name):
                        val = ("index", v.value.id, v.slice.id)
                for nme in names:
                    note(nme, val if len(names) == 1 else ("other",))
                if isinstance(s, ast.Assign) and isinstance(v, ast.Call) and ast.unparse(v.func) == "self.function_logger" \
                        and len(v.args) == 1 and not v.keywords and isinstance(v.args[0], ast.Name) and len(tg) == 1 and isinstance(tg[0], ast.Tuple) \
                        and all(isinstance(e, ast.Name) for e in tg[0].elts):
                    tnames = [e.id for e in tg[0].elts]
                    logger = dict(arg=v.args[0].id, arg_version=nassign.get(v.args[0].id, 0), targets=tnames,
                                  versions={n_: nassign.get(n_, 0) for n_ in tnames})
    nrefs = sum(1 for n in ast.walk(tree) if isinstance(n, ast.Name) and n.id in ("local_gp_fitting", "add_and_update_gp") and isinstance(n.ctx, ast.Load))
    if nrefs != ncalls:
        bad(f"{nrefs} references to local_gp_fitting / add_and_update_gp in bads.py but {ncalls} translated call sites", None, FN)
    return fits, appends


# ============================================================================= load / render

def functions(tree, rel):
    fs = {}
    for n in tree.body:
        if isinstance(n, ast.FunctionDef):
            if n.name in fs:
                bad(f"{n.name} defined twice in {rel}")
            fs[n.name] = n
    return fs


def load():
    tg = parse_quiet((core.REPO / REL_GP).read_text())
    tb = parse_quiet((core.REPO / REL_BADS).read_text())
    fs = functions(tg, REL_GP)
    for need in ("get_grid_search_neighbors", "_get_fevals_data", "add_and_update_gp", "local_gp_fitting", "init_and_train_gp"):
        if need not in fs:
            bad(f"function {need} not found in {REL_GP}")
    # the names must not be re-bound at module level (a second definition / an assignment shadowing the translated function)
    for n in ast.walk(tg):
        if isinstance(n, (ast.Assign, ast.AugAssign, ast.AnnAssign)):
            for t in (n.targets if isinstance(n, ast.Assign) else [n.target]):
                if isinstance(t, ast.Name) and t.id in ("get_grid_search_neighbors", "_get_fevals_data", "add_and_update_gp", "local_gp_fitting", "udist"):
                    bad(f"{t.id} is re-bound by an assignment", n, REL_GP)
    for need in ("get_grid_search_neighbors", "_get_fevals_data", "add_and_update_gp", "local_gp_fitting"):
        if fs[need].decorator_list:
            bad(f"{need} is decorated", fs[need], need)
        inner = [n for n in ast.walk(fs[need]) if isinstance(n, (ast.FunctionDef, ast.AsyncFunctionDef, ast.Lambda, ast.Global, ast.Nonlocal)) and n is not fs[need]]
        if inner and need != "local_gp_fitting":
            bad(f"{need} contains a nested function / lambda / global declaration", inner[0], need)
    # bads.py must bind the two entry points from THIS module, under their own names, exactly once, and never re-bind them
    imps = [("pybads.bads.gaussian_process_train" if (n.module, n.level) == ("gaussian_process_train", 1) else ("." * n.level + (n.module or "")), a.name, a.asname)
            for n in ast.walk(tb) if isinstance(n, ast.ImportFrom) for a in n.names
            if (a.asname or a.name) in ("local_gp_fitting", "add_and_update_gp")]
    if sorted(imps) != [("pybads.bads.gaussian_process_train", "add_and_update_gp", None), ("pybads.bads.gaussian_process_train", "local_gp_fitting", None)]:
        bad(f"bads.py binds local_gp_fitting / add_and_update_gp as {imps}", None, REL_BADS)
    for n in ast.walk(tb):
        if isinstance(n, (ast.FunctionDef, ast.ClassDef)) and n.name in ("local_gp_fitting", "add_and_update_gp"):
            bad(f"{n.name} is re-defined in bads.py", n, REL_BADS)
        if isinstance(n, ast.Name) and isinstance(n.ctx, (ast.Store, ast.Del)) and n.id in ("local_gp_fitting", "add_and_update_gp"):
            bad(f"{n.id} is re-bound in bads.py", n, REL_BADS)
    imp = [a for n in tg.body if isinstance(n, ast.ImportFrom) for a in n.names if (a.asname or a.name) == "udist"]
    if len(imp) != 1 or imp[0].name != "udist":
        bad("udist is not imported exactly once under its own name", None, REL_GP)
    refs = [n for n in ast.walk(tg) if isinstance(n, ast.Name) and n.id == "get_grid_search_neighbors" and isinstance(n.ctx, ast.Load)]
    if len(refs) != 1:
        bad(f"get_grid_search_neighbors is referenced {len(refs)} times in {REL_GP}, expected once (local_gp_fitting)")
    refs = [n for n in ast.walk(tg) if isinstance(n, ast.Name) and n.id == "_get_fevals_data" and isinstance(n.ctx, ast.Load)]
    users = [f.name for f in fs.values() for n in ast.walk(f) if isinstance(n, ast.Name) and n.id == "_get_fevals_data"]
    if users != ["init_and_train_gp"]:
        bad(f"_get_fevals_data is used by {users}, expected init_and_train_gp once")
    gsn = GSN(fs["get_grid_search_neighbors"]).run()
    fev = parse_fevals(fs["_get_fevals_data"])
    add = parse_add(fs["add_and_update_gp"])
    settrain, flow = parse_lgf(fs["local_gp_fitting"], None)
    wr = sorted(writers(tg, "gaussian_process_train.py") + writers(tb, "bads.py"))
    fits, appends = parse_sites(tb)
    return dict(gsn=gsn, fevals=fev, add=add, settrain=settrain, flow=flow, writers=wr, fits=fits, appends=appends)


def cz(ir):
    k = ir[0]
    if k == "ZLit":
        return f"(ZLit ({ir[1]}))" if ir[1] < 0 else f"(ZLit {ir[1]})"
    if k == "ZVar":
        return f"(ZVar {ir[1]})"
    if k == "ZCount":
        return f"(ZCount {ir[1]})"
    return f"({k} {cz(ir[1])} {cz(ir[2])})"


def crs(r):
    return "RFull" if r == "full" else f"(RPrefix {cz(r[1])} {cz(r[2])})"


def cstr(s):
    return '"' + s.replace('"', '""') + '"'


def ccond(c):
    return c[0] if len(c) == 1 else f"(AAnd {ccond(c[1])} {ccond(c[2])})"


def cenum(v):
    if isinstance(v, str):
        return v
    if v[0] in ("CenOther", "GOther"):
        return f"({v[0]} {cstr(v[1])}%string)"
    return f"({'CenOther' if v[0].startswith('Cen') else 'GOther'} {cstr(v[0] + ' ' + str(v[1]))}%string)"


def render(t):
    g = t["gsn"]
    L = ["(* GENERATED by translate/gpset.py from pybads/bads/gaussian_process_train.py and pybads/bads/bads.py — do not edit. *)",
         "From Coq Require Import ZArith QArith List String.",
         "From PV Require Import Model.Val Model.GPSet Model.GPSetSrc.",
         "Import ListNotations.", "Open Scope Z_scope.", "",
         f"Definition src_ntrain : zexpr := {cz(g['ntrain'])}.",
         "Definition src_gsn : gsn_prog :=",
         f"  mkGsnProg {crs(g['dist_of'])} {'true' if g['rowmin'] else 'false'} src_ntrain",
         f"            {cz(g['take_lo'])} {cz(g['take_hi'])}",
         f"            {crs(g['x'])} {crs(g['y'])} {crs(g['s'])} {g['s_pow']}%nat.",
         "Definition src_udist_args : list string := [" + "; ".join(cstr(a) + "%string" for a in g["udist_args"]) + "].", "",
         f"Definition src_fevals : fev_prog := mkFevProg {t['fevals']['x']} {t['fevals']['y']} {t['fevals']['s']} {t['fevals']['s_pow']}%nat.", "",
         "Definition src_add : list astmt :=\n  [" + ";\n   ".join(
             f"mkAstmt {ccond(a['cond'])} {a['field']} {a['arg']} {a['pow']}%nat" for a in t["add"]) + "].", "",
         "Definition src_settrain : list sstmt :=\n  [" + "; ".join(
             f"mkSstmt {a['field']} {a['comp']}%nat {a['guard']}" for a in t["settrain"]) + "].", "",
         "Definition src_centre_flow : list string :=\n  [" + ";\n   ".join(cstr(a) + "%string" for a in t["flow"]) + "].", "",
         "Definition src_fit_sites : list fit_site :=\n  [" + ";\n   ".join(
             f"({cstr(f[0])}%string, {cenum(f[1])}, {cenum(f[2])}, {cstr(f[3])}%string, {cstr(f[4])}%string)" for f in t["fits"]) + "].", "",
         "Definition src_append_sites : list append_site :=\n  [" + ";\n   ".join(
             f"({cstr(f[0])}%string, {cenum(f[1])}, {cenum(f[2])}, {cstr(f[3])}%string, {cstr(f[4])}%string, {cstr(f[5])}%string)" for f in t["appends"]) + "].", "",
         "Definition src_gp_writers : list string :=\n  [" + ";\n   ".join(cstr(a) + "%string" for a in t["writers"]) + "].", ""]
    return "\n".join(L)


def snapshot(t):
    return json.loads(json.dumps(t))


def emit():
    try:
        t = load()
        text = render(t)
    except Exception as ex:
        core.write_if_changed(OUT, "(* translate/gpset.py could not translate the current source, no definition emitted:\n   %s *)\n"
                              % str(ex).replace("*)", "* )").replace("(*", "( *"))
        raise
    changed = core.write_if_changed(OUT, text)
    return dict(out=str(OUT.relative_to(core.VERIF)), changed=changed, differs_from_reference=[d["what"] for d in diff(snapshot(t))][:8])


def current():
    """(snapshot or None, error or None, focus or None) — never raises"""
    try:
        return snapshot(load()), None, None
    except Untranslatable as ex:
        return None, str(ex), ex.focus
    except Exception as ex:      # a crash of the translator is a failure too
        return None, repr(ex), None


def reference():
    return json.loads(REFERENCE.read_text()) if REFERENCE.exists() else None


def diff(snap, ref=None):
    """which components of the translation differ from the reference snapshot (ONLY to aim the search)"""
    ref = ref if ref is not None else reference()
    out = []
    if ref is None or snap is None:
        return out
    for part in ("gsn", "fevals"):
        for k in sorted(set(snap[part]) | set(ref[part])):
            if snap[part].get(k) != ref[part].get(k):
                out.append(dict(what=f"{part}.{k}", now=snap[part].get(k), was=ref[part].get(k)))
    for part in ("add", "settrain", "flow", "writers", "fits", "appends"):
        if snap[part] != ref[part]:
            out.append(dict(what=part, now=snap[part], was=ref[part]))
    return out


if __name__ == "__main__":
    if "--write-reference" in sys.argv:
        REFERENCE.write_text(json.dumps(snapshot(load()), indent=1, sort_keys=True) + "\n")
        print("wrote", REFERENCE)
    else:
        print(json.dumps(emit(), indent=1))
        print(OUT.read_text())
