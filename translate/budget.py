"""Fail-closed translator for the evaluation-budget arithmetic of pybads -> coq/gen/Src_budget.v (over Z / bool).

What is read (anything outside the accepted shapes raises Untranslatable, which ./check counts as a broken tie):

  pybads/bads/bads.py, class BADS
    _init_mesh_            x0 evaluation `self.function_logger(self.u)`; the noise test under `level < 1`
                           (`self.function_logger(self.u, record_duplicate_data=False)`, level := 1 when the two values differ by
                           more than tol_noise); `if options['max_fun_evals'] == 1: return`; under `level > 0` the store
                           options['fun_eval_start'] = <expr>; under `options['fun_eval_start'] > 0` the local
                           fun_eval_start = <expr>, init_sobol(self.u, ..., fun_eval_start), u1 = f(u1, ...) for f in
                           {period_check, force_to_grid, contraints_check}, `for u_idx in range(len(u1)): self.function_logger(u1[u_idx])`
    _init_optimization_    `self._init_mesh_()` first; under `level > 0` the top-level stores to options['tol_stall_iters'],
                           ['noise_final_samples'], ['max_fun_evals'] IN THEIR ORDER (each right-hand side is read in the environment
                           left by the previous stores, so swapping the two reserve statements changes the emitted definition)
    optimize, _poll_step_  every comparison that reads options['max_fun_evals'] / options['noise_final_samples']: the termination
                           test, the poll-loop guard conjunct, the condition of the final re-sampling and its `range(...)`
    whole class            no other store to the four option keys, no read of optim_state['max_fun_evals'] (the pre-reserve copy),
                           the number of `self.function_logger(...)` call sites per method
  pybads/init_functions/init_sobol.py
    init_sobol             n_samples = int(np.ceil(np.log2(fun_eval_start))); `if 2**n_samples == u0.size: n_samples += 1`;
                           samples = sobol_sampler.random_base2(n_samples)  (2**n_samples rows: SciPy, trusted, validated by the tie);
                           u_init = <row-preserving arithmetic on samples>; return u_init, n_samples

Expression grammar: int literals, the names above, + - *, 2**<expr>, min/max/np.minimum/np.maximum with two arguments,
int(np.ceil(np.log2(<expr>))) (-> Z.log2_up, meaningful for arguments >= 1; the code RAISES for arguments <= 0, which the model
carries as a crash flag), single comparisons < <= > >= ==, `and`.

`evaluate(ir, env)` interprets the same IR with Python integers; harness/budget.py composes the translated pieces exactly like
Model/Budget.v does and compares the result with the real _init_optimization_ on generated inputs, and the log2 expression with
NumPy's own evaluation of the source text (translator validation, every run).
"""
from __future__ import annotations

import ast
import os
import warnings
from pathlib import Path

VERIF = Path(__file__).resolve().parent.parent
REPO = Path(os.environ.get("VERIF_REPO", "/repo"))
SRC_BADS = "pybads/bads/bads.py"
SRC_SOBOL = "pybads/init_functions/init_sobol.py"
OUT = VERIF / "coq" / "gen" / "Src_budget.v"
KEYS = ("max_fun_evals", "fun_eval_start", "noise_final_samples", "tol_stall_iters")
# canonical parameter order of every emitted definition
ORDER = ["level", "poll_iteration", "opt_fun_eval_start", "opt_max_fun_evals", "opt_noise_final_samples", "opt_tol_stall_iters",
         "func_count", "fun_eval_start", "n_samples", "u0_size"]


class Untranslatable(Exception):
    pass


def _fail(node, why, src=SRC_BADS):
    d = ast.dump(node)[:200] if isinstance(node, ast.AST) else repr(node)
    raise Untranslatable(f"{src}:{getattr(node, 'lineno', '?')}: {why}: {d}")


# ----------------------------------------------------------------------------- shapes

def _is_self_attr(node, attr):
    return isinstance(node, ast.Attribute) and isinstance(node.value, ast.Name) and node.value.id == "self" and node.attr == attr


def _sub_key(node, container):
    """self.<container>["key"] -> key, else None"""
    if (isinstance(node, ast.Subscript) and _is_self_attr(node.value, container)
            and isinstance(node.slice, ast.Constant) and isinstance(node.slice.value, str)):
        return node.slice.value
    return None


def _is_np(node, name):
    return isinstance(node, ast.Attribute) and isinstance(node.value, ast.Name) and node.value.id == "np" and node.attr == name


def _is_logger_call(node):
    return isinstance(node, ast.Call) and _is_self_attr(node.func, "function_logger")


def _mentions_key(node, keys=KEYS):
    return any(isinstance(n, ast.Constant) and n.value in keys for n in ast.walk(node))


# ----------------------------------------------------------------------------- expressions

def expr(node, env, src=SRC_BADS):
    """ast -> IR.  env: dict of local names -> IR, plus 'opt_<key>' -> IR for the option keys."""
    if isinstance(node, ast.Constant):
        if type(node.value) is int:
            return ("int", node.value)
        _fail(node, "literal not in grammar", src)
    if isinstance(node, ast.Name):
        if node.id in env:
            return env[node.id]
        _fail(node, f"free name {node.id}", src)
    k = _sub_key(node, "options")
    if k is not None:
        if k in KEYS:
            return env.get("opt_" + k, ("par", "opt_" + k))
        _fail(node, f"option {k!r} is not part of the budget arithmetic", src)
    k = _sub_key(node, "optim_state")
    if k is not None:
        if k == "uncertainty_handling_level":
            return ("par", "level")
        _fail(node, f"optim_state[{k!r}] is not readable here (pre-reserve copies are not the budget the loop must use)", src)
    if isinstance(node, ast.Attribute) and _is_self_attr(node.value, "function_logger") and node.attr == "func_count":
        return ("par", "func_count")
    if isinstance(node, ast.Attribute) and isinstance(node.value, ast.Name) and node.value.id == "u0" and node.attr == "size" and "u0.size" in env:
        return env["u0.size"]
    if isinstance(node, ast.BinOp):
        if isinstance(node.op, ast.Pow):
            if not (isinstance(node.left, ast.Constant) and node.left.value == 2 and type(node.left.value) is int):
                _fail(node, "power with a base other than the literal 2", src)
            return ("pow2", expr(node.right, env, src))
        ops = {ast.Add: "+", ast.Sub: "-", ast.Mult: "*"}
        if type(node.op) not in ops:
            _fail(node, "operator not in grammar", src)
        return ("bin", ops[type(node.op)], expr(node.left, env, src), expr(node.right, env, src))
    if isinstance(node, ast.Call) and not node.keywords:
        f = node.func
        two = len(node.args) == 2
        if two and ((isinstance(f, ast.Name) and f.id == "min") or _is_np(f, "minimum")):
            return ("min", expr(node.args[0], env, src), expr(node.args[1], env, src))
        if two and ((isinstance(f, ast.Name) and f.id == "max") or _is_np(f, "maximum")):
            return ("max", expr(node.args[0], env, src), expr(node.args[1], env, src))
        if isinstance(f, ast.Name) and f.id == "int" and len(node.args) == 1:
            a = node.args[0]
            if isinstance(a, ast.Call) and _is_np(a.func, "ceil") and len(a.args) == 1 and not a.keywords:
                b = a.args[0]
                if isinstance(b, ast.Call) and _is_np(b.func, "log2") and len(b.args) == 1 and not b.keywords:
                    return ("clog2", expr(b.args[0], env, src))
    if isinstance(node, ast.Compare):
        if len(node.ops) != 1:
            _fail(node, "chained comparison", src)
        ops = {ast.Lt: "<", ast.LtE: "<=", ast.Gt: ">", ast.GtE: ">=", ast.Eq: "=="}
        if type(node.ops[0]) not in ops:
            _fail(node, "comparison not in grammar", src)
        return ("cmp", ops[type(node.ops[0])], expr(node.left, env, src), expr(node.comparators[0], env, src))
    if isinstance(node, ast.BoolOp) and isinstance(node.op, ast.And):
        r = expr(node.values[0], env, src)
        for v in node.values[1:]:
            r = ("and", r, expr(v, env, src))
        return r
    _fail(node, "expression not in grammar", src)


def free_params(ir, acc=None):
    acc = set() if acc is None else acc
    if ir[0] == "par":
        acc.add(ir[1])
    for x in ir[1:]:
        if isinstance(x, tuple):
            free_params(x, acc)
    return acc


def is_bool(ir):
    return ir[0] in ("cmp", "and", "bool")


def coq_of(ir):
    k = ir[0]
    if k == "int":
        return f"({ir[1]})" if ir[1] < 0 else str(ir[1])
    if k == "bool":
        return "true" if ir[1] else "false"
    if k == "par":
        return ir[1]
    if k == "bin":
        return f"({coq_of(ir[2])} {ir[1]} {coq_of(ir[3])})"
    if k == "min":
        return f"(Z.min {coq_of(ir[1])} {coq_of(ir[2])})"
    if k == "max":
        return f"(Z.max {coq_of(ir[1])} {coq_of(ir[2])})"
    if k == "pow2":
        return f"(2 ^ {coq_of(ir[1])})"
    if k == "clog2":
        return f"(Z.log2_up {coq_of(ir[1])})"
    if k == "cmp":
        f = {"<": "Z.ltb", "<=": "Z.leb", ">": "Z.gtb", ">=": "Z.geb", "==": "Z.eqb"}[ir[1]]
        return f"({f} {coq_of(ir[2])} {coq_of(ir[3])})"
    if k == "and":
        return f"(andb {coq_of(ir[1])} {coq_of(ir[2])})"
    raise Untranslatable("IR " + repr(ir))


def clog2(x):
    """Z.log2_up"""
    return 0 if x <= 1 else (x - 1).bit_length()


def evaluate(ir, env):
    k = ir[0]
    if k in ("int", "bool"):
        return ir[1]
    if k == "par":
        return env[ir[1]]
    if k == "bin":
        a, b = evaluate(ir[2], env), evaluate(ir[3], env)
        return a + b if ir[1] == "+" else a - b if ir[1] == "-" else a * b
    if k == "min":
        return min(evaluate(ir[1], env), evaluate(ir[2], env))
    if k == "max":
        return max(evaluate(ir[1], env), evaluate(ir[2], env))
    if k == "pow2":
        e = evaluate(ir[1], env)
        return 2 ** e if e >= 0 else 0          # Z.pow with a negative exponent is 0
    if k == "clog2":
        return clog2(evaluate(ir[1], env))
    if k == "cmp":
        a, b = evaluate(ir[2], env), evaluate(ir[3], env)
        return {"<": a < b, "<=": a <= b, ">": a > b, ">=": a >= b, "==": a == b}[ir[1]]
    if k == "and":
        return bool(evaluate(ir[1], env)) and bool(evaluate(ir[2], env))
    raise Untranslatable("IR " + repr(ir))


# ----------------------------------------------------------------------------- statement walker

def walk_stmts(body, chain=(), loop=None):
    """yield (stmt, chain, loop) for every simple statement; recurses into If / For; any other compound statement is
    yielded as a whole (callers reject it when it contains something of interest)."""
    for st in body:
        if isinstance(st, ast.If):
            yield ("if", st), chain, loop
            yield from walk_stmts(st.body, chain + ((st.test, True),), loop)
            yield from walk_stmts(st.orelse, chain + ((st.test, False),), loop)
        elif isinstance(st, ast.For):
            if st.orelse:
                yield ("compound", st), chain, loop
            else:
                yield ("for", st), chain, loop
                yield from walk_stmts(st.body, chain, st)
        elif isinstance(st, (ast.While, ast.Try, ast.With, ast.FunctionDef, ast.ClassDef, ast.AsyncFunctionDef, ast.Match)):
            yield ("compound", st), chain, loop
        else:
            yield ("simple", st), chain, loop


def _stores(node):
    """all Store/AugStore/Del targets inside node"""
    out = []
    for n in ast.walk(node):
        if isinstance(n, (ast.Assign,)):
            for t in n.targets:
                out += [x for x in ast.walk(t) if isinstance(x, (ast.Subscript, ast.Name, ast.Attribute)) and isinstance(getattr(x, "ctx", None), ast.Store)]
        elif isinstance(n, (ast.AugAssign, ast.AnnAssign)):
            out += [x for x in ast.walk(n.target) if isinstance(x, (ast.Subscript, ast.Name, ast.Attribute))][:1]
        elif isinstance(n, ast.Delete):
            out += list(n.targets)
        elif isinstance(n, (ast.For, ast.comprehension)):
            out += [x for x in ast.walk(n.target) if isinstance(x, ast.Name)]
        elif isinstance(n, ast.NamedExpr):
            out.append(n.target)
        elif isinstance(n, ast.withitem) and n.optional_vars is not None:
            out += [x for x in ast.walk(n.optional_vars) if isinstance(x, ast.Name)]
    return out


def _stores_option_key(node):
    return [s for s in _stores(node) if _sub_key(s, "options") in KEYS]


def _options_mutators(node):
    """self.options.update(...) / pop / setdefault / clear / __setitem__ ... : any method call on self.options except get/items/keys"""
    bad = []
    for n in ast.walk(node):
        if isinstance(n, ast.Call) and isinstance(n.func, ast.Attribute) and _is_self_attr(n.func.value, "options"):
            if n.func.attr not in ("get", "items", "keys", "values", "copy"):
                bad.append(n)
    return bad


def _methods(tree):
    cls = [n for n in tree.body if isinstance(n, ast.ClassDef) and n.name == "BADS"]
    if len(cls) != 1:
        raise Untranslatable("class BADS not found exactly once")
    return {n.name: n for n in cls[0].body if isinstance(n, ast.FunctionDef)}, cls[0]


def _same_test(a, b):
    return ast.dump(a) == ast.dump(b)


# ----------------------------------------------------------------------------- _init_mesh_

def parse_init_mesh(fn, defs):
    items = list(walk_stmts(fn.body))
    sites, level_stores, fes_stores, capped, sobol, loops, ret_guard = [], [], [], [], [], [], []
    u1_assigns = []
    pos = {}
    for i, ((kind, st), chain, loop) in enumerate(items):
        if kind == "compound":
            if any(_is_logger_call(n) for n in ast.walk(st)) or _stores_option_key(st) or _mentions_key(st) or \
                    any(isinstance(n, ast.Return) for n in ast.walk(st)):
                _fail(st, "compound statement (while/try/with/for-else) around budget-relevant code in _init_mesh_")
            continue
        if kind in ("if", "for"):
            continue
        for n in ast.walk(st):
            if _is_logger_call(n):
                sites.append((i, st, n, chain, loop))
        for s in _stores(st):
            if _sub_key(s, "options") in KEYS:
                if _sub_key(s, "options") != "fun_eval_start" or not isinstance(st, ast.Assign) or len(st.targets) != 1:
                    _fail(st, "store to a budget option in _init_mesh_ other than options['fun_eval_start'] = <expr>")
                fes_stores.append((i, st, chain, loop))
            if _sub_key(s, "optim_state") == "uncertainty_handling_level":
                level_stores.append((i, st, chain, loop))
            if isinstance(s, ast.Name) and s.id == "fun_eval_start":
                capped.append((i, st, chain, loop))
            if isinstance(s, ast.Name) and s.id == "u1":
                u1_assigns.append((i, st, chain, loop))
        if _options_mutators(st):
            _fail(st, "self.options mutated through a method call in _init_mesh_")
        if isinstance(st, ast.Return):
            ret_guard.append((i, st, chain, loop))
    # --- the three logger call sites
    if len(sites) != 3:
        _fail(fn, f"_init_mesh_ has {len(sites)} self.function_logger(...) call sites, expected 3")
    (iA, stA, cA, chA, lpA), (iB, stB, cB, chB, lpB), (iC, stC, cC, chC, lpC) = sites

    def rec_flag(call):
        kws = {k.arg: k.value for k in call.keywords}
        if set(kws) - {"record_duplicate_data"}:
            _fail(call, "unexpected keyword of function_logger")
        if "record_duplicate_data" in kws:
            v = kws["record_duplicate_data"]
            if not (isinstance(v, ast.Constant) and isinstance(v.value, bool)):
                _fail(call, "record_duplicate_data is not a literal")
            return v.value
        if len(call.args) == 2:
            v = call.args[1]
            if not (isinstance(v, ast.Constant) and isinstance(v.value, bool)):
                _fail(call, "record_duplicate_data is not a literal")
            return v.value
        return True

    # A: x0, unconditional, first
    if chA or lpA is not None or len(cA.args) != 1 or not _is_self_attr(cA.args[0], "u"):
        _fail(stA, "first logger call is not the unconditional evaluation of self.u")
    if not (isinstance(stA, ast.Assign) and isinstance(stA.targets[0], ast.Tuple) and _is_self_attr(stA.targets[0].elts[0], "yval")):
        _fail(stA, "x0 evaluation is not bound to self.yval")
    # B: noise test
    if len(chB) != 1 or chB[0][1] is not True or lpB is not None or not _is_self_attr(cB.args[0], "u") or len(cB.args) > 2:
        _fail(stB, "second logger call is not the noise test under one condition")
    if not (isinstance(stB, ast.Assign) and isinstance(stB.targets[0], ast.Tuple) and isinstance(stB.targets[0].elts[0], ast.Name)):
        _fail(stB, "noise-test value is not bound to a local name")
    bis = stB.targets[0].elts[0].id
    env0 = {}
    test_cond = expr(chB[0][0], env0)
    if free_params(test_cond) != {"level"}:
        _fail(chB[0][0], "noise-test condition does not depend on the uncertainty level only")
    defs.append(("noise_test_cond", test_cond))
    defs.append(("site_x0_record", ("bool", rec_flag(cA))))
    defs.append(("site_test_record", ("bool", rec_flag(cB))))
    # level store: = 1 under (test_cond, |yval - bis| > tol_noise)
    if len(level_stores) != 1:
        _fail(fn, f"{len(level_stores)} stores to optim_state['uncertainty_handling_level'] in _init_mesh_, expected 1")
    iL, stL, chL, lpL = level_stores[0]
    if not (isinstance(stL, ast.Assign) and isinstance(stL.value, ast.Constant) and type(stL.value.value) is int):
        _fail(stL, "level is not set to an integer literal")
    if not (len(chL) == 2 and chL[0][1] and chL[1][1] and _same_test(chL[0][0], chB[0][0]) and lpL is None and iL > iB):
        _fail(stL, "level store is not nested under the noise test")
    t = chL[1][0]
    ok = (isinstance(t, ast.Compare) and len(t.ops) == 1 and isinstance(t.ops[0], ast.Gt) and isinstance(t.left, ast.Call)
          and _is_np(t.left.func, "abs") and len(t.left.args) == 1 and isinstance(t.left.args[0], ast.BinOp)
          and isinstance(t.left.args[0].op, ast.Sub) and _is_self_attr(t.left.args[0].left, "yval")
          and isinstance(t.left.args[0].right, ast.Name) and t.left.args[0].right.id == bis
          and _sub_key(t.comparators[0], "options") == "tol_noise")
    if not ok:
        _fail(t, "noise decision is not |self.yval - second value| > options['tol_noise']")
    defs.append(("level_set", ("int", stL.value.value)))
    # single-evaluation return
    guards = [(i, st, ch) for (i, st, ch, lp) in ret_guard if ch]
    tail = [(i, st, ch) for (i, st, ch, lp) in ret_guard if not ch]
    if len(guards) != 1 or len(guards[0][2]) != 1 or not guards[0][2][0][1]:
        _fail(fn, "expected exactly one conditional return in _init_mesh_")
    iR, stR, chR = guards[0]
    if any(i != len(items) - 1 for (i, st, ch) in tail):
        _fail(fn, "unconditional return before the end of _init_mesh_")
    single = expr(chR[0][0], env0)
    if free_params(single) != {"opt_max_fun_evals"}:
        _fail(chR[0][0], "early-return condition does not depend on options['max_fun_evals'] only")
    defs.append(("single_eval", single))
    # options['fun_eval_start'] store
    if len(fes_stores) != 1:
        _fail(fn, f"{len(fes_stores)} stores to options['fun_eval_start'] in _init_mesh_, expected 1")
    iF, stF, chF, lpF = fes_stores[0]
    if not (len(chF) == 1 and chF[0][1] and lpF is None):
        _fail(stF, "options['fun_eval_start'] store is not under exactly one condition")
    ncond = expr(chF[0][0], env0)
    if free_params(ncond) != {"level"}:
        _fail(chF[0][0], "condition of the noisy fun_eval_start does not depend on the level only")
    defs.append(("noisy_cond", ncond))
    defs.append(("fes_noisy", expr(stF.value, env0)))
    # local fun_eval_start
    if len(capped) != 1:
        _fail(fn, f"{len(capped)} assignments to the local fun_eval_start, expected 1")
    iK, stK, chK, lpK = capped[0]
    if not (isinstance(stK, ast.Assign) and len(stK.targets) == 1 and isinstance(stK.targets[0], ast.Name) and len(chK) == 1 and chK[0][1] and lpK is None):
        _fail(stK, "local fun_eval_start is not a plain assignment under the design condition")
    dcond = expr(chK[0][0], env0)
    if free_params(dcond) != {"opt_fun_eval_start"}:
        _fail(chK[0][0], "design condition does not depend on options['fun_eval_start'] only")
    defs.append(("design_cond", dcond))
    defs.append(("fes_capped", expr(stK.value, env0)))
    # init_sobol call and the u1 pipeline
    if not u1_assigns:
        _fail(fn, "no assignment to u1")
    i0, st0, ch0, lp0 = u1_assigns[0]
    ok = (isinstance(st0, ast.Assign) and isinstance(st0.targets[0], ast.Tuple) and isinstance(st0.targets[0].elts[0], ast.Name)
          and st0.targets[0].elts[0].id == "u1" and isinstance(st0.value, ast.Call) and isinstance(st0.value.func, ast.Name)
          and st0.value.func.id == "init_sobol" and not st0.value.keywords and len(st0.value.args) == 6
          and _is_self_attr(st0.value.args[0], "u") and isinstance(st0.value.args[5], ast.Name) and st0.value.args[5].id == "fun_eval_start")
    if not ok:
        _fail(st0, "u1 is not `u1, _ = init_sobol(self.u, lb, ub, plb, pub, fun_eval_start)`")
    if not (len(ch0) == 2 and ch0[0][1] and ch0[1][1] and _same_test(ch0[0][0], chK[0][0]) and lp0 is None):
        _fail(st0, "init_sobol is not called under the design condition and the init_fun test")
    t2 = ch0[1][0]
    if not (isinstance(t2, ast.Compare) and _sub_key(t2.left, "options") == "init_fun" and isinstance(t2.ops[0], ast.Eq)
            and isinstance(t2.comparators[0], ast.Constant) and t2.comparators[0].value == "init_sobol"):
        _fail(t2, "second condition is not options['init_fun'] == 'init_sobol'")
    for (i, st, ch, lp) in u1_assigns[1:]:
        ok = (isinstance(st, ast.Assign) and len(st.targets) == 1 and isinstance(st.targets[0], ast.Name) and isinstance(st.value, ast.Call)
              and isinstance(st.value.func, ast.Name) and st.value.func.id in ("period_check", "force_to_grid", "contraints_check")
              and st.value.args and isinstance(st.value.args[0], ast.Name) and st.value.args[0].id == "u1"
              and [(_d(c[0]), c[1]) for c in ch] == [(_d(c[0]), c[1]) for c in ch0] and lp is None and i > i0)
        if not ok:
            _fail(st, "u1 is re-bound by something else than period_check / force_to_grid / contraints_check (u1, ...)")
    # C: the design loop
    ok = (lpC is not None and isinstance(lpC.target, ast.Name) and isinstance(lpC.iter, ast.Call) and isinstance(lpC.iter.func, ast.Name)
          and lpC.iter.func.id == "range" and len(lpC.iter.args) == 1 and isinstance(lpC.iter.args[0], ast.Call)
          and isinstance(lpC.iter.args[0].func, ast.Name) and lpC.iter.args[0].func.id == "len"
          and isinstance(lpC.iter.args[0].args[0], ast.Name) and lpC.iter.args[0].args[0].id == "u1"
          and len(cC.args) == 1 and not cC.keywords and isinstance(cC.args[0], ast.Subscript) and isinstance(cC.args[0].value, ast.Name)
          and cC.args[0].value.id == "u1" and isinstance(cC.args[0].slice, ast.Name) and cC.args[0].slice.id == lpC.target.id
          and [(_d(c[0]), c[1]) for c in chC] == [(_d(c[0]), c[1]) for c in ch0])
    if not ok:
        _fail(stC, "third logger call is not `for i in range(len(u1)): self.function_logger(u1[i])` under the design condition")
    if any(isinstance(n, (ast.Break, ast.Continue, ast.Return)) for n in ast.walk(lpC)):
        _fail(lpC, "break/continue/return inside the design loop")
    if len([x for x in lpC.body if not isinstance(x, ast.Pass)]) != 1:
        _fail(lpC, "design loop body has more than the logger call")
    defs.append(("site_design_record", ("bool", rec_flag(cC))))
    last_u1 = max(i for (i, *_r) in u1_assigns)
    order = [iA, iB, iL, iR, iF, iK, i0, last_u1, iC]
    if order != sorted(order) or len(set(order)) != len(order):
        _fail(fn, f"statements of _init_mesh_ are not in the modelled order (positions {order})")


def _d(n):
    return ast.dump(n)


# ----------------------------------------------------------------------------- init_sobol

def parse_sobol(tree, defs):
    fns = [n for n in tree.body if isinstance(n, ast.FunctionDef) and n.name == "init_sobol"]
    if len(fns) != 1:
        raise Untranslatable("init_sobol not found exactly once")
    fn = fns[0]
    args = [a.arg for a in fn.args.args]
    if args != ["u0", "lb", "ub", "plb", "pub", "fun_eval_start"]:
        _fail(fn, f"unexpected signature {args}", SRC_SOBOL)
    items = list(walk_stmts(fn.body))
    env = {"fun_eval_start": ("par", "fun_eval_start"), "u0.size": ("par", "u0_size")}
    n_assign, bump, samples, uinit, ret = [], [], [], [], []
    for i, ((kind, st), chain, loop) in enumerate(items):
        if kind == "compound":
            if any(isinstance(s, ast.Name) and s.id in ("n_samples", "samples", "u_init", "fun_eval_start") for s in _stores(st)) or \
                    any(isinstance(n, ast.Return) for n in ast.walk(st)):
                _fail(st, "compound statement around the design size in init_sobol", SRC_SOBOL)
            continue
        if kind in ("if", "for"):
            continue
        for s in _stores(st):
            if isinstance(s, ast.Name) and s.id == "fun_eval_start":
                _fail(st, "fun_eval_start re-bound inside init_sobol", SRC_SOBOL)
            if isinstance(s, ast.Name) and s.id == "u0":
                _fail(st, "u0 re-bound inside init_sobol", SRC_SOBOL)
            if isinstance(s, ast.Name) and s.id == "n_samples":
                (bump if isinstance(st, ast.AugAssign) else n_assign).append((i, st, chain, loop))
            if isinstance(s, ast.Name) and s.id == "samples":
                samples.append((i, st, chain, loop))
            if isinstance(s, ast.Name) and s.id == "u_init":
                uinit.append((i, st, chain, loop))
        if isinstance(st, ast.Return):
            ret.append((i, st, chain, loop))
    if len(n_assign) != 1 or len(bump) != 1 or len(samples) != 1 or len(uinit) != 1 or len(ret) != 1:
        _fail(fn, f"init_sobol: n_samples assigned {len(n_assign)}x, bumped {len(bump)}x, samples {len(samples)}x, u_init {len(uinit)}x, returns {len(ret)}", SRC_SOBOL)
    iN, stN, chN, lpN = n_assign[0]
    if chN or lpN is not None or not (isinstance(stN, ast.Assign) and len(stN.targets) == 1):
        _fail(stN, "n_samples is not assigned unconditionally", SRC_SOBOL)
    defs.append(("sobol_n0", expr(stN.value, env, SRC_SOBOL)))
    iB, stB, chB, lpB = bump[0]
    if not (len(chB) == 1 and chB[0][1] and lpB is None and isinstance(stB.op, ast.Add)):
        _fail(stB, "n_samples bump is not `n_samples += k` under one condition", SRC_SOBOL)
    env2 = dict(env, n_samples=("par", "n_samples"))
    defs.append(("sobol_bump_test", expr(chB[0][0], env2, SRC_SOBOL)))
    defs.append(("sobol_bump", ("bin", "+", ("par", "n_samples"), expr(stB.value, env2, SRC_SOBOL))))
    iS, stS, chS, lpS = samples[0]
    v = stS.value
    ok = (not chS and lpS is None and isinstance(v, ast.Call) and isinstance(v.func, ast.Attribute) and v.func.attr == "random_base2"
          and isinstance(v.func.value, ast.Name) and len(v.args) == 1 and not v.keywords and isinstance(v.args[0], ast.Name) and v.args[0].id == "n_samples")
    if not ok:
        _fail(stS, "samples is not <sampler>.random_base2(n_samples)", SRC_SOBOL)
    defs.append(("sobol_rows", ("pow2", ("par", "n_samples"))))      # SciPy: random_base2(m) returns 2**m points
    iU, stU, chU, lpU = uinit[0]

    def rowpres(n):
        if isinstance(n, ast.Name):
            return True
        if isinstance(n, ast.BinOp) and isinstance(n.op, (ast.Add, ast.Sub, ast.Mult)):
            return rowpres(n.left) and rowpres(n.right)
        return False
    if chU or lpU is not None or not rowpres(stU.value) or "samples" not in [n.id for n in ast.walk(stU.value) if isinstance(n, ast.Name)]:
        _fail(stU, "u_init is not element-wise arithmetic on samples", SRC_SOBOL)
    iR, stR, chR, lpR = ret[0]
    ok = (not chR and lpR is None and isinstance(stR.value, ast.Tuple) and isinstance(stR.value.elts[0], ast.Name) and stR.value.elts[0].id == "u_init")
    if not ok or not (iN < iB < iS < iU < iR):
        _fail(stR, "init_sobol does not end with `return u_init, ...` after n_samples / bump / samples / u_init in this order", SRC_SOBOL)
    return ast.get_source_segment(Path(REPO / SRC_SOBOL).read_text(), stN.value)


# ----------------------------------------------------------------------------- _init_optimization_

def parse_init_opt(fn, defs):
    top = fn.body
    mesh_idx = [i for i, st in enumerate(top) if isinstance(st, ast.Expr) and isinstance(st.value, ast.Call)
                and _is_self_attr(st.value.func, "_init_mesh_")]
    if len(mesh_idx) != 1:
        _fail(fn, "self._init_mesh_() is not called exactly once at the top level of _init_optimization_")
    blocks = [i for i, st in enumerate(top) if isinstance(st, ast.If) and _stores_option_key(st)]
    if len(blocks) != 1 or blocks[0] < mesh_idx[0]:
        _fail(fn, "expected one conditional block storing budget options, after self._init_mesh_()")
    for i, st in enumerate(top):
        if i != blocks[0] and (_stores_option_key(st) or _options_mutators(st)):
            _fail(st, "budget option stored outside the uncertainty block of _init_optimization_")
    blk = top[blocks[0]]
    cond = expr(blk.test, {})
    if free_params(cond) != {"level"}:
        _fail(blk.test, "reserve condition does not depend on the uncertainty level only")
    defs.append(("reserve_cond", cond))
    if any(_stores_option_key(s) or _options_mutators(s) for s in blk.orelse):
        _fail(blk, "deterministic branch stores a budget option")
    env = {}
    seen = []
    for st in blk.body:
        if _options_mutators(st):
            _fail(st, "self.options mutated through a method call")
        ks = _stores_option_key(st)
        if not ks:
            continue
        if not (isinstance(st, ast.Assign) and len(st.targets) == 1 and _sub_key(st.targets[0], "options") in KEYS):
            _fail(st, "budget option stored by something else than a top-level `self.options[key] = <expr>` in the uncertainty block")
        key = _sub_key(st.targets[0], "options")
        if key in seen:
            _fail(st, f"options[{key!r}] stored twice")
        seen.append(key)
        env["opt_" + key] = expr(st.value, env)
    if sorted(seen) != ["max_fun_evals", "noise_final_samples", "tol_stall_iters"]:
        _fail(blk, f"uncertainty block stores {seen}, expected tol_stall_iters, noise_final_samples, max_fun_evals")
    defs.append(("stall", env["opt_tol_stall_iters"]))
    defs.append(("nfs", env["opt_noise_final_samples"]))
    defs.append(("maxfe", env["opt_max_fun_evals"]))


# ----------------------------------------------------------------------------- the loop and the final phase

def parse_readers(methods, cls, defs):
    skip = {"_init_mesh_", "_init_optimization_"}
    sites = {}
    for name, fn in methods.items():
        n_sites = sum(1 for n in ast.walk(fn) if _is_logger_call(n))
        if n_sites:
            sites[name] = n_sites
        if name in skip:
            continue
        if _stores_option_key(fn):
            _fail(fn, f"method {name} stores a budget option")
        for n in ast.walk(fn):
            if _sub_key(n, "optim_state") == "max_fun_evals" and isinstance(n.ctx, ast.Load):
                _fail(n, f"method {name} reads optim_state['max_fun_evals'] (the pre-reserve copy)")
    for n in ast.walk(cls):
        if isinstance(n, ast.Call) and isinstance(n.func, ast.Attribute) and _is_self_attr(n.func.value, "optim_state") and n.func.attr == "get" \
                and n.args and isinstance(n.args[0], ast.Constant) and n.args[0].value == "max_fun_evals":
            _fail(n, "optim_state.get('max_fun_evals') read")
    expected_sites = {"_init_mesh_": 3, "optimize": 1, "_search_step_": 1, "_poll_step_": 1}
    defs.append(("sites_init_mesh", ("int", sites.get("_init_mesh_", 0))))
    defs.append(("sites_optimize", ("int", sites.get("optimize", 0))))
    defs.append(("sites_search", ("int", sites.get("_search_step_", 0))))
    defs.append(("sites_poll", ("int", sites.get("_poll_step_", 0))))
    if set(sites) - set(expected_sites):
        _fail(cls, f"self.function_logger(...) called from unexpected methods: {sorted(set(sites) - set(expected_sites))}")
    # reads of the two budget options outside the init methods
    reads = []
    for name, fn in methods.items():
        if name in skip or name in ("__init__", "_init_optim_state_"):
            continue
        parents = {}
        for p in ast.walk(fn):
            for c in ast.iter_child_nodes(p):
                parents[c] = p
        for n in ast.walk(fn):
            if _sub_key(n, "options") in ("max_fun_evals", "noise_final_samples") and isinstance(n.ctx, ast.Load):
                p = parents[n]
                top = p
                while isinstance(parents.get(top), (ast.BoolOp,)):
                    top = parents[top]
                reads.append((name, n, p, parents, top))
    env = {"poll_iteration": ("par", "poll_iteration")}
    got = {}
    for name, n, p, parents, top in reads:
        key = _sub_key(n, "options")
        if isinstance(p, ast.Compare):
            ir = expr(p, env)
            holder = parents.get(top)
            if name == "_poll_step_" and key == "max_fun_evals" and isinstance(holder, ast.While) and isinstance(top, ast.BoolOp) \
                    and isinstance(top.op, ast.And) and p in top.values:
                tag = "poll_guard_budget"
            elif name == "optimize" and key == "max_fun_evals" and isinstance(holder, ast.If) and top is p:
                tag = "term_budget"
                if not any(isinstance(s, ast.Assign) and isinstance(s.targets[0], ast.Name) and s.targets[0].id == "is_finished"
                           and isinstance(s.value, ast.Constant) and s.value.value is True for s in holder.body):
                    _fail(holder, "budget comparison in optimize() does not set is_finished = True")
            elif name == "optimize" and key == "noise_final_samples" and isinstance(holder, ast.If) and top is p:
                tag = "final_cond"
                outer = parents.get(holder)
                if not isinstance(outer, ast.If):
                    _fail(holder, "final re-sampling is not nested in the stochastic-target block")
                got["final_outer"] = expr(outer.test, env)
                loops = [s for s in holder.body if isinstance(s, ast.For)]
                ok = (len(loops) == 1 and isinstance(loops[0].iter, ast.Call) and isinstance(loops[0].iter.func, ast.Name)
                      and loops[0].iter.func.id == "range" and len(loops[0].iter.args) == 1
                      and sum(1 for x in ast.walk(loops[0]) if _is_logger_call(x)) == 1
                      and not any(isinstance(x, (ast.Break, ast.Continue, ast.Return)) for x in ast.walk(loops[0])))
                if not ok:
                    _fail(holder, "final re-sampling is not one `for i in range(<n>)` loop with one logger call")
                got["final_count"] = expr(loops[0].iter.args[0], env)
                lc = [x for x in ast.walk(loops[0]) if _is_logger_call(x)][0]
                kws = {k.arg: k.value for k in lc.keywords}
                rd = kws.get("record_duplicate_data")
                if not (len(lc.args) == 1 and _is_self_attr(lc.args[0], "u") and isinstance(rd, ast.Constant) and isinstance(rd.value, bool)):
                    _fail(lc, "final sample is not self.function_logger(self.u, record_duplicate_data=<literal>)")
                got["site_final_record"] = ("bool", rd.value)
            else:
                _fail(p, f"unexpected comparison reading options[{key!r}] in {name}")
            if tag in got:
                _fail(p, f"second {tag} comparison")
            got[tag] = ir
        elif isinstance(p, ast.Call) and ((isinstance(p.func, ast.Name) and p.func.id == "range") or _is_np(p.func, "empty")) \
                and key == "noise_final_samples" and name == "optimize":
            continue
        else:
            _fail(p, f"options[{key!r}] read in {name} in a context that is not a modelled comparison")
    for tag in ("term_budget", "poll_guard_budget", "final_outer", "final_cond", "final_count", "site_final_record"):
        if tag not in got:
            raise Untranslatable(f"{SRC_BADS}: no {tag} found")
        defs.append((tag, got[tag]))
    # the search step: exactly one call per step is the skeleton's shape; the poll guard must be the `while` of the logger call
    poll = methods["_poll_step_"]
    whiles = [w for w in ast.walk(poll) if isinstance(w, ast.While) and any(_is_logger_call(x) for x in ast.walk(w))]
    if len(whiles) != 1 or not _mentions_key(whiles[0].test, ("max_fun_evals",)):
        _fail(poll, "the poll evaluation is not inside the while loop guarded by the budget")


# ----------------------------------------------------------------------------- driver

def _parse_file(rel):
    with warnings.catch_warnings():
        warnings.simplefilter("ignore")          # invalid escape sequences in the package's docstrings
        return ast.parse((REPO / rel).read_text())


def parse():
    tree = _parse_file(SRC_BADS)
    methods, cls = _methods(tree)
    for need in ("_init_mesh_", "_init_optimization_", "optimize", "_poll_step_", "_search_step_"):
        if need not in methods:
            raise Untranslatable(f"method {need} not found")
    defs = []
    parse_init_mesh(methods["_init_mesh_"], defs)
    log2_text = parse_sobol(_parse_file(SRC_SOBOL), defs)
    parse_init_opt(methods["_init_optimization_"], defs)
    parse_readers(methods, cls, defs)
    names = [n for n, _ in defs]
    if len(set(names)) != len(names):
        raise Untranslatable(f"duplicate definitions {names}")
    return defs, dict(log2_text=log2_text, definitions=names)


def emit():
    try:
        defs, info = parse()
    except Untranslatable as ex:
        # fail closed: never leave a stale translation behind (the proofs that depend on it must stop checking)
        OUT.parent.mkdir(parents=True, exist_ok=True)
        OUT.write_text("(* GENERATED by translate/budget.py: the source is NOT translatable, no definition emitted.\n   " + str(ex).replace("*)", "* )").replace("(*", "( *") + " *)\n")
        raise
    lines = ["(* GENERATED by translate/budget.py from " + SRC_BADS + " and " + SRC_SOBOL + " on every ./check run - do not edit, never committed.",
             "   Parameters: level = optim_state['uncertainty_handling_level'], opt_<k> = options['<k>'] at that program point,",
             "   func_count = function_logger.func_count, fun_eval_start / n_samples / u0_size = locals of init_sobol. *)",
             "From Coq Require Import ZArith Bool.", "Open Scope Z_scope.", ""]
    for name, ir in defs:
        ps = [p for p in ORDER if p in free_params(ir)]
        extra = free_params(ir) - set(ORDER)
        if extra:
            raise Untranslatable(f"definition {name} has unknown parameters {extra}")
        ty = "bool" if is_bool(ir) else "Z"
        binder = f" ({' '.join(ps)} : Z)" if ps else ""
        lines.append(f"Definition src_{name}{binder} : {ty} := {coq_of(ir)}.")
    text = "\n".join(lines) + "\n"
    OUT.parent.mkdir(parents=True, exist_ok=True)
    if not OUT.exists() or OUT.read_text() != text:
        OUT.write_text(text)
    info["emitted"] = str(OUT)
    return info


if __name__ == "__main__":
    print(emit())
    print(OUT.read_text())
