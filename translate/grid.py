"""Fail-closed translator: the mesh / grid arithmetic of pybads  ->  coq/gen/Src_grid.v

Re-reads, on every run, from VERIF_REPO (default /repo):

  pybads/search/grid_functions.py        force_to_grid
  pybads/bads/bads.py                    BADS._update_search_bounds_
                                         BADS._init_optim_state_   (mesh exponents and sizes, the inward-rounded search box, the
                                                                    gridised + nudged x0 and its re-check, the tol_mesh snapping)
                                         BADS.optimize             (top of the while loop: mesh_size, search_size_integer,
                                                                    search_mesh_size, search box, sufficient_improvement, tol_mesh stop)
                                         BADS._poll_step_          (the search_size_integer update and mesh_size after a poll)
                                         BADS._eval_improvement_   (both arms)
  pybads/function_logger/constraints_check.py   the rounding key of the duplicate test (tol = tol_mesh / 2.0; np.round(U / tol))

Statements are located BY STRUCTURE, never by line number.  A region (a function body, the head of the while loop) is read
as a STRAIGHT-LINE PROGRAM over a declared set of tracked places (locals, self.<attr>, optim_state["<key>"]) and declared
inputs; every right-hand side goes through the whitelisted expression grammar

    e ::= place | int/float literal | e + e | e - e | e * e | e / e | -e | e ** e | float(e) | e.flatten() | e.copy()
        | np.round(e) | np.ceil(e) | np.log(e) | np.sqrt(e) | np.minimum(e, e) | np.maximum(e, e)
        | force_to_grid(e, e) | erfcinv(e) | grid_units(self.x0, self.var_transf, optim_state["scale"])   (an opaque input)
    b ::= e < e | e <= e | e > e | e >= e | np.any(b) | b or b | self.options["<flag>"]

Any statement of a region that writes a tracked place or an input in a form that is not understood raises Untranslatable
(./check counts that as a broken tie, never as a pass).

ARRAY MASKS.  The only array statement in these regions is   A[M] = f(A[M], scalars)   with M = (A cmp B), A a local array,
B an array of the same shape, every occurrence of the mask structurally identical.  Python evaluates the right-hand side
first (A[M] reads A before it is modified), then the subscript of the target (again on the unmodified A), then calls
__setitem__: both masks are the same boolean array, so coordinate i of the result is
        A'_i = if (A_i cmp B_i) then f(A_i, scalars) else A_i.
Consecutive masked statements see the updated array (the definitions are emitted as a let-chain in statement order).
All other operations in the grammar are element-wise, so every emitted definition is the PER-COORDINATE reading.
Comparisons with NaN are False in NumPy (coordinate unchanged); the model has no NaN (Q).  For +-inf (an unbounded
coordinate): x/tol, np.round, tol*r keep +-inf and `inf < inf` is False, so an infinite bound is a fixed point of the search-box
code; harness/comp_grid.py checks this on the real code, Proofs lift the finite definitions with option_map accordingly.

CARRIERS.  Q (exact rationals) for everything that binary64 computes exactly on dyadic inputs with a power-of-two mesh
(division by / multiplication with 2^k, np.round = half-to-even, +-mesh, comparisons); Z for the mesh exponents; R only where
a transcendental occurs (np.log / np.ceil of the snapping, the forcing exponent 3/2, np.sqrt in _eval_improvement_).
`erfcinv` is an uninterpreted function symbol of the R definitions.

From the SAME intermediate trees come the Gallina text and the Python evaluators (exact Fraction, NumPy binary64, 60-digit
Decimal) that harness/comp_grid.py uses to validate the translation against the real code on every run; the emitted Q / Z
definitions are in addition evaluated by Coq (vm_compute) on the same inputs against the real outputs.
"""
from __future__ import annotations

import ast
import hashlib
import warnings
from decimal import Decimal, getcontext
from fractions import Fraction

import numpy as np

from vlib import core


class Untranslatable(Exception):
    pass


REL_GRID = "pybads/search/grid_functions.py"
REL_BADS = "pybads/bads/bads.py"
REL_CC = "pybads/function_logger/constraints_check.py"
OUT = core.GEN / "Src_grid.v"

CMP = {ast.Lt: "<", ast.LtE: "<=", ast.Gt: ">", ast.GtE: ">="}


def bad(msg, node=None):
    where = f" (line {getattr(node, 'lineno', '?')})" if node is not None else ""
    raise Untranslatable(msg + where)


def dump(n):
    return ast.dump(n, annotate_fields=False, include_attributes=False).replace("Store()", "Load()")


def parse_quiet(text):
    with warnings.catch_warnings():
        warnings.simplefilter("ignore")
        return ast.parse(text)


def same(node, text):
    exp = ast.parse(text).body[0]
    if isinstance(exp, ast.Expr) and not isinstance(node, ast.stmt):
        exp = exp.value
    return dump(node) == dump(exp)


def dotted(n):
    if isinstance(n, ast.Name):
        return n.id
    if isinstance(n, ast.Attribute):
        b = dotted(n.value)
        return None if b is None else b + "." + n.attr
    return None


def body_wo_doc(fn):
    b = fn.body
    if b and isinstance(b[0], ast.Expr) and isinstance(b[0].value, ast.Constant) and isinstance(b[0].value.value, str):
        b = b[1:]
    return b


# --------------------------------------------------------------------------- places


def place(n):
    """canonical name of a storage place / option read, or None.
       loc:<name> | self:<attr> | os:<key> (optim_state[...], self.optim_state[...], .get) | opt:<key> (self.options[...], .get)"""
    if isinstance(n, ast.Name):
        return "loc:" + n.id
    if isinstance(n, ast.Attribute) and isinstance(n.value, ast.Name) and n.value.id == "self":
        return "self:" + n.attr
    base = key = None
    if isinstance(n, ast.Subscript) and isinstance(n.slice, ast.Constant) and isinstance(n.slice.value, str):
        base, key = n.value, n.slice.value
    elif (isinstance(n, ast.Call) and isinstance(n.func, ast.Attribute) and n.func.attr == "get" and len(n.args) == 1
          and not n.keywords and isinstance(n.args[0], ast.Constant) and isinstance(n.args[0].value, str)):
        base, key = n.func.value, n.args[0].value
    if base is not None:
        d = dotted(base)
        if d in ("optim_state", "self.optim_state"):
            return "os:" + key
        if d == "self.options":
            return "opt:" + key
    return None


def written_places(st):
    """every place (or the base place of a subscripted / attribute target) written anywhere inside statement st"""
    out = []
    for n in ast.walk(st):
        tg = []
        if isinstance(n, ast.Assign):
            tg = n.targets
        elif isinstance(n, (ast.AugAssign, ast.AnnAssign)):
            tg = [n.target]
        elif isinstance(n, (ast.For, ast.AsyncFor)):
            tg = [n.target]
        elif isinstance(n, ast.NamedExpr):
            tg = [n.target]
        elif isinstance(n, (ast.With, ast.AsyncWith)):
            tg = [i.optional_vars for i in n.items if i.optional_vars is not None]
        elif isinstance(n, ast.Delete):
            tg = n.targets
        elif isinstance(n, (ast.Global, ast.Nonlocal)):
            bad("global / nonlocal inside a translated region", n)
        stack = list(tg)
        while stack:
            t = stack.pop()
            if isinstance(t, (ast.Tuple, ast.List)):
                stack += list(t.elts)
                continue
            if isinstance(t, ast.Starred):
                stack.append(t.value)
                continue
            e = t
            while True:
                p = place(e)
                if p is not None:
                    out.append(p)
                    break
                if isinstance(e, (ast.Subscript, ast.Attribute)):
                    e = e.value
                    continue
                out.append("?:" + ast.unparse(t))
                break
            # a write THROUGH a place (A[mask] = ..., self.x.y = ...) also counts as a write of every enclosing place
            e = t
            while isinstance(e, (ast.Subscript, ast.Attribute)):
                e = e.value
                p = place(e)
                if p is not None:
                    out.append(p)
    return out


# --------------------------------------------------------------------------- region specification


class Spec:
    """tracked: place -> (var, shape)      places the region assigns and we follow (shape 'arr' | 'sc')
       inputs : place or dump(expr) -> (param, shape)   values read but never written inside the region
       flags  : place -> flag name          boolean options used as `if self.options[...]:`
       origin : input place -> source text of the single assignment that may define it inside the region before its first use"""

    def __init__(self, name, tracked, inputs, flags=None, origin=None, input_exprs=None):
        self.name, self.tracked, self.inputs = name, tracked, inputs
        self.flags = flags or {}
        self.origin = origin or {}
        self.input_exprs = {dump(ast.parse(t, mode="eval").body): v for t, v in (input_exprs or {}).items()}


class Block:
    def __init__(self, spec):
        self.spec = spec
        self.defs = []          # (var, ver, ir, stmt)
        self.cur = {}           # var -> current version
        self.decisions = []     # (bool ir, stmt)   `if <comparison>:` statements that write nothing we track
        self.read_inputs = set()
        self.stmts = []         # every top-level statement of the region (for executing the real text)

    def version(self, var):
        return self.cur.get(var)

    def define(self, var, ir, st):
        v = self.cur.get(var, -1) + 1
        self.cur[var] = v
        self.defs.append((var, v, ir, st))


def tr(n, blk, mask=None):
    """expression -> (ir, shape).  mask = (dump of the `A[M]` subscript, var of A) inside a masked right-hand side."""
    sp = blk.spec
    if mask is not None and isinstance(n, ast.Subscript) and dump(n) == mask[0]:
        return ("ref", mask[1], blk.version(mask[1])), "sc"          # A[M]: the coordinate itself
    d = dump(n)
    if d in sp.input_exprs:
        par, shape = sp.input_exprs[d]
        if mask is not None and shape == "arr":
            bad("whole array inside a masked assignment: " + ast.unparse(n), n)
        return ("par", par), shape
    p = place(n)
    if p is not None:
        if p in sp.tracked:
            var, shape = sp.tracked[p]
            if blk.version(var) is None:
                bad(f"{sp.name}: {ast.unparse(n)} is read before the region assigns it", n)
            if mask is not None and shape == "arr":
                bad("whole array inside a masked assignment: " + ast.unparse(n), n)
            return ("ref", var, blk.version(var)), shape
        if p in sp.inputs:
            par, shape = sp.inputs[p]
            blk.read_inputs.add(p)
            if mask is not None and shape == "arr":
                bad("whole array inside a masked assignment: " + ast.unparse(n), n)
            return ("par", par), shape
        bad(f"{sp.name}: name not declared as tracked place or input: {ast.unparse(n)}", n)
    if isinstance(n, ast.Constant):
        v = n.value
        if isinstance(v, bool) or not isinstance(v, (int, float)):
            bad("literal not numeric: %r" % (v,), n)
        if isinstance(v, float) and not np.isfinite(v):
            bad("non-finite literal", n)
        return ("num", v), "sc"
    if isinstance(n, ast.UnaryOp) and isinstance(n.op, ast.USub):
        a, s = tr(n.operand, blk, mask)
        return ("neg", a), s
    if isinstance(n, ast.BinOp):
        ops = {ast.Add: "add", ast.Sub: "sub", ast.Mult: "mul", ast.Div: "div", ast.Pow: "pow"}
        k = ops.get(type(n.op))
        if k is None:
            bad("operator not in the grammar: " + type(n.op).__name__, n)
        a, s1 = tr(n.left, blk, mask)
        b, s2 = tr(n.right, blk, mask)
        return (k, a, b), ("arr" if "arr" in (s1, s2) else "sc")
    if isinstance(n, ast.Call):
        if n.keywords:
            bad("keyword arguments", n)
        if isinstance(n.func, ast.Attribute) and n.func.attr in ("flatten", "copy") and not n.args:
            return tr(n.func.value, blk, mask)                     # shape / aliasing only
        f = dotted(n.func)
        un = {"np.round": "round", "np.ceil": "ceil", "np.log": "log", "np.sqrt": "sqrt"}
        bi = {"np.minimum": "min", "np.maximum": "max"}
        if f == "float" and len(n.args) == 1:
            return tr(n.args[0], blk, mask)
        if f in un and len(n.args) == 1:
            a, s = tr(n.args[0], blk, mask)
            return (un[f], a), s
        if f in bi and len(n.args) == 2:
            a, s1 = tr(n.args[0], blk, mask)
            b, s2 = tr(n.args[1], blk, mask)
            return (bi[f], a, b), ("arr" if "arr" in (s1, s2) else "sc")
        if f == "force_to_grid" and len(n.args) == 2:
            a, s1 = tr(n.args[0], blk, mask)
            b, s2 = tr(n.args[1], blk, mask)
            if s2 != "sc":
                bad("force_to_grid called with a non-scalar mesh", n)
            return ("app", "src_force_to_grid", (a, b)), s1
        if f == "erfcinv" and len(n.args) == 1:
            a, s = tr(n.args[0], blk, mask)
            return ("opaque", "erfcinv", a), s
        bad("call not in the grammar: " + ast.unparse(n.func), n)
    bad("expression not in the grammar: " + ast.unparse(n), n)


def tr_cmp(n, blk, mask=None):
    if not (isinstance(n, ast.Compare) and len(n.ops) == 1 and type(n.ops[0]) in CMP):
        bad("not a single <,<=,>,>= comparison: " + ast.unparse(n), n)
    a, _ = tr(n.left, blk, mask)
    b, _ = tr(n.comparators[0], blk, mask)
    return ("cmp", CMP[type(n.ops[0])], a, b)


def tr_bool(n, blk):
    if isinstance(n, ast.BoolOp) and isinstance(n.op, ast.Or):
        out = tr_bool(n.values[0], blk)
        for v in n.values[1:]:
            out = ("or", out, tr_bool(v, blk))
        return out
    if isinstance(n, ast.Call) and dotted(n.func) == "np.any" and len(n.args) == 1 and not n.keywords:
        return tr_cmp(n.args[0], blk)          # any over coordinates of a per-coordinate test: per-coordinate reading
    if isinstance(n, ast.Compare):
        return tr_cmp(n, blk)
    bad("boolean expression not in the grammar: " + ast.unparse(n), n)


def walk_region(stmts, spec: Spec, usb=None, seed=None) -> Block:
    """read a straight-line region.  usb: translated _update_search_bounds_ (for `(.., ..) = self._update_search_bounds_()`);
    seed: {var: param} variables that enter the region with a value (version 0 = that parameter)"""
    blk = Block(spec)
    blk.stmts = list(stmts)
    for var, par in (seed or {}).items():
        blk.define(var, ("par", par), None)
    watched = set(spec.tracked) | set(spec.inputs) | set(spec.flags)
    for st in stmts:
        w = written_places(st)
        if not any(p in watched for p in w):
            # a decision we want to read: `if <comparison over tracked places>:` that writes nothing we track
            if isinstance(st, ast.If) and not isinstance(st.test, ast.Name):
                try_decision(st, blk)
            continue
        # ---- writes of inputs: only the declared origin, before the first read
        for p in w:
            if p in spec.inputs or p in spec.flags:
                o = spec.origin.get(p)
                if o is None or not same(st, o) or p in blk.read_inputs:
                    bad(f"{spec.name}: input {p} is written inside the region: {ast.unparse(st)[:120]}", st)
        if all(p not in spec.tracked for p in w):
            continue
        # ---- plain assignment  place = e   /  masked assignment  A[M] = f(A[M], ...)
        if isinstance(st, ast.Assign) and len(st.targets) == 1:
            tg = st.targets[0]
            p = place(tg)
            if p in spec.tracked:
                var, shape = spec.tracked[p]
                ir, s = tr(st.value, blk)
                if s == "arr" and shape == "sc":
                    bad(f"{spec.name}: array value stored in scalar place {p}", st)
                blk.define(var, ir, st)
                continue
            if (isinstance(tg, ast.Subscript) and place(tg.value) in spec.tracked and isinstance(tg.slice, ast.Compare)):
                var, shape = spec.tracked[place(tg.value)]
                if shape != "arr" or not place(tg.value).startswith("loc:"):
                    bad(f"{spec.name}: masked assignment to something that is not a local array", st)
                if blk.version(var) is None:
                    bad(f"{spec.name}: masked assignment before the array is bound", st)
                cond = tr_cmp(tg.slice, blk)
                # the mask must compare the array itself (left operand) with something
                if cond[2] != ("ref", var, blk.version(var)):
                    bad(f"{spec.name}: mask does not test the array it indexes: {ast.unparse(tg)}", st)
                rhs, _ = tr(st.value, blk, mask=(dump(tg), var))
                if not any(u == ("ref", var, blk.version(var)) for u in walk_ir(rhs)):
                    bad(f"{spec.name}: masked right-hand side does not read the masked array", st)
                blk.define(var, ("ite", cond, rhs, ("ref", var, blk.version(var))), st)
                continue
            # (os:lb_search, os:ub_search) = self._update_search_bounds_()
            if (isinstance(tg, ast.Tuple) and usb is not None and same(st.value, "self._update_search_bounds_()")
                    and [place(e) for e in tg.elts] == ["os:lb_search", "os:ub_search"]
                    and all(place(e) in spec.tracked for e in tg.elts)):
                args = {}
                for pl, (par, _) in usb.spec.inputs.items():
                    if pl not in usb.read_inputs:
                        continue
                    if pl in spec.tracked:
                        v = spec.tracked[pl][0]
                        if blk.version(v) is None:
                            bad(f"{spec.name}: _update_search_bounds_ reads {pl} before the region assigns it", st)
                        args[par] = ("ref", v, blk.version(v))
                    elif pl in spec.inputs:
                        args[par] = ("par", spec.inputs[pl][0])
                        blk.read_inputs.add(pl)
                    else:
                        bad(f"{spec.name}: _update_search_bounds_ reads {pl}, unknown to this region", st)
                for e, nm in zip(tg.elts, ("lb", "ub")):
                    need = usb.out_params[nm]
                    blk.define(spec.tracked[place(e)][0], ("app", "src_usb_%s_search" % nm, tuple(args[q] for q in need)), st)
                continue
        # ---- if self.options["flag"]: tracked = e      (no else)
        if isinstance(st, ast.If) and place(st.test) in spec.flags and not st.orelse:
            flag = spec.flags[place(st.test)]
            blk.read_inputs.add(place(st.test))
            for s2 in st.body:
                if not (isinstance(s2, ast.Assign) and len(s2.targets) == 1 and place(s2.targets[0]) in spec.tracked):
                    bad(f"{spec.name}: statement under `if {ast.unparse(st.test)}` is not an assignment to a tracked place", s2)
                var, _ = spec.tracked[place(s2.targets[0])]
                if blk.version(var) is None:
                    bad(f"{spec.name}: conditional assignment to {var} before it has a value", s2)
                old = ("ref", var, blk.version(var))
                ir, _ = tr(s2.value, blk)
                blk.define(var, ("ite", ("flag", flag), ir, old), st)
            continue
        bad(f"{spec.name}: statement writes a tracked place in a form that is not understood: {ast.unparse(st)[:160]}", st)
    return blk


def try_decision(st, blk):
    """`if <test>:` whose test only involves tracked places / inputs and whose body we do not follow"""
    spec = blk.spec
    leaves = [place(s) for s in ast.walk(st.test)]
    if not any(p in spec.tracked for p in leaves):
        return
    try:
        ir = tr_bool(st.test, blk)
    except Untranslatable:
        # a test over tracked values that is outside the grammar is a broken tie only for the decisions we are asked to read;
        # those are checked for presence by the caller (find_decision)
        return
    blk.decisions.append((ir, st))


def walk_ir(t):
    yield t
    for c in t[1:]:
        if isinstance(c, tuple) and c and isinstance(c[0], str):
            yield from walk_ir(c)
        elif isinstance(c, tuple):
            for d in c:
                if isinstance(d, tuple):
                    yield from walk_ir(d)


# --------------------------------------------------------------------------- slicing one output out of a block


class Out:
    """one emitted Definition: the value of `var` (its last version in `blk`, or the given ir) as a function of `params`
       params: [(name, sort)]  sort in Q Z R B F ;  cut: var -> param name (a tracked variable taken as a parameter)"""

    def __init__(self, name, sort, params, blk=None, var=None, ir=None, cut=None, doc=""):
        self.name, self.sort, self.params, self.blk, self.var, self.cut, self.doc = name, sort, params, blk, var, cut or {}, doc
        self.psort = dict(params)
        if ir is None:
            if blk.version(var) is None:
                bad(f"{name}: the region never assigns {var}")
            ir = ("ref", var, blk.version(var))
        self.root = ir
        self.chain = self._slice()

    def _slice(self):
        need, order = set(), []
        defs = {(v, k): ir for v, k, ir, _ in (self.blk.defs if self.blk else [])}

        def visit(t):
            for s in walk_ir(t):
                if s[0] == "ref" and s[1] not in self.cut and (s[1], s[2]) not in need:
                    need.add((s[1], s[2]))
                    visit(defs[(s[1], s[2])])
                if s[0] == "par" and s[1] not in self.psort:
                    bad(f"{self.name}: depends on {s[1]}, which is not among its declared parameters {list(self.psort)}")
                if s[0] == "flag" and self.psort.get(s[1]) != "B":
                    bad(f"{self.name}: depends on the flag {s[1]}, which is not among its declared parameters")
                if s[0] == "ref" and s[1] in self.cut and self.cut[s[1]] not in self.psort:
                    bad(f"{self.name}: cut variable {s[1]} has no parameter")
        visit(self.root)
        if self.blk:
            order = [(v, k, ir) for v, k, ir, _ in self.blk.defs if (v, k) in need]
        return order


# --------------------------------------------------------------------------- printers


def qlit(v):
    fr = Fraction(v)
    return f"({fr.numerator} # {fr.denominator})" if fr >= 0 else f"(- ({-fr.numerator} # {fr.denominator}))"


def zlit(v):
    if isinstance(v, float) and v != int(v) or isinstance(v, bool):
        bad("non-integer literal in an exponent expression")
    v = int(v)
    return f"{v}%Z" if v >= 0 else f"({v})%Z"


def rlit(v):
    fr = Fraction(v)
    s = str(abs(fr.numerator)) if fr.denominator == 1 else f"({abs(fr.numerator)} / {fr.denominator})"
    return s if fr >= 0 else f"(- {s})"


class Printer:
    def __init__(self, out: Out):
        self.o = out

    def name(self, t):
        """a ref / par as an identifier"""
        if t[0] == "ref":
            return self.o.cut.get(t[1], t[1])
        return t[1]

    def leaf_sort(self, t):
        if t[0] == "par":
            return self.o.psort[t[1]]
        if t[0] == "ref" and t[1] in self.o.cut:
            return self.o.psort[self.o.cut[t[1]]]
        return self.o.sort            # a let-bound variable of this chain

    # ---- Z
    def z(self, t):
        k = t[0]
        if k == "num":
            return zlit(t[1])
        if k in ("par", "ref"):
            if self.leaf_sort(t) != "Z":
                bad(f"{self.o.name}: {self.name(t)} used as an integer but declared {self.leaf_sort(t)}")
            return self.name(t)
        if k in ("add", "sub", "mul"):
            return "(%s %s %s)%%Z" % (self.z(t[1]), {"add": "+", "sub": "-", "mul": "*"}[k], self.z(t[2]))
        if k == "neg":
            return "(- %s)%%Z" % self.z(t[1])
        if k in ("min", "max"):
            return "(Z.%s %s %s)" % (k, self.z(t[1]), self.z(t[2]))
        if k == "ite":
            return "(if %s then %s else %s)" % (self.b(t[1]), self.z(t[2]), self.z(t[3]))
        bad(f"{self.o.name}: {k} is not available on integers (Z)")

    # ---- Q
    def q(self, t):
        k = t[0]
        if k == "num":
            return qlit(t[1])
        if k in ("par", "ref"):
            s = self.leaf_sort(t)
            if s == "Q":
                return self.name(t)
            if s == "Z":
                return "(inject_Z %s)" % self.name(t)
            bad(f"{self.o.name}: {self.name(t)} of sort {s} inside an exact (Q) definition")
        if k in ("add", "sub", "mul", "div"):
            return "(%s %s %s)" % (self.q(t[1]), {"add": "+", "sub": "-", "mul": "*", "div": "/"}[k], self.q(t[2]))
        if k == "neg":
            return "(- %s)" % self.q(t[1])
        if k == "round":
            return "(inject_Z (np_round %s))" % self.q(t[1])
        if k == "pow":
            return "(Qpower %s %s)" % (self.q(t[1]), self.z(t[2]))
        if k == "app":
            return "(%s %s)" % (t[1], " ".join(self.q(a) for a in t[2]))
        if k == "ite":
            return "(if %s then %s else %s)" % (self.b(t[1]), self.q(t[2]), self.q(t[3]))
        bad(f"{self.o.name}: {k} is not exact on rationals: the source expression left the Q fragment")

    # ---- R
    def r(self, t):
        k = t[0]
        if k == "num":
            return rlit(t[1])
        if k in ("par", "ref"):
            s = self.leaf_sort(t)
            if s == "R":
                return self.name(t)
            if s == "Z":
                return "(IZR %s)" % self.name(t)
            bad(f"{self.o.name}: {self.name(t)} of sort {s} inside a real-number definition")
        if k in ("add", "sub", "mul", "div"):
            return "(%s %s %s)" % (self.r(t[1]), {"add": "+", "sub": "-", "mul": "*", "div": "/"}[k], self.r(t[2]))
        if k == "neg":
            return "(- %s)" % self.r(t[1])
        if k == "pow":
            e = t[2]
            if e[0] == "num" and isinstance(e[1], int) and not isinstance(e[1], bool) and 0 <= e[1] <= 8:
                return "(%s ^ %d)" % (self.r(t[1]), e[1])
            return "(Rpower %s %s)" % (self.r(t[1]), self.r(t[2]))
        if k == "ceil":
            return "(IZR (np_ceil %s))" % self.r(t[1])
        if k == "log":
            return "(ln %s)" % self.r(t[1])
        if k == "sqrt":
            return "(sqrt %s)" % self.r(t[1])
        if k in ("min", "max"):
            return "(R%s %s %s)" % (k, self.r(t[1]), self.r(t[2]))
        if k == "opaque":
            if self.o.psort.get(t[1]) != "F":
                bad(f"{self.o.name}: uninterpreted function {t[1]} is not a declared parameter")
            return "(%s %s)" % (t[1], self.r(t[2]))
        if k == "ite":
            return "(if %s then %s else %s)" % (self.b(t[1]), self.r(t[2]), self.r(t[3]))
        bad(f"{self.o.name}: {k} has no real-number reading")

    # ---- bool (comparisons are only emitted on Q; flags anywhere)
    def b(self, t):
        k = t[0]
        if k == "flag":
            return t[1]
        if k == "or":
            return "(%s || %s)" % (self.b(t[1]), self.b(t[2]))
        if k == "cmp":
            a, b = self.q(t[2]), self.q(t[3])
            return {"<": f"(Qltb {a} {b})", ">": f"(Qltb {b} {a})", "<=": f"(Qle_bool {a} {b})", ">=": f"(Qle_bool {b} {a})"}[t[1]]
        bad(f"{self.o.name}: {k} is not a boolean")

    def term(self, t):
        return {"Q": self.q, "Z": self.z, "R": self.r, "B": self.b}[self.o.sort](t)

    def definition(self):
        o = self.o
        ty = {"Q": "Q", "Z": "Z", "R": "R", "B": "bool", "F": "R -> R"}
        ps = " ".join(f"({n} : {ty[s]})" for n, s in o.params)
        lines = []
        if o.doc:
            lines.append("(* " + o.doc.replace("*)", "* )") + " *)")
        head = f"Definition {o.name} {ps} : {ty[o.sort]} :="
        if not o.chain:
            lines.append(head + " " + self.term(o.root) + ".")
            return "\n".join(lines)
        lines.append(head)
        for v, k, ir in o.chain:
            lines.append(f"  let {v} := {self.term(ir)} in")
        lines.append("  " + self.term(o.root) + ".")
        return "\n".join(lines)


# --------------------------------------------------------------------------- evaluators (same trees)


class Ev:
    """mode 'frac': exact Fractions / ints (only the Q, Z fragment); 'float': NumPy binary64, same operations in the same order as the
    source; 'dec': 60-digit Decimal (real-number reading).  funs: name -> python callable for ('app', ...) and ('opaque', ...)."""

    def __init__(self, mode, funs=None):
        self.mode, self.funs = mode, funs or {}
        if mode == "dec":
            getcontext().prec = 60

    def num(self, v):
        if self.mode == "frac":
            return Fraction(v)
        if self.mode == "float":
            return v
        fr = Fraction(v)
        return Decimal(fr.numerator) / Decimal(fr.denominator)

    def ev(self, t, env):
        k = t[0]
        m = self.mode
        if k == "num":
            return self.num(t[1])
        if k == "par":
            return env[t[1]]
        if k == "ref":
            return env[("ref", t[1], t[2])] if ("ref", t[1], t[2]) in env else env[t[1]]
        if k == "flag":
            return bool(env[t[1]])
        if k in ("add", "sub", "mul", "div"):
            a, b = self.ev(t[1], env), self.ev(t[2], env)
            return a + b if k == "add" else a - b if k == "sub" else a * b if k == "mul" else a / b
        if k == "neg":
            return -self.ev(t[1], env)
        if k == "pow":
            a, b = self.ev(t[1], env), self.ev(t[2], env)
            if m == "frac":
                if Fraction(b).denominator != 1:
                    raise Untranslatable("non-integer exponent in exact mode")
                return Fraction(a) ** int(b)
            if m == "float":
                return a ** b
            if Fraction(b).denominator == 1:
                return Decimal(a) ** int(b)
            return (Decimal(b) * Decimal(a).ln()).exp()
        if k == "round":
            a = self.ev(t[1], env)
            if m == "frac":
                return Fraction(round_half_even(a))
            if m == "float":
                return np.round(a)
            return Decimal(round_half_even(Fraction(a)))
        if k == "ceil":
            a = self.ev(t[1], env)
            if m == "float":
                return np.ceil(a)
            if m == "frac":
                return Fraction(-((-a.numerator) // a.denominator))
            n = a.to_integral_value(rounding="ROUND_HALF_EVEN")
            if abs(a - n) < Decimal(10) ** -45:       # an exact integer up to the working precision
                return n
            return a.to_integral_value(rounding="ROUND_CEILING")
        if k == "log":
            a = self.ev(t[1], env)
            if m == "float":
                return np.log(a)
            if m == "dec":
                return a.ln()
            raise Untranslatable("log in exact mode")
        if k == "sqrt":
            a = self.ev(t[1], env)
            if m == "float":
                return np.sqrt(a)
            if m == "dec":
                return a.sqrt()
            raise Untranslatable("sqrt in exact mode")
        if k in ("min", "max"):
            a, b = self.ev(t[1], env), self.ev(t[2], env)
            if m == "float":
                return np.minimum(a, b) if k == "min" else np.maximum(a, b)
            return min(a, b) if k == "min" else max(a, b)
        if k == "app":
            return self.funs[t[1]](*[self.ev(a, env) for a in t[2]])
        if k == "opaque":
            return self.funs[t[1]](self.ev(t[2], env))
        if k == "cmp":
            a, b = self.ev(t[2], env), self.ev(t[3], env)
            return {"<": a < b, "<=": a <= b, ">": a > b, ">=": a >= b}[t[1]]
        if k == "or":
            return self.ev(t[1], env) or self.ev(t[2], env)
        if k == "ite":
            return self.ev(t[2], env) if self.ev(t[1], env) else self.ev(t[3], env)
        raise Untranslatable("internal: no evaluator for " + k)

    def out(self, o: Out, args: dict):
        """evaluate the emitted definition o on arguments {param: value}"""
        env = dict(args)
        for var, par in o.cut.items():          # cut variables are parameters
            env[var] = args[par]
        for v, k, ir in o.chain:
            env[("ref", v, k)] = self.ev(ir, env)
        return self.ev(o.root, env)


def round_half_even(x: Fraction) -> int:
    f = x.numerator // x.denominator
    r = x - f
    if r < Fraction(1, 2):
        return f
    if r > Fraction(1, 2):
        return f + 1
    return f if f % 2 == 0 else f + 1


# --------------------------------------------------------------------------- locating the regions


def find_fn(body, name, what):
    hits = [s for s in body if isinstance(s, ast.FunctionDef) and s.name == name]
    if len(hits) != 1:
        bad(f"{what}: def {name} not found exactly once")
    if hits[0].decorator_list:
        bad(f"{what}: {name} is decorated", hits[0])
    return hits[0]


def plain_args(fn, names):
    a = fn.args
    if [x.arg for x in a.args] != names or a.vararg or a.kwarg or a.kwonlyargs or a.posonlyargs:
        bad(f"{fn.name}: signature is not ({', '.join(names)})", fn)


class Model:
    pass


OS = "arr"      # shape of a place: per-coordinate array ...
SC = "sc"       # ... or scalar


def load(repo=None) -> Model:
    repo = core.REPO if repo is None else repo
    m = Model()
    texts = {rel: (repo / rel).read_text() for rel in (REL_GRID, REL_BADS, REL_CC)}
    m.sha = hashlib.sha256("".join(texts[k] for k in sorted(texts)).encode()).hexdigest()[:16]
    outs = []

    # ================================================================= grid_functions.force_to_grid
    gmod = parse_quiet(texts[REL_GRID])
    ftg = find_fn(gmod.body, "force_to_grid", REL_GRID)
    plain_args(ftg, ["x", "search_mesh_size", "tol"])
    if not (len(ftg.args.defaults) == 1 and isinstance(ftg.args.defaults[0], ast.Constant) and ftg.args.defaults[0].value is None):
        bad("force_to_grid: default of tol is not None", ftg)
    fb = body_wo_doc(ftg)
    if not (len(fb) == 2 and isinstance(fb[0], ast.If) and same(fb[0].test, "tol is None") and not fb[0].orelse
            and len(fb[0].body) == 1 and same(fb[0].body[0], "tol = search_mesh_size") and isinstance(fb[1], ast.Return)):
        bad("force_to_grid: body is not `if tol is None: tol = search_mesh_size; return <expr>`", ftg)
    sp = Spec("force_to_grid", tracked={}, inputs={"loc:x": ("x", OS), "loc:tol": ("tol", SC)})
    blk = Block(sp)
    ir, _ = tr(fb[1].value, blk)
    m.ftg_tol = Out("src_force_to_grid_tol", "Q", [("x", "Q"), ("tol", "Q")], blk=blk, ir=ir,
                    doc="grid_functions.force_to_grid: return " + ast.unparse(fb[1].value))
    m.ftg = Out("src_force_to_grid", "Q", [("x", "Q"), ("search_mesh_size", "Q")], blk=None,
                ir=("app", "src_force_to_grid_tol", (("par", "x"), ("par", "search_mesh_size"))),
                doc="`if tol is None: tol = search_mesh_size` - every call in pybads passes exactly (x, search_mesh_size)")
    m.ftg_stmts = fb
    outs += [m.ftg_tol, m.ftg]

    # every call of force_to_grid anywhere in pybads has exactly two positional arguments
    ncalls = 0
    for p in sorted((repo / "pybads").rglob("*.py")):
        t = p.read_text()
        if "force_to_grid" not in t:
            continue
        for c in ast.walk(parse_quiet(t)):
            if isinstance(c, ast.Call) and dotted(c.func) in ("force_to_grid", "grid_functions.force_to_grid"):
                ncalls += 1
                if len(c.args) != 2 or c.keywords:
                    bad(f"{p.name}: force_to_grid called with something other than (x, search_mesh_size)", c)
            if isinstance(c, (ast.Assign, ast.AugAssign)) and any(dotted(t2) == "force_to_grid" for t2 in getattr(c, "targets", [getattr(c, "target", None)]) if t2 is not None):
                bad(f"{p.name}: force_to_grid is rebound", c)
    m.ftg_calls = ncalls
    for s in gmod.body:
        if isinstance(s, (ast.Assign, ast.AugAssign)) and any(dotted(t2) in ("np", "force_to_grid") for t2 in getattr(s, "targets", [])):
            bad("grid_functions.py rebinds np / force_to_grid", s)

    # ================================================================= bads.py
    bmod = parse_quiet(texts[REL_BADS])
    imp = [s for s in bmod.body if isinstance(s, ast.ImportFrom)]
    if not any(s.module == "pybads.search.grid_functions" and any(a.name == "force_to_grid" and a.asname is None for a in s.names) for s in imp):
        bad("bads.py does not import force_to_grid from pybads.search.grid_functions")
    if not any(s.module == "scipy.special" and any(a.name == "erfcinv" and a.asname is None for a in s.names) for s in imp):
        bad("bads.py does not import erfcinv from scipy.special")
    if not any(isinstance(s, ast.Import) and any(a.name == "numpy" and a.asname == "np" for a in s.names) for s in bmod.body):
        bad("bads.py does not `import numpy as np`")
    for s in bmod.body:
        if isinstance(s, (ast.Assign, ast.AugAssign, ast.FunctionDef)) and (
                getattr(s, "name", None) in ("force_to_grid", "erfcinv", "np")
                or any(dotted(t2) in ("np", "force_to_grid", "erfcinv") for t2 in getattr(s, "targets", []))):
            bad("bads.py rebinds np / force_to_grid / erfcinv at module level", s)
    cls = [s for s in bmod.body if isinstance(s, ast.ClassDef) and s.name == "BADS"]
    if len(cls) != 1:
        bad("class BADS not found exactly once")
    cbody = cls[0].body

    # ----------------------------------------------------------------- _update_search_bounds_
    usb = find_fn(cbody, "_update_search_bounds_", "BADS")
    plain_args(usb, ["self"])
    ub_ = body_wo_doc(usb)
    if not (ub_ and isinstance(ub_[-1], ast.Return) and same(ub_[-1], "return lb_search, ub_search")):
        bad("_update_search_bounds_ does not end with `return lb_search, ub_search`", usb)
    sp = Spec("_update_search_bounds_",
              tracked={"loc:lb": ("lb", OS), "loc:ub": ("ub", OS), "loc:lb_search": ("lb_search", OS), "loc:ub_search": ("ub_search", OS)},
              inputs={"os:lb": ("os_lb", OS), "os:ub": ("os_ub", OS), "os:search_mesh_size": ("search_mesh_size", SC)})
    blk = walk_region(ub_[:-1], sp)
    m.usb = blk
    m.usb_lb = Out("src_usb_lb_search", "Q", [("os_lb", "Q"), ("search_mesh_size", "Q")], blk=blk, var="lb_search",
                   doc="BADS._update_search_bounds_, first component (os_lb = self.optim_state['lb'])")
    m.usb_ub = Out("src_usb_ub_search", "Q", [("os_ub", "Q"), ("search_mesh_size", "Q")], blk=blk, var="ub_search",
                   doc="BADS._update_search_bounds_, second component (os_ub = self.optim_state['ub'])")
    blk.out_params = {"lb": ["os_lb", "search_mesh_size"], "ub": ["os_ub", "search_mesh_size"]}
    outs += [m.usb_lb, m.usb_ub]

    # ----------------------------------------------------------------- _init_optim_state_
    ini = find_fn(cbody, "_init_optim_state_", "BADS")
    plain_args(ini, ["self"])
    ib = body_wo_doc(ini)
    if not (isinstance(ib[-1], ast.Return) and same(ib[-1], "return optim_state")):
        bad("_init_optim_state_ does not end with `return optim_state`", ini)
    sp = Spec("_init_optim_state_",
              tracked={"self:mesh_size_integer": ("mesh_size_integer", SC), "os:search_size_integer": ("search_size_integer", SC),
                       "os:mesh_size": ("mesh_size", SC), "self:mesh_size": ("self_mesh_size", SC),
                       "os:search_mesh_size": ("search_mesh_size", SC), "self:search_mesh_size": ("self_search_mesh_size", SC),
                       "loc:lb_search": ("lb_search", OS), "loc:ub_search": ("ub_search", OS),
                       "os:lb_search": ("os_lb_search", OS), "os:ub_search": ("os_ub_search", OS),
                       "loc:u0": ("u0", OS), "os:u": ("os_u", OS), "self:u": ("self_u", OS),
                       "os:tol_mesh": ("tol_mesh_state", SC), "os:lb": ("os_lb", OS), "os:ub": ("os_ub", OS)},
              inputs={"opt:init_mesh_size_integer": ("init_mesh_size_integer", SC), "opt:search_grid_multiplier": ("search_grid_multiplier", SC),
                      "opt:search_grid_number": ("search_grid_number", SC), "opt:poll_mesh_multiplier": ("poll_mesh_multiplier", SC),
                      "opt:tol_mesh": ("tol_mesh", SC), "self:lower_bounds": ("lb", OS), "self:upper_bounds": ("ub", OS)},
              origin={"self:lower_bounds": "self.lower_bounds = self.var_transf.lb.copy()",
                      "self:upper_bounds": "self.upper_bounds = self.var_transf.ub.copy()"},
              input_exprs={'grid_units(self.x0, self.var_transf, optim_state["scale"])': ("x_units", OS)})
    blk = walk_region(ib[:-1], sp)
    m.init = blk
    # the hard bounds must have been re-bound to the transformed box before the search box is computed
    order = [i for i, s in enumerate(ib) for o in sp.origin.values() if same(s, o)]
    if len(order) != 2:
        bad("_init_optim_state_: self.lower_bounds / self.upper_bounds are not re-bound to the transformed box exactly once")
    users = [st for var, _, _, st in blk.defs if var in ("lb_search", "ub_search", "u0")]
    first_use = min(i for i, s in enumerate(ib) if any(st is s for st in users))
    if max(order) > first_use:
        bad("_init_optim_state_: the search box is computed before the bounds are transformed")
    Z3 = [("init_mesh_size_integer", "Z"), ("search_grid_multiplier", "Z"), ("search_grid_number", "Z")]
    m.init_k = Out("src_init_mesh_size_integer", "Z", [("init_mesh_size_integer", "Z")], blk=blk, var="mesh_size_integer",
                   doc="_init_optim_state_: self.mesh_size_integer")
    m.init_ks = Out("src_init_search_size_integer", "Z", Z3, blk=blk, var="search_size_integer",
                    doc="_init_optim_state_: optim_state['search_size_integer']")
    m.init_mesh = Out("src_init_mesh_size", "Q", [("poll_mesh_multiplier", "Q"), ("mesh_size_integer", "Z")], blk=blk, var="mesh_size",
                      cut={"mesh_size_integer": "mesh_size_integer"}, doc="_init_optim_state_: optim_state['mesh_size']")
    m.init_smesh = Out("src_init_search_mesh_size", "Q", [("poll_mesh_multiplier", "Q"), ("search_size_integer", "Z")], blk=blk,
                       var="search_mesh_size", cut={"search_size_integer": "search_size_integer"},
                       doc="_init_optim_state_: optim_state['search_mesh_size']")
    cutm = {"search_mesh_size": "search_mesh_size"}
    m.init_lb = Out("src_init_lb_search", "Q", [("lb", "Q"), ("search_mesh_size", "Q")], blk=blk, var="os_lb_search", cut=cutm,
                    doc="_init_optim_state_: optim_state['lb_search'] (lb = self.lower_bounds, the transformed hard bound)")
    m.init_ub = Out("src_init_ub_search", "Q", [("ub", "Q"), ("search_mesh_size", "Q")], blk=blk, var="os_ub_search", cut=cutm,
                    doc="_init_optim_state_: optim_state['ub_search']")
    m.init_u0 = Out("src_init_u0", "Q", [("x_units", "Q"), ("lb", "Q"), ("ub", "Q"), ("search_mesh_size", "Q")], blk=blk, var="os_u", cut=cutm,
                    doc="_init_optim_state_: optim_state['u'] = the gridised starting point, nudged back inside "
                        "(x_units = grid_units(self.x0, self.var_transf, ...) = the transformed x0)")
    m.init_self_u = Out("src_init_self_u", "Q", [("x_units", "Q"), ("lb", "Q"), ("ub", "Q"), ("search_mesh_size", "Q")], blk=blk, var="self_u",
                        cut=cutm, doc="_init_optim_state_: self.u")
    m.init_tol = Out("src_init_tol_mesh", "R", [("poll_mesh_multiplier", "R"), ("tol_mesh", "R")], blk=blk, var="tol_mesh_state",
                     doc="_init_optim_state_: optim_state['tol_mesh'] (the snapped tolerance)")
    # os:lb / os:ub (what _update_search_bounds_ reads later) are copies of the transformed hard bounds
    for v, par in (("os_lb", "lb"), ("os_ub", "ub")):
        k = blk.version(v)
        d = [ir for a, b, ir, _ in blk.defs if a == v and b == k]
        if k != 0 or d != [("par", par)]:
            bad(f"_init_optim_state_: optim_state['{par}'] is not a copy of the transformed hard bound")
    # the re-check of u0: `if np.any(u0 > self.upper_bounds) or np.any(u0 < self.lower_bounds): ... raise ValueError`
    rej = [(ir, st) for ir, st in blk.decisions if any(isinstance(s, ast.Raise) for s in st.body)
           and any(u[0] == "ref" and u[1] == "u0" for u in walk_ir(ir))]
    if len(rej) != 1:
        bad(f"_init_optim_state_: expected exactly one `if <u0 outside the bounds>: raise`, found {len(rej)}")
    ir, st = rej[0]
    u0v = blk.version("u0")
    if any(u[0] == "ref" and u[1] == "u0" and u[2] != u0v for u in walk_ir(ir)):
        bad("_init_optim_state_: the re-check does not test the final u0", st)
    if not (len(st.body) >= 1 and isinstance(st.body[-1], ast.Raise) and not st.orelse
            and isinstance(st.body[-1].exc, ast.Call) and dotted(st.body[-1].exc.func) == "ValueError"):
        bad("_init_optim_state_: the re-check does not end in `raise ValueError(...)`", st)
    if not (blk.defs and [d for d in blk.defs if d[0] == "os_u"][-1][2] == ("ref", "u0", u0v)):
        bad("_init_optim_state_: optim_state['u'] is not the final u0")
    m.init_rej = Out("src_init_u0_rejected", "B", [("u0", "Q"), ("lb", "Q"), ("ub", "Q")], blk=blk, ir=ir, cut={"u0": "u0"},
                     doc="_init_optim_state_: the constructor raises ValueError iff this holds for some coordinate of the final u0")
    m.init_rej_stmt = st
    outs += [m.init_k, m.init_ks, m.init_mesh, m.init_smesh, m.init_lb, m.init_ub, m.init_u0, m.init_self_u, m.init_rej, m.init_tol]

    # ----------------------------------------------------------------- optimize(): head of the while loop
    opt = find_fn(cbody, "optimize", "BADS")
    loops = [s for s in body_wo_doc(opt) if isinstance(s, ast.While)]
    if len(loops) != 1 or not same(loops[0].test, "not is_finished"):
        bad("optimize(): expected exactly one top-level `while not is_finished:`")
    wb = loops[0].body
    stop = [i for i, s in enumerate(wb) if isinstance(s, ast.If) and isinstance(s.test, ast.Compare)
            and "os:tol_mesh" in [place(x) for x in ast.walk(s.test)]]
    if len(stop) != 1:
        bad(f"optimize(): expected exactly one `if <mesh_size ? tol_mesh>:` in the loop, found {len(stop)}")
    last = [i for i, s in enumerate(wb) if "os:search_sufficient_improvement" in written_places(s)]
    if len(last) != 1 or last[0] > stop[0]:
        bad("optimize(): optim_state['search_sufficient_improvement'] is not assigned exactly once before the termination tests")
    region = wb[:last[0] + 1]          # the head of the loop: everything up to the forcing function
    sp = Spec("optimize/loop",
              tracked={"self:mesh_size": ("self_mesh_size", SC), "os:mesh_size": ("mesh_size", SC),
                       "os:search_size_integer": ("search_size_integer", SC), "os:search_mesh_size": ("search_mesh_size", SC),
                       "self:search_mesh_size": ("self_search_mesh_size", SC),
                       "os:lb_search": ("lb_search", OS), "os:ub_search": ("ub_search", OS),
                       "self:sufficient_improvement": ("sufficient_improvement", SC),
                       "os:search_sufficient_improvement": ("search_sufficient_improvement", SC)},
              inputs={"self:mesh_size_integer": ("mesh_size_integer", SC), "opt:poll_mesh_multiplier": ("poll_mesh_multiplier", SC),
                      "opt:search_grid_multiplier": ("search_grid_multiplier", SC), "opt:search_grid_number": ("search_grid_number", SC),
                      "opt:tol_improvement": ("tol_improvement", SC), "opt:forcing_exponent": ("forcing_exponent", SC),
                      "opt:tol_fun": ("tol_fun", SC), "os:tol_mesh": ("tol_mesh_state", SC), "os:lb": ("os_lb", OS), "os:ub": ("os_ub", OS)},
              flags={"opt:search_size_locked": "search_size_locked", "opt:sloppy_improvement": "sloppy_improvement"})
    # search_size_integer enters the loop with the value of the previous iteration: seed version 0 as a parameter
    blk2 = walk_region(region, sp, usb=m.usb, seed={"search_size_integer": "search_size_integer_in"})
    m.loop = blk2
    Zk = [("mesh_size_integer", "Z"), ("search_grid_multiplier", "Z"), ("search_grid_number", "Z")]
    m.loop_mesh = Out("src_loop_mesh_size", "Q", [("poll_mesh_multiplier", "Q"), ("mesh_size_integer", "Z")], blk=blk2, var="mesh_size",
                      doc="optimize(), head of the loop: self.optim_state['mesh_size']")
    m.loop_ks = Out("src_loop_search_size_integer", "Z", [("search_size_locked", "B"), ("search_size_integer_in", "Z")] + Zk, blk=blk2,
                    var="search_size_integer", doc="optimize(), head of the loop: optim_state['search_size_integer'] "
                    "(search_size_integer_in = its value when the iteration starts)")
    m.loop_smesh = Out("src_loop_search_mesh_size", "Q", [("poll_mesh_multiplier", "Q"), ("search_size_integer", "Z")], blk=blk2,
                       var="self_search_mesh_size", cut={"search_size_integer": "search_size_integer"},
                       doc="optimize(), head of the loop: self.search_mesh_size = optim_state['search_mesh_size']")
    cutm = {"search_mesh_size": "search_mesh_size"}
    m.loop_lb = Out("src_loop_lb_search", "Q", [("os_lb", "Q"), ("search_mesh_size", "Q")], blk=blk2, var="lb_search", cut=cutm,
                    doc="optimize(), head of the loop: optim_state['lb_search'] via _update_search_bounds_()")
    m.loop_ub = Out("src_loop_ub_search", "Q", [("os_ub", "Q"), ("search_mesh_size", "Q")], blk=blk2, var="ub_search", cut=cutm,
                    doc="optimize(), head of the loop: optim_state['ub_search'] via _update_search_bounds_()")
    SIp = [("sloppy_improvement", "B"), ("tol_improvement", "R"), ("mesh_size", "R"), ("forcing_exponent", "R"), ("tol_fun", "R")]
    m.loop_si = Out("src_loop_sufficient_improvement", "R", SIp, blk=blk2, var="search_sufficient_improvement",
                    cut={"self_mesh_size": "mesh_size"},
                    doc="optimize(), head of the loop: self.sufficient_improvement = optim_state['search_sufficient_improvement'] "
                        "(mesh_size = self.mesh_size of this iteration)")
    m.loop_si_self = Out("src_loop_self_sufficient_improvement", "R", SIp, blk=blk2, var="sufficient_improvement",
                         cut={"self_mesh_size": "mesh_size"}, doc="self.sufficient_improvement (what the poll step compares with)")
    # the termination test (after the search / poll steps of the iteration): read on its own, both operands are inputs
    st = wb[stop[0]]
    bstop = Block(Spec("optimize/tol_mesh test", tracked={}, inputs={"os:mesh_size": ("mesh_size", SC), "os:tol_mesh": ("tol_mesh_state", SC)}))
    ir = tr_cmp(st.test, bstop)
    if not (any(same(s, "is_finished = True") for s in st.body) and not st.orelse
            and any(isinstance(s, ast.Assign) and dotted(s.targets[0]) == "msg" and isinstance(s.value, ast.Constant)
                    and "tol_mesh" in str(s.value.value) for s in st.body)):
        bad("optimize(): the tol_mesh test does not set is_finished and the tol_mesh message", st)
    m.loop_stop = Out("src_loop_tolmesh_stop", "B", [("mesh_size", "Q"), ("tol_mesh_state", "Q")], blk=bstop, ir=ir,
                      doc="optimize(): the run is declared finished by the mesh tolerance iff this holds "
                          "(mesh_size = optim_state['mesh_size'], tol_mesh_state = optim_state['tol_mesh'], the snapped tolerance)")
    m.loop_stop_stmt = st
    outs += [m.loop_mesh, m.loop_ks, m.loop_smesh, m.loop_lb, m.loop_ub, m.loop_si, m.loop_si_self, m.loop_stop]

    # ----------------------------------------------------------------- _poll_step_: exponent of the search mesh, mesh size after the poll
    poll = find_fn(cbody, "_poll_step_", "BADS")
    pb = body_wo_doc(poll)
    upd = [s for s in ast.walk(poll) if isinstance(s, ast.Assign) and len(s.targets) == 1 and place(s.targets[0]) == "os:search_size_integer"]
    if len(upd) != 1:
        bad(f"_poll_step_: optim_state['search_size_integer'] assigned {len(upd)} times, expected once")
    sp = Spec("_poll_step_",
              tracked={"os:search_size_integer": ("search_size_integer", SC), "self:mesh_size": ("self_mesh_size", SC), "os:mesh_size": ("mesh_size", SC)},
              inputs={"self:mesh_size_integer": ("mesh_size_integer", SC), "opt:poll_mesh_multiplier": ("poll_mesh_multiplier", SC),
                      "opt:search_grid_multiplier": ("search_grid_multiplier", SC), "opt:search_grid_number": ("search_grid_number", SC)})
    blk = Block(sp)
    blk.define("search_size_integer", ("par", "search_size_integer_in"), None)
    ir, _ = tr(upd[0].value, blk)
    blk.define("search_size_integer", ir, upd[0])
    # the failed-poll arm: `if certain_good_poll: ... else: <...; the update>` — the update must be in the else arm, at its top level
    arms = [s for s in pb if isinstance(s, ast.If) and same(s.test, "certain_good_poll")]
    if len(arms) != 1 or not any(s is upd[0] for s in arms[0].orelse):
        bad("_poll_step_: the search_size_integer update is not a top-level statement of the failed-poll arm")
    if "os:search_size_integer" in [p for s in arms[0].body for p in written_places(s)]:
        bad("_poll_step_: the successful-poll arm writes search_size_integer")
    after = [s for s in pb[pb.index(arms[0]) + 1:]]
    ms = [s for s in after if isinstance(s, ast.Assign) and len(s.targets) == 1 and place(s.targets[0]) in ("self:mesh_size", "os:mesh_size")]
    wr = [p for s in after for p in written_places(s)]
    if len(ms) != 2 or wr.count("self:mesh_size") != 1 or wr.count("os:mesh_size") != 1 or "self:mesh_size_integer" in wr:
        bad("_poll_step_: mesh_size is not recomputed exactly once after the exponent update")
    for s in ms:
        ir, _ = tr(s.value, blk)
        blk.define(sp.tracked[place(s.targets[0])][0], ir, s)
    m.poll = blk
    m.poll_ks = Out("src_poll_search_size_integer", "Z", [("search_size_integer_in", "Z")] + Zk, blk=blk, var="search_size_integer",
                    doc="_poll_step_, failed poll: optim_state['search_size_integer'] (mesh_size_integer = the exponent AFTER its decrement)")
    m.poll_mesh = Out("src_poll_mesh_size", "Q", [("poll_mesh_multiplier", "Q"), ("mesh_size_integer", "Z")], blk=blk, var="mesh_size",
                      doc="_poll_step_, end: optim_state['mesh_size']")
    outs += [m.poll_ks, m.poll_mesh]

    # ----------------------------------------------------------------- _eval_improvement_
    ei = find_fn(cbody, "_eval_improvement_", "BADS")
    plain_args(ei, ["self", "f_base", "f_new", "s_base", "s_new", "q"])
    eb = body_wo_doc(ei)
    if not (len(eb) == 2 and isinstance(eb[0], ast.If) and same(eb[0].test, "s_base is None or s_new is None")
            and eb[0].orelse and same(eb[1], "return z")):
        bad("_eval_improvement_: body is not `if s_base is None or s_new is None: ... else: ...; return z`", ei)
    tracked = {"loc:z": ("z", OS), "loc:mu": ("mu", OS), "loc:sigma": ("sigma", OS), "loc:x0": ("x0", SC)}
    inputs = {"loc:f_base": ("f_base", OS), "loc:f_new": ("f_new", OS), "loc:s_base": ("s_base", OS), "loc:s_new": ("s_new", OS), "loc:q": ("q", SC)}
    b1 = walk_region(eb[0].body, Spec("_eval_improvement_/no-SD", tracked, inputs))
    b2 = walk_region(eb[0].orelse, Spec("_eval_improvement_/SD", tracked, inputs))
    for b in (b1, b2):
        if len(b.stmts) != len([1 for s in b.stmts if any(st is s for _, _, _, st in b.defs)]):
            bad("_eval_improvement_: an arm contains a statement that is not an assignment to mu / sigma / x0 / z")
    m.impr1, m.impr2 = b1, b2
    m.impr_none = Out("src_impr_none", "Q", [("f_base", "Q"), ("f_new", "Q")], blk=b1, var="z",
                      doc="_eval_improvement_, arm `s_base is None or s_new is None` (exact value; binary64 rounds the difference, its sign is exact)")
    m.impr_none_r = Out("src_impr_none_R", "R", [("f_base", "R"), ("f_new", "R")], blk=b1, var="z", doc="the same arm over R")
    m.impr_sd = Out("src_impr_sd", "R", [("erfcinv", "F"), ("f_base", "R"), ("f_new", "R"), ("s_base", "R"), ("s_new", "R"), ("q", "R")],
                    blk=b2, var="z", doc="_eval_improvement_, arm with SDs; erfcinv (scipy.special) is an uninterpreted function")
    outs += [m.impr_none, m.impr_none_r, m.impr_sd]

    # ================================================================= constraints_check.py: the rounding key
    cmod = parse_quiet(texts[REL_CC])
    cc = find_fn(cmod.body, "contraints_check", REL_CC)
    guard = [s for s in body_wo_doc(cc) if isinstance(s, ast.If) and same(s.test, "U_new.size > 0")]
    if len(guard) != 1 or guard[0].orelse:
        bad("contraints_check: `if U_new.size > 0:` not found exactly once")
    sp = Spec("contraints_check",
              tracked={"loc:tol": ("tol", SC), "loc:u1": ("u1", OS), "loc:u2": ("u2", OS)},
              inputs={"loc:tol_mesh": ("tol_mesh", SC), "loc:U_new": ("x", OS)},
              input_exprs={"function_logger.X[: X_max_idx + 1]": ("x", OS)})
    gb = guard[0].body
    region = [s for s in gb if isinstance(s, ast.Assign) and len(s.targets) == 1 and place(s.targets[0]) in sp.tracked]
    if [place(s.targets[0]) for s in region] != ["loc:tol", "loc:u1", "loc:u2"]:
        bad("contraints_check: expected `tol = ...; u1 = ...; u2 = ...` under the size guard")
    for s in gb:
        if s not in region and any(p in sp.tracked for p in written_places(s)):
            bad("contraints_check: tol / u1 / u2 written a second time", s)
    if not any(same(s, "tmp_u = np.vstack((u1, u2))") for s in gb):
        bad("contraints_check: the rounded candidates and the rounded log are not stacked as np.vstack((u1, u2))")
    blk = walk_region(region, sp)
    m.cc = blk
    m.cc_tol = Out("src_cc_tol", "Q", [("tol_mesh", "Q")], blk=blk, var="tol", doc="contraints_check: tol")
    m.cc_key1 = Out("src_cc_key_candidate", "Q", [("x", "Q"), ("tol_mesh", "Q")], blk=blk, var="u1",
                    doc="contraints_check: u1 (rounded candidate coordinate, x = a coordinate of U_new)")
    m.cc_key2 = Out("src_cc_key_logged", "Q", [("x", "Q"), ("tol_mesh", "Q")], blk=blk, var="u2",
                    doc="contraints_check: u2 (rounded logged coordinate, x = a coordinate of function_logger.X[:X_max_idx+1])")
    outs += [m.cc_tol, m.cc_key1, m.cc_key2]

    m.outs = outs
    m.by_name = {o.name: o for o in outs}
    return m


# --------------------------------------------------------------------------- Gallina text

PRELUDE = r"""From Coq Require Import ZArith QArith Qround Bool Reals.

(* ---- NumPy primitives (fixed text; harness/comp_grid.py compares them with NumPy on every run) ---- *)
(* a < b on finite binary64 values *)
Definition Qltb (a b : Q) : bool := negb (Qle_bool b a).
(* np.round: nearest integer, ties to even *)
Definition np_round (x : Q) : Z :=
  let f := Qfloor x in
  match Qcompare (x - inject_Z f) (1 # 2) with
  | Lt => f
  | Gt => (f + 1)%Z
  | Eq => if Z.even f then f else (f + 1)%Z
  end.
(* np.ceil: least integer >= x   (Coq's [up x] is the least integer > x) *)
Definition np_ceil (x : R) : Z := (1 - up (- x))%Z.
"""


def render(m: Model) -> str:
    L = ["(* GENERATED on every run by translate/grid.py - do not edit, not committed.",
         f"   sources: {REL_GRID}, {REL_BADS}, {REL_CC}   sha256[:16]={m.sha}",
         "   Per-coordinate reading of the NumPy statements (see the header of translate/grid.py for the mask rule).",
         f"   force_to_grid is called at {m.ftg_calls} sites, always as force_to_grid(x, search_mesh_size). *)",
         PRELUDE]
    for o in m.outs:
        L.append(("Open Scope R_scope.\n" if o.sort == "R" else "Open Scope Q_scope.\n") + Printer(o).definition()
                 + ("\nClose Scope R_scope." if o.sort == "R" else "\nClose Scope Q_scope.") + "\n")
    return "\n".join(L)


def emit():
    try:
        m = load()
        text = render(m)
    except Exception as ex:
        core.write_if_changed(OUT, "(* translate/grid.py could not translate the current source:\n   %s *)\n"
                              % str(ex).replace("*)", "* )").replace("(*", "( *"))
        raise
    changed = core.write_if_changed(OUT, text)
    return dict(source_sha=m.sha, out=str(OUT.relative_to(core.VERIF)), changed=changed,
                definitions=[o.name for o in m.outs], force_to_grid_call_sites=m.ftg_calls)


if __name__ == "__main__":
    print(emit())
    print(OUT.read_text())
