"""Fail-closed translator: the two retry controllers of pybads/bads/gaussian_process_train.py -> coq/gen/Src_fitretry.v
    _robust_gp_fit_      ->  src_robust : robust_src     (Model/FitRetrySrc.v says what it means)
    init_and_train_gp    ->  src_init   : init_src       (the `while not fitted` loop)
Re-read on every ./check C16 from VERIF_REPO (default /repo); nothing is located by line number.  Anything outside the
shapes listed here raises Untranslatable; emit() then replaces the generated file by a comment, so Props/C16src.v stops
building as well.
_robust_gp_fit_(gp, x_train, y_train, s2_train, hyp_gp, gp_train, optim_state, options)   [parameters by POSITION]
  prologue (statements before the one `for`):
    X = <x_train>.copy()  /  Y = <y_train>.copy()                                 -> roles VX / VY
    if <s2_train> is not None: S = <s2_train> if np.isscalar(<s2_train>) else <s2_train>.copy()  else: S = None   -> role VS2
    F = np.ones((N)).astype(bool) | np.ones(N, dtype=bool) | np.zeros likewise    -> rs_flag_init (N = the loop bound)
    anything else: canonical text in rs_prologue (`n = <int literal>` also defines the constant n)
  for I in range(N) | range(0, N):  body = ONE try, one handler, no else / finally; no else on the for
    try:   H, _, R = <recv>.fit(a1, a2, a3, kw...) ; [break]                       -> rs_fit_recv, rs_fit_args (roles), rs_fit_kw, rs_try_breaks
    except <C> | (<C1>, ...):                                                     -> rs_caught (last component of each dotted name)
      logging.* / logger.* calls                                                  skipped
      F[I] = True|False                                                           -> HFlag
      if <zcond over I, options["key"], int literals, + ->:                        -> HDropIf cond mask stores, the block being EXACTLY
          M = np.zeros(len(V)).astype(bool) | np.zeros(len(V), dtype=bool)
          Dm = cdist(A, B); Dm[np.tril_indices(Dm.shape[0])] = np.inf
          P = np.unravel_index(np.argmin(Dm, axis=None), Dm.shape)
          if V[P[l]] <op> V[P[r]]: M[P[t]] = True  else: M[P[e]] = True
          M = np.logical_or(M, (V <op> np.percentile(V, q)).flatten())
          then only masked stores   T = T[~M] | T[M]   /   if <guard on T>: T = T[~M]      (T: VX VY VS2, tmp_gp.s2 -> VTmp; source = target)
             and whole-array copies   tmp_gp.X = X  /  tmp_gp.y = Y   (-> (VGpX, g, MCopy VX), (VGpY, g, MCopy VY); position in the tuple = position
             in the source: a copy placed BEFORE the masked store of its source stores the untrimmed array)
             guard ::= T is not None | not np.isscalar(T) | T.size > 0 | g and g
      any other statement: canonical text HPin, in its position; it must not mention a tracked name or `.s2`
  epilogue:  if <np.any/np.all of F or ~F>: <only logging> (skipped) | <anything else> (text in rs_epilogue)
             if <c>: S = <int> elif <c>: S = <int> else: S = <int>                 -> rs_success, rs_success_else
             return a, b, c, d  (names; roles gp / new_hyp / res / success)       -> rs_return
  Normalised (behaviour-preserving): locals renamed (roles by binding, canonical numbering v<k> in texts), `a > b` -> ZLt b a,
  `a >= b` -> ZLe b a, range(0, N) = range(N), np.ones((N)).astype(bool) = np.ones(N, dtype=bool).
  CENSUS: every occurrence of a tracked local (X, Y, S, F, I, M, Dm, P, R, the success name, the loop bound), of an attribute `.s2`
  and every call of a method `fit` inside the function must lie in a statement recognised above; no decorator, no nested def / lambda /
  comprehension / global / nonlocal / walrus / del / with / while in the function; the module defines the function exactly once and never
  assigns its name.
init_and_train_gp: the ONE top-level `while`:
    <F> = False ; <TF> = <int>                     (the last top-level assignments before the loop; no other store outside the loop)
    while not <F>:  body = ONE try / one handler
      try: if <TF> == c: ARM elif ...: ARM else: ARM
         ARM ::= [N = np.zeros(shape=<H>.shape) | N = _get_random_samples_from_priors_(gp)]
                 _, _, _ = gp.fit(a1, a2, a3, hyp0=<H | N>, options=...)          -> ia_start, ia_fit_args
                 <other statements: canonical text>  with  <F> = True among them    -> ia_sets_fitted, ia_after
      except <C>:  <TF> += k ; logging                                              -> is_caught, is_inc
"""
from __future__ import annotations
import ast
import copy
import json
import sys
from pathlib import Path
from vlib import core
REL = "pybads/bads/gaussian_process_train.py"
OUT = core.GEN / "Src_fitretry.v"
REFERENCE = Path(__file__).resolve().parent / "fitretry_reference.json"
MARK = "Definition src_robust"
LOGGERS = {"logging", "logger"}
LOG_METHODS = {"debug", "info", "warning", "warn", "error", "critical"}

class Untranslatable(Exception):
    def __init__(self, msg, node=None, region=None):
        where = f"{REL}:{getattr(node, 'lineno', '?')}: " if node is not None else f"{REL}: "
        tail = ""
        if isinstance(node, ast.AST):
            try:
                tail = " :: " + ast.unparse(node)[:160].replace("\n", " ")
            except Exception:
                tail = ""
        super().__init__(f"[{region or 'fitretry'}] {where}{msg}{tail}")
        self.region = region

def bad(msg, node=None, region=None):
    raise Untranslatable(msg, node, region)

# ----------------------------------------------------------------------------- small helpers
def dotted(n):
    if isinstance(n, ast.Name):
        return n.id
    if isinstance(n, ast.Attribute):
        b = dotted(n.value)
        return None if b is None else b + "." + n.attr
    return None

def is_np(n, name):
    return dotted(n) == "np." + name

def is_name(n, ident=None):
    return isinstance(n, ast.Name) and (ident is None or n.id == ident)

def int_const(n):
    if isinstance(n, ast.Constant) and type(n.value) is int:
        return n.value
    if isinstance(n, ast.UnaryOp) and isinstance(n.op, ast.USub) and isinstance(n.operand, ast.Constant) and type(n.operand.value) is int:
        return -n.operand.value
    return None

def is_log_stmt(s):
    if not (isinstance(s, ast.Expr) and isinstance(s.value, ast.Call)):
        return False
    f = s.value.func
    if not (isinstance(f, ast.Attribute) and isinstance(f.value, ast.Name) and f.value.id in LOGGERS and f.attr in LOG_METHODS):
        return False
    for n in ast.walk(s.value):
        if isinstance(n, (ast.Call,)) and n is not s.value:
            if dotted(n.func) not in ("traceback.format_exc",):
                return False
        if isinstance(n, (ast.NamedExpr, ast.Await, ast.Yield, ast.YieldFrom, ast.Lambda)):
            return False
    return True

def only_logs(stmts):
    for s in stmts:
        if is_log_stmt(s) or isinstance(s, ast.Pass):
            continue
        if isinstance(s, ast.If) and not any(isinstance(n, ast.Call) for n in ast.walk(s.test)) \
                and only_logs(s.body) and only_logs(s.orelse):
            continue
        return False
    return True

def cstr(s):
    return '"' + s.replace('"', '""') + '"'

def clist(xs):
    return "[" + "; ".join(xs) + "]"

FORBIDDEN_NODES = (ast.FunctionDef, ast.AsyncFunctionDef, ast.ClassDef, ast.Lambda, ast.ListComp, ast.SetComp, ast.DictComp, ast.GeneratorExp,
                   ast.Global, ast.Nonlocal, ast.NamedExpr, ast.Delete, ast.With, ast.AsyncWith, ast.Await, ast.Yield, ast.YieldFrom,
                   ast.Match, ast.AsyncFor)

class Canon:
    """canonical names for the locals of a region: v<k> in order of first occurrence (source order); parameters a<k> by position"""
    def __init__(self, params, locals_, order_nodes):
        self.map = {p: f"a{i}" for i, p in enumerate(params)}
        k = 0
        for node in order_nodes:
            for n in self._names_in_order(node):
                if n in locals_ and n not in self.map:
                    self.map[n] = f"v{k}"
                    k += 1
    @staticmethod
    def _names_in_order(node):
        out = []
        class V(ast.NodeVisitor):
            def visit_Name(self, n):
                out.append(n.id)
            def visit_arg(self, n):
                out.append(n.arg)
        V().visit(node)
        return out
    def text(self, node):
        m = self.map
        node = copy.deepcopy(node)
        for n in ast.walk(node):
            if isinstance(n, ast.Name) and n.id in m:
                n.id = m[n.id]
        out = []
        for line in ast.unparse(node).split("\n"):
            body = line.lstrip(" ")
            out.append(">" * ((len(line) - len(body)) // 4) + " ".join(body.split()))
        return " ;; ".join(out)

def stored_names(fn):
    out = set()
    for n in ast.walk(fn):
        if isinstance(n, ast.Name) and isinstance(n.ctx, (ast.Store, ast.Del)):
            out.add(n.id)
        if isinstance(n, ast.ExceptHandler) and n.name:
            out.add(n.name)
    return out

def find_function(tree, name):
    fns = [n for n in ast.walk(tree) if isinstance(n, (ast.FunctionDef, ast.AsyncFunctionDef)) and n.name == name]
    top = [n for n in tree.body if isinstance(n, ast.FunctionDef) and n.name == name]
    if len(fns) != 1 or len(top) != 1:
        bad(f"function {name} is not defined exactly once at module level", None, "census")
    fn = top[0]
    if fn.decorator_list:
        bad(f"{name} is decorated", fn, "census")
    for n in ast.walk(tree):
        if isinstance(n, ast.Name) and n.id == name and isinstance(n.ctx, (ast.Store, ast.Del)):
            bad(f"the name {name} is assigned", n, "census")
        if isinstance(n, ast.Attribute) and n.attr == name and isinstance(n.ctx, (ast.Store, ast.Del)):
            bad(f"the attribute {name} is assigned", n, "census")
        if isinstance(n, ast.Call) and dotted(n.func) in ("setattr", "exec", "eval") :
            bad("setattr / exec / eval in the module", n, "census")
    a = fn.args
    if a.vararg or a.kwarg or a.kwonlyargs or a.posonlyargs or a.defaults or a.kw_defaults:
        if name == "_robust_gp_fit_":
            bad("signature has defaults / varargs", fn, "census")
    for n in ast.walk(fn):
        if n is not fn and isinstance(n, FORBIDDEN_NODES):
            bad(f"construct outside the whitelist in {name}: {type(n).__name__}", n, "census")
    return fn

def body_without_doc(fn):
    body = list(fn.body)
    if body and isinstance(body[0], ast.Expr) and isinstance(body[0].value, ast.Constant) and isinstance(body[0].value.value, str):
        body = body[1:]
    return body

def exc_classes(h, region):
    t = h.type
    if t is None:
        bad("bare except", h, region)
    elts = t.elts if isinstance(t, ast.Tuple) else [t]
    out = []
    for e in elts:
        d = dotted(e)
        if d is None:
            bad("exception class is not a dotted name", e, region)
        out.append(d.split(".")[-1])
    return out

# ----------------------------------------------------------------------------- _robust_gp_fit_
AVAR = {"VX", "VY", "VS2", "VTmp", "VGpX", "VGpY"}
GP_ATTR = {"s2": "VTmp", "X": "VGpX", "y": "VGpY"}        # the training set stored ON the object whose fit is called

class Robust:
    def __init__(self, fn):
        self.fn = fn
        self.params = [a.arg for a in fn.args.args]
        if len(self.params) != 8:
            bad(f"_robust_gp_fit_ has {len(self.params)} parameters, 8 expected", fn, "census")
        self.P = {n: i for i, n in enumerate(self.params)}
        self.locals = stored_names(fn) | set(self.params)
        for p in self.params:
            if p in stored_names(fn):
                bad(f"parameter {p} is reassigned", fn, "census")
        self.canon = Canon(self.params, self.locals, [fn])
        self.roles = {}          # local name -> role
        self.consts = {}         # local name -> int
        self.claimed = set()
        self.recv = None
        self.out = {}
    # -- roles
    def claim(self, node):
        for n in ast.walk(node):
            self.claimed.add(id(n))
    def role(self, n):
        """avar of an expression: a tracked local or <recv>.s2"""
        if isinstance(n, ast.Name) and self.roles.get(n.id) in AVAR:
            return self.roles[n.id]
        if isinstance(n, ast.Attribute) and n.attr in GP_ATTR and isinstance(n.value, ast.Name) and n.value.id == self.recv:
            return GP_ATTR[n.attr]
        return None
    def set_role(self, name, role, node):
        if name in self.roles and self.roles[name] != role:
            bad(f"local {name} has two roles ({self.roles[name]}, {role})", node, "roles")
        if name in self.P:
            bad(f"parameter {name} used as a local", node, "roles")
        for k, v in self.roles.items():
            if v == role and k != name and role not in ("CONST",):
                bad(f"role {role} bound to two names ({k}, {name})", node, "roles")
        self.roles[name] = role
    def param_ix(self, n):
        return self.P.get(n.id) if isinstance(n, ast.Name) else None
    # -- prologue
    def prologue(self, stmts):
        pins = []
        flag_init = None
        for s in stmts:
            # X = <param>.copy()
            if (isinstance(s, ast.Assign) and len(s.targets) == 1 and is_name(s.targets[0]) and isinstance(s.value, ast.Call)
                    and isinstance(s.value.func, ast.Attribute) and s.value.func.attr == "copy" and not s.value.args and not s.value.keywords
                    and self.param_ix(s.value.func.value) in (1, 2)):
                self.set_role(s.targets[0].id, "VX" if self.param_ix(s.value.func.value) == 1 else "VY", s)
                self.claim(s)
                continue
            # the s2 block
            if isinstance(s, ast.If) and self._s2_block(s):
                self.claim(s)
                continue
            # F = np.ones((N)).astype(bool) | np.ones(N, dtype=bool)
            fi = self._flag_init(s)
            if fi is not None:
                flag_init = fi
                self.claim(s)
                continue
            if isinstance(s, ast.Assign) and len(s.targets) == 1 and is_name(s.targets[0]) and int_const(s.value) is not None:
                self.consts[s.targets[0].id] = (int_const(s.value), s)
            if not isinstance(s, (ast.Assign, ast.Expr)):
                bad("prologue statement outside the whitelist", s, "prologue")
            pins.append(s)
        return pins, flag_init
    def _s2_block(self, s):
        t = s.test
        if not (isinstance(t, ast.Compare) and len(t.ops) == 1 and isinstance(t.ops[0], ast.IsNot) and self.param_ix(t.left) == 3
                and isinstance(t.comparators[0], ast.Constant) and t.comparators[0].value is None):
            return False
        if len(s.body) != 1 or len(s.orelse) != 1:
            bad("the s2 copy block has more than one statement per arm", s, "prologue")
        a, b = s.body[0], s.orelse[0]
        ok = (isinstance(a, ast.Assign) and len(a.targets) == 1 and is_name(a.targets[0]) and isinstance(a.value, ast.IfExp)
              and self.param_ix(a.value.body) == 3
              and isinstance(a.value.test, ast.Call) and is_np(a.value.test.func, "isscalar") and len(a.value.test.args) == 1
              and self.param_ix(a.value.test.args[0]) == 3 and not a.value.test.keywords
              and isinstance(a.value.orelse, ast.Call) and isinstance(a.value.orelse.func, ast.Attribute) and a.value.orelse.func.attr == "copy"
              and self.param_ix(a.value.orelse.func.value) == 3 and not a.value.orelse.args
              and isinstance(b, ast.Assign) and len(b.targets) == 1 and is_name(b.targets[0], a.targets[0].id)
              and isinstance(b.value, ast.Constant) and b.value.value is None)
        if not ok:
            bad("the s2 copy block is not `S = s2_train if np.isscalar(s2_train) else s2_train.copy()` / `S = None`", s, "prologue")
        self.set_role(a.targets[0].id, "VS2", s)
        return True
    def _flag_init(self, s):
        if not (isinstance(s, ast.Assign) and len(s.targets) == 1 and is_name(s.targets[0]) and isinstance(s.value, ast.Call)):
            return None
        v = s.value
        inner = None
        if isinstance(v.func, ast.Attribute) and v.func.attr == "astype" and len(v.args) == 1 and is_name(v.args[0], "bool") and not v.keywords \
                and isinstance(v.func.value, ast.Call) and len(v.func.value.args) == 1 and not v.func.value.keywords:
            inner = v.func.value
        elif len(v.args) == 1 and len(v.keywords) == 1 and v.keywords[0].arg == "dtype" and is_name(v.keywords[0].value, "bool"):
            inner = v
        if inner is None or not (is_np(inner.func, "ones") or is_np(inner.func, "zeros")):
            return None
        n = inner.args[0]
        if not (is_name(n) and n.id in self.consts):
            return None
        self.set_role(s.targets[0].id, "FLAG", s)
        self.flag_len_name = n.id
        return is_np(inner.func, "ones")
    # -- integer expressions
    def zexpr(self, n):
        if is_name(n) and self.roles.get(n.id) == "ITRY":
            return "ZItry"
        c = int_const(n)
        if c is not None:
            return f"(ZConst ({c}))" if c < 0 else f"(ZConst {c})"
        if isinstance(n, ast.Subscript) and self.param_ix(n.value) == 7 and isinstance(n.slice, ast.Constant) and isinstance(n.slice.value, str):
            return f"(ZOpt {cstr(n.slice.value)})"
        if isinstance(n, ast.BinOp) and isinstance(n.op, (ast.Add, ast.Sub)):
            return f"({'ZAdd' if isinstance(n.op, ast.Add) else 'ZSub'} {self.zexpr(n.left)} {self.zexpr(n.right)})"
        bad("integer expression outside the grammar", n, "drop-guard")
    def zcond(self, t):
        if not (isinstance(t, ast.Compare) and len(t.ops) == 1):
            bad("drop guard is not a single comparison", t, "drop-guard")
        a, b = self.zexpr(t.left), self.zexpr(t.comparators[0])
        op = t.ops[0]
        if isinstance(op, ast.Gt):
            return f"(ZLt {b} {a})"
        if isinstance(op, ast.GtE):
            return f"(ZLe {b} {a})"
        if isinstance(op, ast.Lt):
            return f"(ZLt {a} {b})"
        if isinstance(op, ast.LtE):
            return f"(ZLe {a} {b})"
        bad("comparison operator of the drop guard outside the grammar", t, "drop-guard")
    def mentions_itry(self, t):
        return any(is_name(n) and self.roles.get(n.id) == "ITRY" for n in ast.walk(t))
    # -- the drop block
    def cmp_norm(self, op, node):
        """-> (tag, swapped)"""
        if isinstance(op, ast.Gt):
            return "Lt", True
        if isinstance(op, ast.GtE):
            return "Le", True
        if isinstance(op, ast.Lt):
            return "Lt", False
        if isinstance(op, ast.LtE):
            return "Le", False
        bad("comparison operator outside the grammar", node, "drop-mask")
    def bool_alloc(self, v):
        """np.zeros(len(V)).astype(bool) | np.zeros(len(V), dtype=bool) -> role of V"""
        inner = None
        if isinstance(v, ast.Call) and isinstance(v.func, ast.Attribute) and v.func.attr == "astype" and len(v.args) == 1 \
                and is_name(v.args[0], "bool") and not v.keywords and isinstance(v.func.value, ast.Call) \
                and len(v.func.value.args) == 1 and not v.func.value.keywords:
            inner = v.func.value
        elif isinstance(v, ast.Call) and len(v.args) == 1 and len(v.keywords) == 1 and v.keywords[0].arg == "dtype" \
                and is_name(v.keywords[0].value, "bool"):
            inner = v
        if inner is None or not is_np(inner.func, "zeros"):
            return None
        a = inner.args[0]
        if isinstance(a, ast.Call) and is_name(a.func, "len") and len(a.args) == 1 and not a.keywords and self.role(a.args[0]):
            return self.role(a.args[0])
        return None
    def pair_ix(self, n, pname):
        """P[k] -> k"""
        if isinstance(n, ast.Subscript) and is_name(n.value, pname) and isinstance(n.slice, ast.Constant) and type(n.slice.value) is int \
                and n.slice.value >= 0:
            return n.slice.value
        return None
    def drop_block(self, s):
        R = "drop-mask"
        if s.orelse:
            bad("the drop step has an else arm", s, R)
        cond = self.zcond(s.test)
        st = list(s.body)
        if len(st) < 6:
            bad("the drop block is shorter than the mask construction", s, R)
        # a. M = zeros(len(V))
        a = st[0]
        if not (isinstance(a, ast.Assign) and len(a.targets) == 1 and is_name(a.targets[0]) and self.bool_alloc(a.value)):
            bad("first statement of the drop block is not M = np.zeros(len(V)).astype(bool)", a, R)
        M = a.targets[0].id
        self.set_role(M, "MASK", a)
        mk_len = self.bool_alloc(a.value)
        # b. Dm = cdist(A, B)
        b = st[1]
        if not (isinstance(b, ast.Assign) and len(b.targets) == 1 and is_name(b.targets[0]) and isinstance(b.value, ast.Call)
                and is_name(b.value.func, "cdist") and len(b.value.args) == 2 and not b.value.keywords
                and all(self.role(x) for x in b.value.args)):
            bad("second statement of the drop block is not Dm = cdist(A, B) of tracked arrays", b, R)
        Dm = b.targets[0].id
        self.set_role(Dm, "DIST", b)
        pair = (self.role(b.value.args[0]), self.role(b.value.args[1]))
        if "cdist" in self.locals:
            bad("cdist is a local name", b, R)
        # c. Dm[np.tril_indices(Dm.shape[0])] = np.inf
        c = st[2]
        want = f"{Dm}[np.tril_indices({Dm}.shape[0])] = np.inf"
        if " ".join(ast.unparse(c).split()) != want:
            bad(f"third statement of the drop block is not `{want}`", c, R)
        # d. P = np.unravel_index(np.argmin(Dm, axis=None), Dm.shape)
        d = st[3]
        if not (isinstance(d, ast.Assign) and len(d.targets) == 1 and is_name(d.targets[0])):
            bad("fourth statement of the drop block does not bind the closest pair", d, R)
        Pn = d.targets[0].id
        wants = [f"{Pn} = np.unravel_index(np.argmin({Dm}, axis=None), {Dm}.shape)", f"{Pn} = np.unravel_index(np.argmin({Dm}), {Dm}.shape)"]
        if " ".join(ast.unparse(d).split()) not in wants:
            bad(f"fourth statement of the drop block is not `{wants[0]}`", d, R)
        self.set_role(Pn, "PAIR", d)
        # e. if V[P[l]] op V[P[r]]: M[P[t]] = True else: M[P[e]] = True
        e = st[4]
        ok = isinstance(e, ast.If) and len(e.body) == 1 and len(e.orelse) == 1 and isinstance(e.test, ast.Compare) and len(e.test.ops) == 1
        if not ok:
            bad("fifth statement of the drop block is not the if/else marking one member of the closest pair", e, R)
        lhs, rhs = e.test.left, e.test.comparators[0]
        def elem(n):
            if isinstance(n, ast.Subscript) and self.role(n.value) and self.pair_ix(n.slice, Pn) is not None:
                return self.role(n.value), self.pair_ix(n.slice, Pn)
            bad("operand of the closest-pair test is not V[P[k]]", n, R)
        (v1, l), (v2, r) = elem(lhs), elem(rhs)
        if v1 != v2:
            bad("the closest-pair test compares two different arrays", e, R)
        tag, sw = self.cmp_norm(e.test.ops[0], e)
        if sw:
            l, r = r, l
        def mark(x):
            if isinstance(x, ast.Assign) and len(x.targets) == 1 and isinstance(x.targets[0], ast.Subscript) and is_name(x.targets[0].value, M) \
                    and self.pair_ix(x.targets[0].slice, Pn) is not None and isinstance(x.value, ast.Constant) and x.value.value is True:
                return self.pair_ix(x.targets[0].slice, Pn)
            bad("arm of the closest-pair test is not M[P[k]] = True", x, R)
        t_, e_ = mark(e.body[0]), mark(e.orelse[0])
        worse = f"({cstr(tag)}, {l}%nat, {r}%nat, {v1}, {t_}%nat, {e_}%nat)"
        # f. M = np.logical_or(M, (V op np.percentile(V, q)).flatten())
        f = st[5]
        ok = (isinstance(f, ast.Assign) and len(f.targets) == 1 and is_name(f.targets[0], M) and isinstance(f.value, ast.Call)
              and is_np(f.value.func, "logical_or") and len(f.value.args) == 2 and not f.value.keywords)
        if not ok:
            bad("sixth statement of the drop block is not M = np.logical_or(M, ...)", f, R)
        x1, x2 = f.value.args
        if is_name(x2, M):
            x1, x2 = x2, x1              # logical_or is symmetric
        if not is_name(x1, M):
            bad("np.logical_or does not extend the mask M", f, R)
        ok = (isinstance(x2, ast.Call) and isinstance(x2.func, ast.Attribute) and x2.func.attr == "flatten" and not x2.args and not x2.keywords
              and isinstance(x2.func.value, ast.Compare) and len(x2.func.value.ops) == 1)
        if not ok:
            bad("second operand of np.logical_or is not (V op np.percentile(V, q)).flatten()", f, R)
        cmpn = x2.func.value
        lo, ro = cmpn.left, cmpn.comparators[0]
        def pct(n):
            if isinstance(n, ast.Call) and is_np(n.func, "percentile") and len(n.args) == 2 and not n.keywords and self.role(n.args[0]) \
                    and int_const(n.args[1]) is not None:
                return self.role(n.args[0]), int_const(n.args[1])
            return None
        tag2, sw2 = self.cmp_norm(cmpn.ops[0], f)
        if sw2:
            lo, ro = ro, lo
        if pct(lo) and self.role(ro):
            pl, (pv, q), vv = True, pct(lo), self.role(ro)
        elif pct(ro) and self.role(lo):
            pl, (pv, q), vv = False, pct(ro), self.role(lo)
        else:
            bad("the percentile comparison is not V op np.percentile(V, q)", f, R)
        if pv != vv:
            bad("the percentile is taken of another array than the one compared", f, R)
        orr = f"({cstr(tag2)}, {'true' if pl else 'false'}, {vv}, {q})"
        # g. masked stores
        stores = []
        for x in st[6:]:
            stores.append(self.masked_store(x, M))
        if len({s_[0] for s_ in stores}) != len(stores):
            bad("an array is stored twice in the drop block", s, R)
        self.claim(s)
        mask = f"(mkMask {mk_len} ({pair[0]}, {pair[1]}) {worse} {orr})"
        return f"(HDropIf {cond} {mask} {clist(['(%s, %s, %s)' % t for t in stores])})"
    def guard(self, t):
        if isinstance(t, ast.BoolOp) and isinstance(t.op, ast.And):
            g = self.guard(t.values[0])
            for v in t.values[1:]:
                g = f"(GAnd {g} {self.guard(v)})"
            return g
        if isinstance(t, ast.Compare) and len(t.ops) == 1:
            l, op, r = t.left, t.ops[0], t.comparators[0]
            if isinstance(op, ast.IsNot) and isinstance(r, ast.Constant) and r.value is None and self.role(l):
                return f"(GNotNone {self.role(l)})"
            sz = lambda n: self.role(n.value) if isinstance(n, ast.Attribute) and n.attr == "size" else None
            if isinstance(op, ast.Gt) and sz(l) and int_const(r) == 0:
                return f"(GSizePos {sz(l)})"
            if isinstance(op, ast.Lt) and sz(r) and int_const(l) == 0:
                return f"(GSizePos {sz(r)})"
        if isinstance(t, ast.UnaryOp) and isinstance(t.op, ast.Not) and isinstance(t.operand, ast.Call) and is_np(t.operand.func, "isscalar") \
                and len(t.operand.args) == 1 and not t.operand.keywords and self.role(t.operand.args[0]):
            return f"(GNotScalar {self.role(t.operand.args[0])})"
        bad("guard of a masked store outside the grammar", t, "drop-stores")
    def masked_store(self, x, M):
        R = "drop-stores"
        g = "GAlways"
        if isinstance(x, ast.If):
            if x.orelse or len(x.body) != 1:
                bad("guarded masked store with else arm / several statements", x, R)
            g = self.guard(x.test)
            x = x.body[0]
        # tmp_gp.X = X / tmp_gp.y = Y : the whole (already trimmed) local is stored on the GP object
        if (isinstance(x, ast.Assign) and len(x.targets) == 1 and self.role(x.targets[0]) in ("VGpX", "VGpY") and is_name(x.value)
                and self.role(x.value) in ("VX", "VY")):
            return (self.role(x.targets[0]), g, f"(MCopy {self.role(x.value)})")
        if not (isinstance(x, ast.Assign) and len(x.targets) == 1 and self.role(x.targets[0]) and isinstance(x.value, ast.Subscript)):
            bad("statement after the mask construction is not a masked store T = T[~M]", x, R)
        tgt = self.role(x.targets[0])
        if self.role(x.value.value) != tgt:
            bad(f"masked store into {tgt} reads another array than its target", x, R)
        sl = x.value.slice
        if isinstance(sl, ast.UnaryOp) and isinstance(sl.op, ast.Invert) and is_name(sl.operand, M):
            app = "MDrop"
        elif is_name(sl, M):
            app = "MKeep"
        else:
            bad("index of a masked store is not ~M / M", x, R)
        return (tgt, g, app)
    # -- the restart of the hyper-parameters (noise coordinate), extracted IN ADDITION to the pinned texts
    def qx(self, n, env):
        """arithmetic over the scalars of env (list of (ast.dump of the node, constructor)), + and *, numeric literals"""
        d = ast.dump(n)
        for k, tag in env:
            if d == k:
                return tag
        if isinstance(n, ast.Constant) and type(n.value) in (int, float):
            from fractions import Fraction
            fr = Fraction(repr(n.value))
            return f"(QConst ({fr.numerator} # {fr.denominator}))"
        if isinstance(n, ast.BinOp) and isinstance(n.op, (ast.Add, ast.Mult)):
            return f"({'QAdd' if isinstance(n.op, ast.Add) else 'QMul'} {self.qx(n.left, env)} {self.qx(n.right, env)})"
        bad("arithmetic of the restart outside the grammar (+, *, literals over new_hyp / old / noise_nudge / nudge[0] / bound)", n, "restart")

    def restart(self, stmts, H):
        R = "restart"
        L = lambda src: ast.dump(ast.parse(src, mode="eval").body)
        found = {}

        def put(key, i, val):
            if key in found:
                bad(f"the restart has two statements of kind {key}", stmts[i], R)
            found[key] = (i, val)
        nn_names = [k for k, (v, _) in self.consts.items() if v == 0 and k != getattr(self, "ntry_name", None)]
        for i, s in enumerate(stmts):
            # T1 old start point
            if isinstance(s, ast.Assign) and len(s.targets) == 1 and is_name(s.targets[0]) and isinstance(s.value, ast.IfExp):
                hg = self.params[4]
                if ast.dump(s.value) != L(f"{hg}.copy() if len({hg}) == 1 else {hg}[-1].copy()"):
                    bad("the old start point is not `hyp_gp.copy() if len(hyp_gp) == 1 else hyp_gp[-1].copy()`", s, R)
                put("old", i, s.targets[0].id)
            # T2 sampler
            elif isinstance(s, ast.If) and isinstance(s.test, ast.Subscript) and self.param_ix(s.test.value) == 7 \
                    and isinstance(s.test.slice, ast.Constant) and isinstance(s.test.slice.value, str):
                last = s.body[-1] if s.body else None
                ok = (isinstance(last, ast.Assign) and len(last.targets) == 1 and is_name(last.targets[0], H) and isinstance(last.value, ast.Call)
                      and is_name(last.value.func, "_get_samples_from_slice_sampler_")
                      and len(s.orelse) == 1 and isinstance(s.orelse[0], ast.Assign) and len(s.orelse[0].targets) == 1
                      and is_name(s.orelse[0].targets[0], H)
                      and ast.dump(s.orelse[0].value) == L(f"_get_random_samples_from_priors_({self.params[0]})"))
                if not ok:
                    bad("the sampler choice is not `if options[key]: ... new = slice sampler else: new = prior sample`", s, R)
                put("sampler", i, s.test.slice.value)
            # T3 averaging
            elif isinstance(s, ast.If) and ast.dump(s.test) == L(f"{H} is not None"):
                ok = (len(s.body) == 1 and len(s.orelse) == 1 and all(isinstance(x, ast.Assign) and len(x.targets) == 1 and is_name(x.targets[0], H)
                                                                        for x in (s.body[0], s.orelse[0])))
                if not ok:
                    bad("the averaging is not `if new is not None: new = E1 else: new = E2`", s, R)
                put("avg", i, (s.body[0].value, s.orelse[0].value))
            # T4 nudge option
            elif isinstance(s, ast.Assign) and len(s.targets) == 1 and is_name(s.targets[0]) and ast.dump(s.value) == L(f"{self.params[7]}['noise_nudge']"):
                put("nudge", i, s.targets[0].id)
            # T6 accumulation
            elif isinstance(s, ast.Assign) and len(s.targets) == 1 and is_name(s.targets[0]) and s.targets[0].id in nn_names:
                put("nn", i, (s.targets[0].id, s.value))
            # T9 lower bound
            elif isinstance(s, ast.Assign) and len(s.targets) == 1 and is_name(s.targets[0]) and isinstance(s.value, ast.Tuple) and len(s.value.elts) == 2:
                nb = s.targets[0].id
                if ast.dump(s.value.elts[1]) != L(f"{nb}[1]"):
                    bad("the upper noise bound is not kept", s, R)
                put("lb", i, (nb, s.value.elts[0]))
            # T13 start value of the noise
            elif isinstance(s, ast.Assign) and len(s.targets) == 1 and isinstance(s.targets[0], ast.Subscript) \
                    and ast.dump(s.targets[0]).replace("Store()", "Load()") == L(f"{H}[0]['noise_log_scale']"):
                put("noise", i, s.value)
        for k in ("old", "sampler", "avg", "nudge", "nn", "lb", "noise"):
            if k not in found:
                bad(f"the restart has no statement of kind {k}", self.fn, R)
        order = [found[k][0] for k in ("old", "sampler", "avg", "nudge", "nn", "lb", "noise")]
        if order != sorted(order):
            bad("the statements of the restart are not in the order old / sampler / averaging / nudge / accumulation / bound / start value", self.fn, R)
        OLD, NU = found["old"][1], found["nudge"][1]
        NN, nn_e = found["nn"][1]
        NB, lb_e = found["lb"][1]
        # the names may not be rebound in between (single binding each, except new_hyp and noise_nudge)
        for nm in (OLD, NU, NB):
            n_st = sum(1 for x in ast.walk(self.fn) if is_name(x, nm) and isinstance(x.ctx, ast.Store))
            if nm == NU and n_st > 3 or nm == NB and n_st != 2 or nm == OLD and n_st != 1:
                bad(f"{nm} is bound more often than the restart expects", self.fn, R)
        e1, e2 = found["avg"][1]
        env_avg = [(L(H), "QNew"), (L(OLD), "QOld")]
        return dict(key=found["sampler"][1], avg_some=self.qx(e1, env_avg), avg_none=self.qx(e2, env_avg),
                    nn=self.qx(nn_e, [(L(NN), "QNn"), (L(f"{NU}[0]"), "QNudge0")]),
                    lb=self.qx(lb_e, [(L(f"{NB}[0]"), "QLb"), (L(NN), "QNn")]),
                    noise=self.qx(found["noise"][1], [(L(f"{H}[0]['noise_log_scale']"), "QNew"), (L(NN), "QNn")]))

    # -- epilogue
    def scond(self, t):
        if isinstance(t, ast.Call) and len(t.args) == 1 and not t.keywords and (is_np(t.func, "any") or is_np(t.func, "all")):
            a = t.args[0]
            neg = False
            if isinstance(a, ast.UnaryOp) and isinstance(a.op, ast.Invert):
                neg, a = True, a.operand
            if is_name(a) and self.roles.get(a.id) == "FLAG":
                allq = is_np(t.func, "all")
                return {(True, True): "SAllFalse", (True, False): "SAllTrue", (False, True): "SAnyFalse", (False, False): "SAnyTrue"}[(allq, neg)]
        return None
    def success_chain(self, s):
        chain, name = [], None
        cur = s
        while True:
            c = self.scond(cur.test)
            if c is None:
                return None
            if not (len(cur.body) == 1 and isinstance(cur.body[0], ast.Assign) and len(cur.body[0].targets) == 1
                    and is_name(cur.body[0].targets[0]) and int_const(cur.body[0].value) is not None):
                return None
            nm = cur.body[0].targets[0].id
            if name not in (None, nm):
                bad("the success chain assigns two names", cur, "success")
            name = nm
            chain.append((c, int_const(cur.body[0].value)))
            if len(cur.orelse) == 1 and isinstance(cur.orelse[0], ast.If):
                cur = cur.orelse[0]
                continue
            if len(cur.orelse) == 1 and isinstance(cur.orelse[0], ast.Assign) and len(cur.orelse[0].targets) == 1 \
                    and is_name(cur.orelse[0].targets[0], name) and int_const(cur.orelse[0].value) is not None:
                return name, chain, int_const(cur.orelse[0].value)
            bad("the success chain does not end in `else: success = <int>`", cur, "success")
    def translate(self):
        fn = self.fn
        body = body_without_doc(fn)
        loops = [i for i, s in enumerate(body) if isinstance(s, ast.For)]
        if len(loops) != 1 or any(isinstance(n, (ast.For, ast.While)) and n is not body[loops[0]] for n in ast.walk(fn)):
            bad("_robust_gp_fit_ does not contain exactly one loop (a top-level for)", fn, "loop")
        k = loops[0]
        pro, loop, epi = body[:k], body[k], body[k + 1:]
        pins, flag_init = self.prologue(pro)
        if flag_init is None:
            bad("no success-flag initialisation np.ones(n_try).astype(bool) in the prologue", fn, "prologue")
        for r in ("VX", "VY", "VS2"):
            if r not in self.roles.values():
                bad(f"no local copy with role {r} in the prologue", fn, "prologue")
        # ---- the for
        R = "loop"
        if loop.orelse:
            bad("for ... else", loop, R)
        if not is_name(loop.target):
            bad("loop target is not a name", loop, R)
        self.set_role(loop.target.id, "ITRY", loop)
        it = loop.iter
        if not (isinstance(it, ast.Call) and is_name(it.func, "range") and not it.keywords and len(it.args) in (1, 2)):
            bad("loop is not over range(N) / range(0, N)", loop, R)
        if "range" in self.locals or "len" in self.locals or "bool" in self.locals or "np" in self.locals:
            bad("a builtin used by the translation is shadowed by a local", loop, R)
        if len(it.args) == 2 and int_const(it.args[0]) != 0:
            bad("loop does not start at 0", loop, R)
        n = it.args[-1]
        if is_name(n) and n.id in self.consts:
            n_try = self.consts[n.id][0]
            if n.id != self.flag_len_name:
                bad("the success flags and the loop have different bounds", loop, R)
            self.roles[n.id] = "CONST"
            self.ntry_name = n.id
            self.claim(self.consts[n.id][1])
        else:
            bad("loop bound is not a local bound once to an int literal", loop, R)
        if n_try < 0:
            bad("negative loop bound", loop, R)
        # the bound may be stored only once
        if sum(1 for x in ast.walk(fn) if is_name(x, n.id) and isinstance(x.ctx, ast.Store)) != 1:
            bad("the loop bound is assigned more than once", loop, R)
        self.claim(it)
        self.claimed.add(id(loop.target))
        if len(loop.body) != 1 or not isinstance(loop.body[0], ast.Try):
            bad("loop body is not a single try", loop, R)
        tr = loop.body[0]
        if tr.orelse or tr.finalbody or len(tr.handlers) != 1:
            bad("try has else / finally / several handlers", tr, R)
        # ---- try body
        tb = list(tr.body)
        breaks = False
        if tb and isinstance(tb[-1], ast.Break):
            breaks, tb = True, tb[:-1]
        if len(tb) != 1:
            bad("try body is not `H, _, R = <gp>.fit(...)` [; break]", tr, "fit-call")
        fs = tb[0]
        ok = (isinstance(fs, ast.Assign) and len(fs.targets) == 1 and isinstance(fs.targets[0], ast.Tuple) and len(fs.targets[0].elts) == 3
              and all(is_name(e) for e in fs.targets[0].elts) and isinstance(fs.value, ast.Call) and isinstance(fs.value.func, ast.Attribute)
              and fs.value.func.attr == "fit" and is_name(fs.value.func.value))
        if not ok:
            bad("try body is not `H, _, R = <gp>.fit(...)`", fs, "fit-call")
        self.recv = fs.value.func.value.id
        if self.recv in self.P:
            pass
        hyp_name, _, res_name = [e.id for e in fs.targets[0].elts]
        args = []
        for a in fs.value.args:
            r = self.role(a)
            if r is None:
                bad("positional argument of fit is not a tracked array", a, "fit-call")
            args.append(r)
        kws = []
        for kw in fs.value.keywords:
            if kw.arg is None:
                bad("**kwargs in the fit call", fs, "fit-call")
            if any(self.role(x) for x in ast.walk(kw.value)):
                bad("a tracked array is passed by keyword to fit", fs, "fit-call")
            kws.append(f"{kw.arg}={self.canon.text(kw.value)}")
        self.set_role(res_name, "RES", fs)
        self.claim(fs)
        # ---- handler
        h = tr.handlers[0]
        caught = exc_classes(h, "handler")
        hs = []
        for s in h.body:
            if is_log_stmt(s):
                self.claim(s)
                continue
            if (isinstance(s, ast.Assign) and len(s.targets) == 1 and isinstance(s.targets[0], ast.Subscript)
                    and is_name(s.targets[0].value) and self.roles.get(s.targets[0].value.id) == "FLAG"):
                ix = s.targets[0].slice
                if not (is_name(ix) and self.roles.get(ix.id) == "ITRY" and isinstance(s.value, ast.Constant) and type(s.value.value) is bool):
                    bad("store into the success flags is not F[i_try] = True|False", s, "handler")
                hs.append(f"HFlag {'true' if s.value.value else 'false'}")
                self.claim(s)
                continue
            if isinstance(s, ast.If) and self.mentions_itry(s.test):
                hs.append(self.drop_block(s)[1:-1])
                continue
            if isinstance(s, (ast.Try, ast.For, ast.While, ast.Return, ast.Raise, ast.Break, ast.Continue)):
                bad("control statement in the handler outside the whitelist", s, "handler")
            hs.append(f"HPin {cstr(self.canon.text(s))}")
        restart = self.restart(list(h.body), hyp_name)
        # ---- epilogue
        chain = None
        epi_pins = []
        ret = None
        for s in epi:
            if ret is not None:
                bad("statement after return", s, "epilogue")
            if isinstance(s, ast.If):
                sc = self.success_chain(s)
                if sc is not None:
                    if chain is not None:
                        bad("two success chains", s, "success")
                    chain = sc
                    self.set_role(sc[0], "SUCCESS", s)
                    self.claim(s)
                    continue
                c = self.scond(s.test)
                if c is not None and not s.orelse:
                    self.claim(s.test)
                    if only_logs(s.body):
                        self.claim(s)
                        continue
                    epi_pins.append(f"if {c}: " + "; ".join(self.canon.text(x) for x in s.body))
                    continue
                bad("if statement of the epilogue outside the whitelist", s, "epilogue")
            if isinstance(s, ast.Return):
                if not (isinstance(s.value, ast.Tuple) and all(is_name(e) for e in s.value.elts)):
                    bad("return is not a tuple of names", s, "return")
                ret = []
                for e in s.value.elts:
                    if self.P.get(e.id) == 0:
                        ret.append("gp")
                    elif e.id == hyp_name:
                        ret.append("new_hyp")
                    elif self.roles.get(e.id) == "RES":
                        ret.append("res")
                    elif self.roles.get(e.id) == "SUCCESS":
                        ret.append("success")
                    else:
                        bad("returned name has no role", e, "return")
                self.claim(s)
                continue
            if is_log_stmt(s):
                self.claim(s)
                continue
            bad("statement of the epilogue outside the whitelist", s, "epilogue")
        if chain is None or ret is None:
            bad("no success chain / return", fn, "epilogue")
        # ---- census
        tracked = {k_ for k_, v in self.roles.items()}
        for nd in ast.walk(fn):
            if isinstance(nd, ast.Name) and nd.id in tracked and id(nd) not in self.claimed:
                bad(f"tracked local {nd.id} ({self.roles[nd.id]}) is used outside the statements translated for it", nd, "census")
            if isinstance(nd, ast.Attribute) and nd.attr == "s2" and id(nd) not in self.claimed:
                bad("an attribute .s2 is used outside the drop block", nd, "census")
            if isinstance(nd, ast.Attribute) and nd.attr in ("X", "y") and is_name(nd.value, self.recv) and id(nd) not in self.claimed:
                bad(f"the training set stored on the fitted object (.{nd.attr}) is used outside the drop block", nd, "census")
            if isinstance(nd, ast.Call) and isinstance(nd.func, ast.Attribute) and nd.func.attr in ("fit", "__setattr__", "__dict__") \
                    and id(nd) not in self.claimed:
                bad("a second call of a method fit", nd, "census")
        # the receiver of fit: bound once, in the prologue
        recv_bind = [s for s in pins if isinstance(s, ast.Assign) and len(s.targets) == 1 and is_name(s.targets[0], self.recv)]
        if len(recv_bind) != 1 or sum(1 for x in ast.walk(fn) if is_name(x, self.recv) and isinstance(x.ctx, ast.Store)) != 1:
            bad("the object whose fit is called is not bound exactly once in the prologue", fs, "fit-call")
        return dict(
            n_try=n_try, flag_init=flag_init, prologue=[self.canon.text(s) for s in pins],
            recv=self.canon.text(fs.value.func), args=args, kw=kws, binds_res="res" in ret and True,
            breaks=breaks, caught=caught, handler=hs, restart=restart, success=chain[1], success_else=chain[2], epilogue=epi_pins, ret=ret)

def coq_robust(t):
    z = lambda c: f"({c})" if c < 0 else str(c)
    lines = [
        f"  rs_n_try := {t['n_try']}%nat;",
        f"  rs_flag_init := {'true' if t['flag_init'] else 'false'};",
        "  rs_prologue := " + clist(["\n    " + cstr(x) for x in t["prologue"]]) + ";",
        f"  rs_fit_recv := {cstr(t['recv'])};",
        f"  rs_fit_args := {clist(t['args'])};",
        f"  rs_fit_kw := {clist([cstr(x) for x in t['kw']])};",
        f"  rs_binds_res := {'true' if t['binds_res'] else 'false'};",
        f"  rs_try_breaks := {'true' if t['breaks'] else 'false'};",
        f"  rs_caught := {clist([cstr(x) for x in t['caught']])};",
        "  rs_handler := " + clist(["\n    " + x for x in t["handler"]]) + ";",
        "  rs_success := " + clist([f"({c}, {z(v)})" for c, v in t["success"]]) + ";",
        f"  rs_success_else := {z(t['success_else'])};",
        "  rs_epilogue := " + clist(["\n    " + cstr(x) for x in t["epilogue"]]) + ";",
        f"  rs_return := {clist([cstr(x) for x in t['ret']])}",
    ]
    return "{|\n" + "\n".join(lines) + " |}"

# ----------------------------------------------------------------------------- init_and_train_gp
def translate_init(fn):
    R = "init"
    body = body_without_doc(fn)
    loops = [i for i, s in enumerate(body) if isinstance(s, ast.While)]
    if len(loops) != 1 or sum(1 for n in ast.walk(fn) if isinstance(n, ast.While)) != 1:
        bad("init_and_train_gp does not contain exactly one while loop (top level)", fn, R)
    w = body[loops[0]]
    if w.orelse:
        bad("while ... else", w, R)
    t = w.test
    if not (isinstance(t, ast.UnaryOp) and isinstance(t.op, ast.Not) and is_name(t.operand)):
        bad("the while test is not `not <fitted>`", w, R)
    F = t.operand.id
    if len(w.body) != 1 or not isinstance(w.body[0], ast.Try):
        bad("the while body is not a single try", w, R)
    tr = w.body[0]
    if tr.orelse or tr.finalbody or len(tr.handlers) != 1:
        bad("try has else / finally / several handlers", tr, R)
    h = tr.handlers[0]
    caught = exc_classes(h, R)
    # handler: TF += k ; logging
    TF, inc = None, None
    for s in h.body:
        if is_log_stmt(s):
            continue
        if isinstance(s, ast.AugAssign) and isinstance(s.op, ast.Add) and is_name(s.target) and int_const(s.value) is not None and TF is None:
            TF, inc = s.target.id, int_const(s.value)
            continue
        bad("statement of the handler outside the whitelist (training_failures += k; logging)", s, R)
    if TF is None:
        bad("the handler does not count the failure", h, R)
    params = [a.arg for a in fn.args.args]
    locals_ = stored_names(fn) | set(params)
    if F in params or TF in params:
        bad("loop flag / failure counter is a parameter", w, R)
    # initialisations: the last top-level stores before the loop; no other store outside the loop
    claimed = set()
    def claim(n):
        for x in ast.walk(n):
            claimed.add(id(x))
    init_vals = {}
    for s in body[:loops[0]]:
        if isinstance(s, ast.Assign) and len(s.targets) == 1 and is_name(s.targets[0]) and s.targets[0].id in (F, TF):
            nm = s.targets[0].id
            if nm in init_vals:
                bad(f"{nm} is initialised twice before the loop", s, R)
            if nm == F and isinstance(s.value, ast.Constant) and type(s.value.value) is bool:
                init_vals[F] = s.value.value
            elif nm == TF and int_const(s.value) is not None:
                init_vals[TF] = int_const(s.value)
            else:
                bad("initial value of the loop flag / failure counter is not a literal", s, R)
            claim(s)
    if F not in init_vals or TF not in init_vals:
        bad("loop flag / failure counter not initialised at top level before the loop", w, R)
    canon = Canon([], locals_, [w])
    # arms
    if len(tr.body) != 1 or not isinstance(tr.body[0], ast.If):
        bad("the try body is not one if / elif / else chain over the failure counter", tr, R)
    arms_src = []
    cur = tr.body[0]
    while True:
        tt = cur.test
        ok = isinstance(tt, ast.Compare) and len(tt.ops) == 1 and isinstance(tt.ops[0], ast.Eq)
        c = None
        if ok:
            a, b = tt.left, tt.comparators[0]
            if is_name(a, TF) and int_const(b) is not None:
                c = int_const(b)
            elif is_name(b, TF) and int_const(a) is not None:
                c = int_const(a)
        if c is None:
            bad("arm test is not `<training_failures> == <int>`", cur, R)
        arms_src.append((c, cur.body))
        if len(cur.orelse) == 1 and isinstance(cur.orelse[0], ast.If):
            cur = cur.orelse[0]
            continue
        if cur.orelse:
            arms_src.append((None, cur.orelse))
        break
    # which name is the given start point: the hyp0= keyword of an arm that computes no start point
    H = None
    parsed = []
    for c, stmts in arms_src:
        start_name, start_kind, fit_seen, sets, after, fitargs = None, None, False, False, [], None
        for s in stmts:
            if is_log_stmt(s):
                continue
            call = None
            if isinstance(s, ast.Assign) and isinstance(s.value, ast.Call) and isinstance(s.value.func, ast.Attribute) and s.value.func.attr == "fit":
                if not (len(s.targets) == 1 and isinstance(s.targets[0], ast.Tuple) and all(is_name(e, "_") for e in s.targets[0].elts)):
                    bad("the result of the initial fit is bound to names", s, R)
                call = s.value
            elif isinstance(s, ast.Expr) and isinstance(s.value, ast.Call) and isinstance(s.value.func, ast.Attribute) and s.value.func.attr == "fit":
                call = s.value
            if call is not None:
                if fit_seen:
                    bad("two fit calls in one arm", s, R)
                fit_seen = True
                if not all(is_name(a) for a in call.args):
                    bad("positional argument of the initial fit is not a name", s, R)
                fitargs = [canon.text(call.func)] + [canon.text(a) for a in call.args]
                kw = {k.arg: k.value for k in call.keywords}
                if None in kw or "hyp0" not in kw or not is_name(kw["hyp0"]):
                    bad("the initial fit has no hyp0=<name> keyword", s, R)
                fitargs += [f"{k.arg}={canon.text(k.value)}" for k in call.keywords if k.arg != "hyp0"]
                hn = kw["hyp0"].id
                if start_name is None:
                    start_kind = ("IGiven", hn)
                elif hn != start_name:
                    bad("the start point computed in the arm is not the one handed to fit", s, R)
                claim(s) if False else None
                continue
            if not fit_seen:
                # start point
                if isinstance(s, ast.Assign) and len(s.targets) == 1 and is_name(s.targets[0]) and isinstance(s.value, ast.Call) and start_name is None:
                    v = s.value
                    if is_np(v.func, "zeros") and not v.args and len(v.keywords) == 1 and v.keywords[0].arg == "shape" \
                            and isinstance(v.keywords[0].value, ast.Attribute) and v.keywords[0].value.attr == "shape" and is_name(v.keywords[0].value.value):
                        start_name, start_kind = s.targets[0].id, ("IZerosLike", v.keywords[0].value.value.id)
                        continue
                    if is_name(v.func, "_get_random_samples_from_priors_") and len(v.args) == 1 and not v.keywords and is_name(v.args[0]):
                        start_name, start_kind = s.targets[0].id, ("IPrior", v.args[0].id)
                        continue
                bad("statement before the fit of an arm is not a start point (np.zeros(shape=H.shape) / _get_random_samples_from_priors_(gp))", s, R)
            if isinstance(s, ast.Assign) and len(s.targets) == 1 and is_name(s.targets[0], F):
                if not (isinstance(s.value, ast.Constant) and s.value.value is True):
                    bad("the loop flag is set to something else than True", s, R)
                sets = True
                claim(s)
                continue
            if isinstance(s, (ast.Assign,)) and not any(is_name(x, F) or is_name(x, TF) for x in ast.walk(s)):
                after.append(canon.text(s))
                continue
            bad("statement after the fit of an arm outside the whitelist", s, R)
        if not fit_seen:
            bad("an arm without fit call", cur, R)
        if start_kind[0] == "IGiven":
            if H not in (None, start_kind[1]):
                bad("two different given start points", cur, R)
            H = start_kind[1]
        parsed.append(dict(test=c, start=start_kind, fitargs=fitargs, sets=sets, after=after))
    for a in parsed:
        if a["start"][0] == "IZerosLike" and a["start"][1] != H:
            bad(f"the zero start point takes its shape from {a['start'][1]}, not from the given start point {H}", w, R)
    if H is None:
        bad("no arm uses the given start point", w, R)
    # census on F and TF
    claim(w.test)
    for c, stmts in arms_src:
        pass
    cur = tr.body[0]
    while True:
        claim(cur.test)
        if len(cur.orelse) == 1 and isinstance(cur.orelse[0], ast.If):
            cur = cur.orelse[0]
        else:
            break
    claim(h)
    for nd in ast.walk(fn):
        if isinstance(nd, ast.Name) and nd.id in (F, TF) and id(nd) not in claimed:
            bad(f"{nd.id} is used outside the retry loop's recognised statements", nd, R)
    return dict(fitted0=init_vals[F], tf0=init_vals[TF], cond="not fitted", arms=parsed, caught=caught, inc=inc)

def coq_init(t):
    z = lambda c: f"({c})" if c < 0 else str(c)
    arms = []
    for a in t["arms"]:
        test = "None" if a["test"] is None else f"(Some {z(a['test'])})"
        arms.append(f"\n    mkArm {test} {a['start'][0]} {clist([cstr(x) for x in a['fitargs']])} {'true' if a['sets'] else 'false'} "
                    f"{clist([cstr(x) for x in a['after']])}")
    return ("{|\n" + f"  is_fitted0 := {'true' if t['fitted0'] else 'false'};\n  is_tf0 := {z(t['tf0'])};\n  is_cond := {cstr(t['cond'])};\n"
            f"  is_arms := {clist(arms)};\n  is_caught := {clist([cstr(x) for x in t['caught']])};\n  is_inc := {z(t['inc'])} |}}")

# ----------------------------------------------------------------------------- driver
HELPERS = ("_get_random_samples_from_priors_", "_get_samples_from_slice_sampler_")
def check_helpers(tree):
    """the helpers the handlers call get the GP object: they may not store its training set nor fit it"""
    for name in HELPERS:
        fns = [n for n in tree.body if isinstance(n, ast.FunctionDef) and n.name == name]
        if len(fns) != 1 or fns[0].decorator_list:
            bad(f"helper {name} is not defined exactly once (undecorated) at module level", None, "census")
        for n in ast.walk(fns[0]):
            if isinstance(n, ast.Attribute) and n.attr in ("s2", "X", "y") and isinstance(n.ctx, (ast.Store, ast.Del)):
                bad(f"helper {name} stores .{n.attr}", n, "census")
            if isinstance(n, ast.Subscript) and isinstance(n.ctx, (ast.Store, ast.Del)) and isinstance(n.value, ast.Attribute) \
                    and n.value.attr in ("s2", "X", "y"):
                bad(f"helper {name} stores into .{n.value.attr}", n, "census")
            if isinstance(n, ast.Call) and isinstance(n.func, ast.Attribute) and n.func.attr in ("fit", "__setattr__"):
                bad(f"helper {name} calls .{n.func.attr}", n, "census")
            if isinstance(n, ast.Call) and dotted(n.func) in ("setattr", "delattr"):
                bad(f"helper {name} calls setattr", n, "census")
def load():
    src = (core.REPO / REL).read_text()
    tree = ast.parse(src)
    check_helpers(tree)
    rob = Robust(find_function(tree, "_robust_gp_fit_")).translate()
    ini = translate_init(find_function(tree, "init_and_train_gp"))
    return dict(robust=rob, init=ini)

def coq_restart(r):
    return f"mkRestart {cstr(r['key'])} {r['avg_some']} {r['avg_none']} {r['nn']} {r['lb']} {r['noise']}"
def defs(t):
    return {"src_robust": ("robust_src", coq_robust(t["robust"])), "src_restart": ("restart_src", coq_restart(t["robust"]["restart"])),
            "src_init": ("init_src", coq_init(t["init"]))}

def render(t):
    out = ["(* GENERATED by translate/fitretry.py from " + REL + " - do not edit; regenerated on every ./check C16 *)",
           "From Coq Require Import ZArith QArith List String Bool.",
           "From PV Require Import Model.FitRetry Model.FitRetrySrc.",
           "Import ListNotations.", "Open Scope string_scope.", "Open Scope Z_scope.", ""]
    for name, (ty, text) in defs(t).items():
        out.append(f"Definition {name} : {ty} :=\n  {text}.\n")
    return "\n".join(out)

def emit():
    try:
        t = load()
        text = render(t)
    except Exception as ex:
        core.write_if_changed(OUT, "(* translate/fitretry.py could not translate the current source, no definition emitted:\n   %s *)\n"
                              % str(ex).replace("*)", "* )").replace("(*", "( *").replace('"', "'"))
        raise
    changed = core.write_if_changed(OUT, text)
    return dict(out=str(OUT.relative_to(core.VERIF)), changed=changed, differs_from_reference=diff(t))

def generated_ok():
    return OUT.exists() and MARK in OUT.read_text()

def current():
    """(translation or None, exception or None) of the current source, without writing anything"""
    try:
        return load(), None
    except Untranslatable as ex:
        return None, ex
    except Exception as ex:          # a crash of the translator is a failure to translate
        return None, ex

def flat(t):
    """key -> text of every field (what the reference stores)"""
    out = {}
    for part in ("robust", "init"):
        for k, v in t[part].items():
            out[f"{part}.{k}"] = json.loads(json.dumps(v))
    return out

def reference():
    return json.loads(REFERENCE.read_text()) if REFERENCE.exists() else None

def diff(t, ref=None):
    """names of the fields that differ from the reference translation (ONLY used to aim the search / word the report)"""
    ref = reference() if ref is None else ref
    if ref is None or t is None:
        return []
    cur = flat(t)
    return sorted(k for k in set(cur) | set(ref) if cur.get(k) != ref.get(k))

REGION_OF_FIELD = {
    "robust.n_try": "bound", "robust.flag_init": "success", "robust.success": "success", "robust.success_else": "success", "robust.ret": "success",
    "robust.binds_res": "success", "robust.breaks": "bound", "robust.caught": "caught", "robust.handler": "handler", "robust.args": "drop",
    "robust.kw": "start", "robust.recv": "start", "robust.restart": "start", "robust.prologue": "start", "robust.epilogue": "start",
    "init.arms": "init", "init.caught": "init", "init.inc": "init", "init.tf0": "init", "init.fitted0": "init", "init.cond": "init",
}

def regions_of_diff(t, ex, ref=None):
    """which constructs the search should aim at: subset of {'drop', 'bound', 'success', 'caught', 'start', 'init'}"""
    if ex is not None:
        r = (getattr(ex, "region", None) or "") + " " + str(ex)
        out = set()
        for key, tags in (("drop", ("drop", ".s2", "tracked local", "roles", "fit-call")), ("bound", ("[loop]", "bound")),
                          ("success", ("success", "return", "epilogue")), ("caught", ("handler", "exception class", "except")),
                          ("start", ("prologue",)), ("init", ("[init]",))):
            if any(tg in r for tg in tags):
                out.add(key)
        return out or {"drop", "bound", "success", "caught", "start", "init"}
    ref = reference() if ref is None else ref
    out = set()
    for k in diff(t, ref):
        if k == "robust.handler" and ref is not None:
            a, b = t["robust"]["handler"], ref.get(k) or []
            da = [x for x in a if x.startswith("HDropIf") or x.startswith("HFlag")]
            db = [x for x in b if x.startswith("HDropIf") or x.startswith("HFlag")]
            if da != db:
                out |= {"drop", "success"} if [x for x in da if x.startswith("HFlag")] != [x for x in db if x.startswith("HFlag")] else {"drop"}
            if [x for x in a if x.startswith("HPin")] != [x for x in b if x.startswith("HPin")]:
                out.add("start")
        else:
            out.add(REGION_OF_FIELD.get(k, "drop"))
    return out

if __name__ == "__main__":
    t = load()
    if "--write-reference" in sys.argv:
        REFERENCE.write_text(json.dumps(flat(t), indent=1) + "\n")
        print("reference written:", REFERENCE)
    else:
        print(render(t))
        print("differs from reference:", diff(t))
