"""Fail-closed translator: the TAIL of BADS.optimize() (everything after the `while` loop) and OptimizeResult.set_attributes
->  coq/gen/Src_final.v

Re-read on every run from VERIF_REPO (default /repo).  Re-uses the symbolic executor of translate/loop.py (expression grammar, State, exec_stmt,
history reads, structural location); nothing is located by line number.

Regions and what is emitted for them (FIXED names, FIXED parameter lists: a source edit shows up as a failed proof in
Proofs/FinalSourceProofs.v, not as a Coq arity error)
  final:guard      `if optim_state["uncertainty_handling_level"] > 0 and poll_iteration > 0:` (no else arm)        src_final_guard level piter
  final:select     `self._re_evaluate_history_(gp)` first; sigma = np.sqrt(2) * erfcinv(<arg>)  (uninterpreted ORACLE of <arg>)
                   q = history("fval") + sigma * history("fsd"); idx = np.argmin(q[<skip>:]); idx += <offset>;
                   self.yval / fval / fsd / u = history("<key>")[<index expression>]                              src_sel_quantile_arg, src_sel_score,
                                                                                                                    src_sel_skip, src_sel_idx_{y,f,s,u}, src_sel_keys
  final:resample   `if options["noise_final_samples"] > 0:`; the two `np.empty(<size>)`; `for i in range(<count>)`; the logger call
                   (argument, record_duplicate_data flag); which tuple element is stored in which vector; the size-1 supplement (which field is
                   appended, the SD supplement under specify_target_noise); the stores to optim_state["yval_vec" / "ysd_vec"]; fval = mean,
                   fsd = std / sqrt(<divisor>) of the stored vector                                                 src_fs_guard, src_fs_alloc_y, src_fs_alloc_sd,
                                                                                                                    src_fs_count, src_fs_call_arg, src_fs_record_flag,
                                                                                                                    src_fs_suppl_guard, src_fs_yvec, src_fs_sdvec,
                                                                                                                    src_fs_fval_is_mean_of_yvec, src_fs_fsd_is_std_over_sqrt,
                                                                                                                    src_fs_sem_div
  final:x          `self.x = self.var_transf.inverse_transf(self.u)` after the noisy block                          src_x_source
  final:display    timing / logging statements: whitelisted explicitly (DISPLAY_* below); they may not write an incumbent field
  final:result     `optimize_result = OptimizeResult(self)`; `return optimize_result`; OptimizeResult.__init__ -> set_attributes(bads);
                   the ordered list of (key, source expression) pairs of set_attributes                             src_result_ctor_arg, src_result_assembly

Anything else in the tail -- an unknown call, a second logger call site, a write of self.u / yval / fval / fsd / x or of optim_state["yval_vec" | "ysd_vec"]
outside its region, an else arm of the noisy guard, a keyword argument of np.std -- raises Untranslatable: the generated file is poisoned.
"""
from __future__ import annotations

import ast
import json
import os
import warnings
from fractions import Fraction
from pathlib import Path

from translate import loop as TL
from translate.loop import Untranslatable, fail, place, same, stored_places, find_one, assigns_place, dotted

VERIF = Path(__file__).resolve().parent.parent
REPO = Path(os.environ.get("VERIF_REPO", "/repo"))
SRC = "pybads/bads/bads.py"
SRC_RES = "pybads/bads/optimize_result.py"
SRC_LOG = "pybads/function_logger/function_logger.py"
OUT = VERIF / "coq" / "gen" / "Src_final.v"

# incumbent / result places: every write in the tail must be inside the region that owns it
INC = {"self.u", "self.yval", "self.fval", "self.fsd", "self.x", "self.u_best", "self.best_gp_hyp", "optim_state[yval_vec]", "optim_state[ysd_vec]"}
DISPLAY_STORES = {"total_time", "overhead", "optim_state[total_time]", "optim_state[overhead]"}
DISPLAY_CALLS = {"timer.stop_timer", "timer.get_duration", "self.logger.info", "self.logger.debug", "self.logger.warning", "self.logger.warn",
                 "np.isscalar"}
EXTRA_OPT = {"noise_final_samples": ("nfs", "Z"), "specify_target_noise": ("spec", "B")}
EXTRA_PARAM_TY = {"nfs": "Z", "spec": "B", "am": "Z", "n": "Z", "piter": "Z", "level": "Z", "xn": "Z"}


def region(name):
    TL.region(name)


class _Tables:
    """temporary extension of loop.py's option / parameter tables (restored afterwards: loop.py's own behaviour is unchanged)"""

    def __enter__(self):
        self.opt, self.pty, self.src = dict(TL.OPT), dict(TL.PARAM_TY), TL.SRC
        TL.OPT.update(EXTRA_OPT)
        TL.PARAM_TY.update(EXTRA_PARAM_TY)
        return self

    def __exit__(self, *a):
        TL.OPT.clear(); TL.OPT.update(self.opt)
        TL.PARAM_TY.clear(); TL.PARAM_TY.update(self.pty)
        TL.SRC = self.src
        return False


# ----------------------------------------------------------------------------- Q expressions (scores, the quantile argument)

def trq(n, env):
    """float expression over named parameters: constants, env names, options['final_quantile'], history vectors (elementwise), + - *"""
    if isinstance(n, ast.Constant) and type(n.value) in (int, float):
        return ("q", Fraction(n.value))
    if isinstance(n, ast.Name) and n.id in env:
        return env[n.id]
    if place(n) == "options[final_quantile]":
        return ("par", "fq")
    if isinstance(n, ast.Call) and same(n.func, "self.iteration_history.get") and len(n.args) == 1 and not n.keywords \
            and isinstance(n.args[0], ast.Constant) and isinstance(n.args[0].value, str):
        return ("par", "h_" + n.args[0].value)
    if isinstance(n, ast.BinOp) and type(n.op) in (ast.Add, ast.Sub, ast.Mult):
        return ("bin", {ast.Add: "+", ast.Sub: "-", ast.Mult: "*"}[type(n.op)], trq(n.left, env), trq(n.right, env))
    fail(n, "float expression not in the grammar of the final phase")


def q_free(ir, acc=None):
    acc = set() if acc is None else acc
    if ir[0] == "par":
        acc.add(ir[1])
    elif ir[0] == "bin":
        q_free(ir[2], acc); q_free(ir[3], acc)
    return acc


def q_coq(ir):
    if ir[0] == "q":
        f = ir[1]
        return f"({f.numerator} # {f.denominator})" if f >= 0 else f"(({f.numerator}) # {f.denominator})"
    if ir[0] == "par":
        return ir[1]
    return f"({ {'+': 'Qplus', '-': 'Qminus', '*': 'Qmult'}[ir[1]] } {q_coq(ir[2])} {q_coq(ir[3])})"


def q_eval(ir, env):
    if ir[0] == "q":
        return float(ir[1])
    if ir[0] == "par":
        return env[ir[1]]
    a, b = q_eval(ir[2], env), q_eval(ir[3], env)
    return a + b if ir[1] == "+" else a - b if ir[1] == "-" else a * b


# ----------------------------------------------------------------------------- vectors of the re-sampling block

FIELD = {"self.yval": "cy", "self.fval": "cf", "self.fsd": "cs"}


def v_coq(v):
    if v[0] == "fresh":
        return {0: "ys", 1: "sds"}[v[1]]
    if v[0] == "app":
        return f"({v_coq(v[1])} ++ [{v[2]}])"
    if v[0] == "ite":
        return f"(if {c_coq(v[1])} then {v_coq(v[2])} else {v_coq(v[3])})"
    raise Untranslatable("vector IR " + repr(v), TL._REGION[0])


def c_coq(c):
    if c[0] == "suppl":
        return f"(src_fs_suppl_guard (Z.of_nat (List.length {v_coq(c[1])})))"
    if c[0] == "spec":
        return "spec"
    raise Untranslatable("condition IR " + repr(c), TL._REGION[0])


def v_free(v, acc=None):
    acc = set() if acc is None else acc
    if v[0] == "fresh":
        acc.add({0: "ys", 1: "sds"}[v[1]])
    elif v[0] == "app":
        v_free(v[1], acc); acc.add(v[2])
    elif v[0] == "ite":
        if v[1][0] == "suppl":
            v_free(v[1][1], acc)
        else:
            acc.add("spec")
        v_free(v[2], acc); v_free(v[3], acc)
    return acc


def size_of(n, vecs):
    """<vec>.size | len(<vec>) | np.size(<vec>)  ->  the vector's symbolic value, else None"""
    if isinstance(n, ast.Attribute) and n.attr == "size" and isinstance(n.value, ast.Name) and n.value.id in vecs:
        return vecs[n.value.id]
    if isinstance(n, ast.Call) and not n.keywords and len(n.args) == 1 and isinstance(n.args[0], ast.Name) and n.args[0].id in vecs and \
            ((isinstance(n.func, ast.Name) and n.func.id == "len") or TL.is_np(n.func, "size")):
        return vecs[n.args[0].id]
    return None


LOGGER = "self.function_logger"


def tr_xn(n):
    """integer expression over function_logger.Xn (-> parameter xn)"""
    class Sub(ast.NodeTransformer):
        def visit(self, node):
            if isinstance(node, ast.Attribute) and same(node, LOGGER + ".Xn"):
                return ast.Name(id="__xn", ctx=ast.Load())
            return self.generic_visit(node)
    st = TL.State({}, {})
    st.loc["__xn"] = ("par", "xn")
    n2 = ast.fix_missing_locations(Sub().visit(ast.parse(ast.unparse(n), mode="eval").body))
    return TL.coerce(TL.tr(n2, st), "Z", n)


def idx_item(n, locs):
    """<rows local>[<k>] | <idx local> | integer expression over function_logger.Xn  ->  (Coq text, free parameters)"""
    if isinstance(n, ast.Name) and n.id in locs and locs[n.id][0] == "idx":
        return locs[n.id][1], locs[n.id][2]
    if isinstance(n, ast.Subscript) and isinstance(n.value, ast.Name) and n.value.id in locs and locs[n.value.id][0] == "rows" \
            and isinstance(n.slice, ast.Constant) and type(n.slice.value) is int and n.slice.value >= 0:
        return f"(nth {n.slice.value} {locs[n.value.id][1]} 0)", locs[n.value.id][2]
    ir = tr_xn(n)
    return TL.coq(ir), TL.free(ir)


def bind_log_local(s, locs):
    """idx_u = np.flatnonzero(np.all(<logger>.X[: <upper>] == self.u, axis=1))   |   idx_sd = <a> if idx_u.size > 0 else <b>   -> True when bound"""
    if not (isinstance(s, ast.Assign) and len(s.targets) == 1 and isinstance(s.targets[0], ast.Name)):
        return False
    nm, v = s.targets[0].id, s.value
    if isinstance(v, ast.Call) and TL.is_np(v.func, "flatnonzero") and len(v.args) == 1 and not v.keywords:
        a = v.args[0]
        ok = isinstance(a, ast.Call) and TL.is_np(a.func, "all") and len(a.args) == 1 and len(a.keywords) == 1 and a.keywords[0].arg == "axis" \
            and isinstance(a.keywords[0].value, ast.Constant) and a.keywords[0].value.value == 1 and isinstance(a.args[0], ast.Compare) \
            and len(a.args[0].ops) == 1 and isinstance(a.args[0].ops[0], ast.Eq)
        if not ok:
            fail(s, "row search of the SD supplement is not np.flatnonzero(np.all(<logger>.X[: <n>] == self.u, axis=1))")
        c = a.args[0]
        if place(c.comparators[0]) != "self.u":
            fail(c, "the logged rows are not compared with self.u")
        L = c.left
        free = {"logX", "u"}
        if same(L, LOGGER + ".X"):
            rows = "logX"
        elif isinstance(L, ast.Subscript) and same(L.value, LOGGER + ".X") and isinstance(L.slice, ast.Slice) and L.slice.lower is None and L.slice.step is None \
                and L.slice.upper is not None:
            ir = tr_xn(L.slice.upper)
            rows = f"(firstn (Z.to_nat {TL.coq(ir)}) logX)"
            free |= TL.free(ir)
        else:
            fail(L, "the rows searched are not <logger>.X[: <n>]")
        locs[nm] = ("rows", f"(rows_eq_from 0 {rows} u)", free)
        return True
    if isinstance(v, ast.IfExp):
        t = v.test
        rl = None
        if isinstance(t, ast.Compare) and len(t.ops) == 1:
            l = t.left
            if isinstance(l, ast.Attribute) and l.attr == "size" and isinstance(l.value, ast.Name) and l.value.id in locs and locs[l.value.id][0] == "rows":
                rl = l.value.id
            elif isinstance(l, ast.Call) and isinstance(l.func, ast.Name) and l.func.id == "len" and len(l.args) == 1 and isinstance(l.args[0], ast.Name) \
                    and l.args[0].id in locs and locs[l.args[0].id][0] == "rows":
                rl = l.args[0].id
        if rl is None:
            fail(t, "the test of the SD supplement index is not a comparison of the number of matching rows")
        st = TL.State({}, {})
        st.loc["__n"] = ("par", "n")
        t2 = ast.fix_missing_locations(ast.Compare(left=ast.Name(id="__n", ctx=ast.Load()), ops=t.ops, comparators=t.comparators))
        g = TL.coerce(TL.tr(t2, st), "B", t)
        a, fa = idx_item(v.body, locs)
        b, fb = idx_item(v.orelse, locs)
        locs[nm] = ("idx", f"(let n := Z.of_nat (List.length {locs[rl][1]}) in if {TL.coq(g)} then {a} else {b})", set(locs[rl][2]) | set(fa) | set(fb))
        return True
    if isinstance(v, ast.Subscript) and isinstance(v.value, ast.Name) and v.value.id in locs and locs[v.value.id][0] == "rows":
        a, fa = idx_item(v, locs)
        locs[nm] = ("idx", a, set(fa))
        return True
    return False


def exec_vec(stmts, vecs, guards, locs=None):
    """the size-1 supplement: `if <vec>.size == 1:` / `if options["specify_target_noise"]:` around `<vec> = np.vstack((<vec>, <field>))`;
    under specified noise the SD supplement <logger>.S[<index>] with <index> computed from the logged rows (local bindings, see bind_log_local)"""
    locs = {} if locs is None else locs
    for s in stmts:
        if bind_log_local(s, locs):
            continue
        if isinstance(s, ast.If):
            t = s.test
            if isinstance(t, ast.Compare) and len(t.ops) == 1 and size_of(t.left, vecs) is not None:
                v = size_of(t.left, vecs)
                st = TL.State({}, {})
                st.loc["__n"] = ("par", "n")
                t2 = ast.Compare(left=ast.Name(id="__n", ctx=ast.Load()), ops=t.ops, comparators=t.comparators)
                g = TL.coerce(TL.tr(ast.fix_missing_locations(t2), st), "B", t)
                if "suppl" in guards and guards["suppl"] != g:
                    fail(s, "two different size tests in the supplement block")
                guards["suppl"] = g
                c = ("suppl", v)
            elif place(t) == "options[specify_target_noise]":
                c = ("spec",)
            else:
                fail(t, "test of the supplement block not understood")
            a, b = dict(vecs), dict(vecs)
            exec_vec(s.body, a, guards, dict(locs))
            exec_vec(s.orelse, b, guards, dict(locs))
            for k in vecs:
                vecs[k] = a[k] if a[k] == b[k] else ("ite", c, a[k], b[k])
            continue
        if isinstance(s, ast.Assign) and len(s.targets) == 1 and isinstance(s.targets[0], ast.Name) and s.targets[0].id in vecs:
            v = s.value
            if isinstance(v, ast.Call) and TL.is_np(v.func, "vstack") and len(v.args) == 1 and not v.keywords and isinstance(v.args[0], ast.Tuple) \
                    and len(v.args[0].elts) == 2 and isinstance(v.args[0].elts[0], ast.Name) and v.args[0].elts[0].id == s.targets[0].id:
                x = v.args[0].elts[1]
                if place(x) in FIELD:
                    f = FIELD[place(x)]
                elif isinstance(x, ast.Subscript) and same(x.value, LOGGER + ".S"):
                    # the SD supplement: emitted as its own definition src_fs_sdsuppl over the log; the vectors take its VALUE as the parameter sdsup
                    txt, fr = idx_item(x.slice, locs)
                    if "sdsuppl" in guards and guards["sdsuppl"][0] != f"(nthq logS {txt})":
                        fail(x, "two different SD supplements")
                    guards["sdsuppl"] = (f"(nthq logS {txt})", set(fr) | {"logS"})
                    f = "sdsup"
                else:
                    fail(x, "supplement value is not self.yval / self.fval / self.fsd / function_logger.S[<index>]")
                vecs[s.targets[0].id] = ("app", vecs[s.targets[0].id], f)
                continue
        fail(s, "statement of the supplement block not understood")


def strip_scalar(n):
    """x.item() | float(x) -> x"""
    while True:
        if isinstance(n, ast.Call) and isinstance(n.func, ast.Attribute) and n.func.attr == "item" and not n.args and not n.keywords:
            n = n.func.value
        elif isinstance(n, ast.Call) and isinstance(n.func, ast.Name) and n.func.id == "float" and len(n.args) == 1 and not n.keywords:
            n = n.args[0]
        else:
            return n


def stat_of(n, vecs, name):
    """np.<name>(<vec>) without keyword arguments -> the vector's symbolic value"""
    n = strip_scalar(n)
    if isinstance(n, ast.Call) and TL.is_np(n.func, name) and len(n.args) == 1 and not n.keywords and isinstance(n.args[0], ast.Name) and n.args[0].id in vecs:
        return vecs[n.args[0].id]
    return None


# ----------------------------------------------------------------------------- display whitelist

def call_name(c):
    f = c.func
    if isinstance(f, ast.Attribute):
        b = dotted(f.value)
        return None if b is None else b + "." + f.attr
    return dotted(f)


def is_display(s, display_locals):
    """timing / logging: writes only display places, calls only whitelisted functions, never reads through a call we do not know"""
    for p in stored_places(s):
        if p not in DISPLAY_STORES and p not in display_locals:
            return False
    for t in TL.stores_of(s):
        if place(t) is None:
            return False
    for n in ast.walk(s):
        if isinstance(n, ast.Call):
            nm = call_name(n)
            if nm in DISPLAY_CALLS:
                continue
            if isinstance(n.func, ast.Attribute) and n.func.attr == "copy" and not n.args and not n.keywords and place(n.func.value) == "self.yval":
                continue
            return False
        if isinstance(n, (ast.NamedExpr, ast.Await, ast.Yield, ast.YieldFrom, ast.Lambda, ast.For, ast.While, ast.Try, ast.With, ast.Return, ast.Raise,
                          ast.Delete, ast.Global, ast.Nonlocal, ast.Import, ast.ImportFrom)):
            return False
    return isinstance(s, (ast.Assign, ast.Expr, ast.If))


# ----------------------------------------------------------------------------- the tail of optimize()

def parse_tail(fn, defs, info):
    body = TL.body_wo_doc(fn)
    region("final:guard")
    iw = find_one(body, lambda s: isinstance(s, ast.While), "while loop", fn)
    tail = body[iw + 1:]
    is_noisy = lambda s: isinstance(s, ast.If) and any(isinstance(c, ast.Call) and same(c.func, "self._re_evaluate_history_") for c in ast.walk(s))
    i_g = find_one(tail, is_noisy, "noisy end-game block (the `if` holding self._re_evaluate_history_)", fn)
    G = tail[i_g]
    if G.orelse:
        fail(G, "the noisy end-game guard has an else arm (the deterministic branch is expected to do nothing)")
    st = TL.seed(TL.State({}, {"poll_iteration": "Z"}), poll_iteration="piter")
    defs.append(("final_guard", ["level", "piter"], "bool", TL.coq(TL.coerce(TL.tr(G.test, st), "B", G.test)), TL.free(TL.tr(G.test, st))))

    # --- selection
    region("final:select")
    B = G.body
    if not (B and isinstance(B[0], ast.Expr) and same(B[0].value, "self._re_evaluate_history_(gp)")):
        fail(G, "the noisy end-game does not start with self._re_evaluate_history_(gp)")
    i_r = find_one(B, lambda s: isinstance(s, ast.If) and any(isinstance(c, ast.Call) and same(c.func, "self.function_logger") for c in ast.walk(s)),
                   "re-sampling block (the `if` holding the logger call)", G)
    env, sel, idx_name, skip, score, qarg = {}, {}, None, None, None, None
    stz = TL.seed(TL.State({}, {"poll_iteration": "Z"}), poll_iteration="piter")
    for s in B[1:i_r]:
        # sigma = np.sqrt(2) * erfcinv(<arg>)
        if isinstance(s, ast.Assign) and len(s.targets) == 1 and isinstance(s.targets[0], ast.Name) and isinstance(s.value, ast.BinOp) \
                and isinstance(s.value.op, ast.Mult) and same(s.value.left, "np.sqrt(2)") and isinstance(s.value.right, ast.Call) \
                and isinstance(s.value.right.func, ast.Name) and s.value.right.func.id == "erfcinv" and len(s.value.right.args) == 1 and not s.value.right.keywords:
            if qarg is not None:
                fail(s, "second quantile multiplier")
            qarg = trq(s.value.right.args[0], {})
            env[s.targets[0].id] = ("par", "sigma")
            continue
        # idx = np.argmin(q[<skip>:])
        if isinstance(s, ast.Assign) and len(s.targets) == 1 and isinstance(s.targets[0], ast.Name) and isinstance(s.value, ast.Call) \
                and TL.is_np(s.value.func, "argmin") and len(s.value.args) == 1 and not s.value.keywords:
            a = s.value.args[0]
            if isinstance(a, ast.Name) and a.id in env and env[a.id][0] == "score":
                skip = 0
            elif isinstance(a, ast.Subscript) and isinstance(a.value, ast.Name) and a.value.id in env and env[a.value.id][0] == "score" \
                    and isinstance(a.slice, ast.Slice) and a.slice.upper is None and a.slice.step is None and \
                    (a.slice.lower is None or (isinstance(a.slice.lower, ast.Constant) and type(a.slice.lower.value) is int and a.slice.lower.value >= 0)):
                skip = 0 if a.slice.lower is None else a.slice.lower.value
            else:
                fail(s, "np.argmin is not applied to the quantile scores (optionally without their first rows)")
            if idx_name is not None:
                fail(s, "second argmin")
            idx_name = s.targets[0].id
            stz.local_ty[idx_name] = "Z"
            stz.v[idx_name] = ("par", "am")
            continue
        # q = history("fval") + sigma * history("fsd")
        if isinstance(s, ast.Assign) and len(s.targets) == 1 and isinstance(s.targets[0], ast.Name) and isinstance(s.value, ast.BinOp) and idx_name is None \
                and any(isinstance(c, ast.Call) and same(c.func, "self.iteration_history.get") for c in ast.walk(s.value)):
            if score is not None:
                fail(s, "second score vector")
            score = trq(s.value, {k: v for k, v in env.items() if v[0] == "par"})
            env[s.targets[0].id] = ("score",)
            continue
        # idx += 1
        if isinstance(s, ast.AugAssign) and isinstance(s.target, ast.Name) and s.target.id == idx_name:
            stz = TL.exec_stmt(s, stz, TL.Ctx(), {})
            continue
        # restores
        if isinstance(s, ast.Assign) and len(s.targets) == 1 and place(s.targets[0]) in ("self.yval", "self.fval", "self.fsd", "self.u"):
            p = place(s.targets[0])
            h = TL.hist_read(s.value, stz)
            if h is None:
                fail(s, f"{p} is not restored from a history row")
            if p in sel:
                fail(s, f"{p} restored twice")
            sel[p] = (h[1], h[2])
            continue
        if isinstance(s, ast.Assign) and len(s.targets) == 1 and place(s.targets[0]) == "self.u_best" and same(s.value, "self.u.copy()") and "self.u" in sel:
            continue
        if isinstance(s, ast.Assign) and len(s.targets) == 1 and (place(s.targets[0]) == "self.best_gp_hyp" or
                                                                  (isinstance(s.targets[0], ast.Name) and s.targets[0].id == "gp")) \
                and TL.hist_read(s.value, stz) is not None and TL.hist_read(s.value, stz)[1] in ("gp_hyp_full", "gp"):
            continue
        fail(s, "statement of the selection of the returned iterate not understood")
    if qarg is None or score is None or idx_name is None or set(sel) != {"self.yval", "self.fval", "self.fsd", "self.u"}:
        fail(G, "the selection of the returned iterate is incomplete (quantile multiplier / scores / argmin / the four restores)")
    defs.append(("sel_quantile_arg", ["fq"], "Q", q_coq(qarg), q_free(qarg)))
    defs.append(("sel_score", ["sigma", "h_fval", "h_fsd"], "Q", q_coq(score), q_free(score)))
    defs.append(("sel_skip", [], "Z", str(skip), set()))
    for p, nm in (("self.yval", "y"), ("self.fval", "f"), ("self.fsd", "s"), ("self.u", "u")):
        defs.append((f"sel_idx_{nm}", ["am", "piter"], "Z", TL.coq(TL.coerce(sel[p][1], "Z", G)), TL.free(sel[p][1])))
    keys = [sel[p][0] for p in ("self.yval", "self.fval", "self.fsd", "self.u")]
    defs.append(("sel_keys", [], "list string", "[" + "; ".join(cstr(k) for k in keys) + "]", set()))
    info["qarg"], info["score"] = qarg, score

    # --- re-sampling
    region("final:resample")
    R = B[i_r]
    if R.orelse:
        fail(R, "the re-sampling guard has an else arm")
    if B[i_r + 1:]:
        fail(B[i_r + 1], "statements after the re-sampling block inside the noisy end-game")
    stg = TL.State({}, {})
    g = TL.coerce(TL.tr(R.test, stg), "B", R.test)
    defs.append(("fs_guard", ["nfs"], "bool", TL.coq(g), TL.free(g)))
    RB = R.body
    i_for = find_one(RB, lambda s: isinstance(s, ast.For), "for loop of the final samples", R)
    F = RB[i_for]
    vec_alloc = {}
    for s in RB[:i_for]:
        if isinstance(s, ast.Assign) and len(s.targets) == 1 and isinstance(s.targets[0], ast.Name) and isinstance(s.value, ast.Call) \
                and TL.is_np(s.value.func, "empty") and len(s.value.args) == 1 and not s.value.keywords:
            vec_alloc[s.targets[0].id] = TL.coerce(TL.tr(s.value.args[0], stg), "Z", s)
            continue
        fail(s, "statement before the loop of the final samples is not `<vec> = np.empty(<size>)`")
    if not (isinstance(F.target, ast.Name) and not F.orelse and isinstance(F.iter, ast.Call) and isinstance(F.iter.func, ast.Name) and F.iter.func.id == "range"
            and len(F.iter.args) == 1 and not F.iter.keywords):
        fail(F, "the loop of the final samples is not `for <i> in range(<count>):`")
    cnt = TL.coerce(TL.tr(F.iter.args[0], stg), "Z", F)
    ivar = F.target.id
    if len(F.body) != 3:
        fail(F, "the loop of the final samples does not consist of the logger call and the two stores")
    c0 = F.body[0]
    if not (isinstance(c0, ast.Assign) and len(c0.targets) == 1 and isinstance(c0.targets[0], ast.Tuple) and len(c0.targets[0].elts) == 3
            and all(isinstance(e, ast.Name) for e in c0.targets[0].elts) and isinstance(c0.value, ast.Call) and same(c0.value.func, "self.function_logger")):
        fail(c0, "the first statement of the loop is not `<y>, <sd>, <idx> = self.function_logger(...)`")
    tup = [e.id for e in c0.targets[0].elts]
    call = c0.value
    if len(call.args) != 1 or any(k.arg != "record_duplicate_data" for k in call.keywords) or len(call.keywords) > 1:
        fail(call, "the logger call of the final samples has unexpected arguments")
    argp = place(call.args[0])
    if argp not in ("self.u", "self.x", "self.u_best"):
        fail(call, "the logger call of the final samples is not made at self.u / self.x / self.u_best")
    arg_code = {"self.u": 0, "self.x": 1, "self.u_best": 2}[argp]
    if call.keywords:
        kv = call.keywords[0].value
        if not (isinstance(kv, ast.Constant) and type(kv.value) is bool):
            fail(call, "record_duplicate_data is not a literal")
        flag = kv.value
    else:
        flag = logger_default_flag()
    vecs = {}
    for s in F.body[1:]:
        ok = isinstance(s, ast.Assign) and len(s.targets) == 1 and isinstance(s.targets[0], ast.Subscript) and isinstance(s.targets[0].value, ast.Name) \
            and s.targets[0].value.id in vec_alloc and isinstance(s.targets[0].slice, ast.Name) and s.targets[0].slice.id == ivar \
            and isinstance(s.value, ast.Name) and s.value.id in tup[:2]
        if not ok or s.targets[0].value.id in vecs:
            fail(s, "store of the loop of the final samples is not `<vec>[<i>] = <y | sd>`")
        vecs[s.targets[0].value.id] = ("fresh", tup.index(s.value.id))
    if set(vecs) != set(vec_alloc) or len(vecs) != 2:
        fail(F, "the two vectors allocated before the loop are not the two vectors filled in it")
    # after the loop: supplement, stores, estimates, history records
    guards, stored, est = {}, {}, {}
    rest = RB[i_for + 1:]
    for j, s in enumerate(rest):
        if isinstance(s, ast.If):
            if stored or est:
                fail(s, "supplement after the vectors were stored / the estimates computed")
            exec_vec([s], vecs, guards)
            continue
        if isinstance(s, ast.Assign) and len(s.targets) == 1 and place(s.targets[0]) in ("optim_state[yval_vec]", "optim_state[ysd_vec]"):
            v, p = s.value, place(s.targets[0])
            nm = None
            if isinstance(v, ast.Call) and TL.is_np(v.func, "copy") and len(v.args) == 1 and not v.keywords and isinstance(v.args[0], ast.Name):
                nm = v.args[0].id
            elif isinstance(v, ast.Call) and isinstance(v.func, ast.Attribute) and v.func.attr == "copy" and not v.args and not v.keywords and isinstance(v.func.value, ast.Name):
                nm = v.func.value.id
            if nm not in vecs or p in stored:
                fail(s, f"{p} is not stored once from a copy of one of the two sample vectors")
            stored[p] = vecs[nm]
            continue
        if isinstance(s, ast.Assign) and len(s.targets) == 1 and place(s.targets[0]) in ("self.fval", "self.fsd"):
            p = place(s.targets[0])
            if p in est:
                fail(s, f"{p} estimated twice")
            est[p] = (s.value, dict(vecs))
            continue
        if isinstance(s, ast.Expr) and isinstance(s.value, ast.Call) and same(s.value.func, "self.iteration_history.record") and len(s.value.args) == 3 \
                and not s.value.keywords and isinstance(s.value.args[0], ast.Constant) and s.value.args[0].value in ("fval", "fsd") \
                and place(s.value.args[1]) == "self." + s.value.args[0].value and isinstance(s.value.args[2], ast.Name) and s.value.args[2].id == "poll_iteration" \
                and "self." + s.value.args[0].value in est:
            continue
        fail(s, "statement after the loop of the final samples not understood")
    if set(stored) != {"optim_state[yval_vec]", "optim_state[ysd_vec]"} or set(est) != {"self.fval", "self.fsd"}:
        fail(R, "the re-sampling block does not store both vectors and estimate both fval and fsd")
    if "suppl" not in guards:
        guards["suppl"] = ("bool", False)
    yv = stored["optim_state[yval_vec]"]
    VP = ["ys", "sds", "cy", "cf", "cs", "sdsup", "spec"]
    defs.append(("fs_alloc_y", ["nfs"], "Z", TL.coq(vec_alloc[[k for k, v in vecs.items()][0]]), TL.free(vec_alloc[[k for k in vecs][0]])))
    defs.append(("fs_alloc_sd", ["nfs"], "Z", TL.coq(vec_alloc[[k for k in vecs][1]]), TL.free(vec_alloc[[k for k in vecs][1]])))
    defs.append(("fs_count", ["nfs"], "Z", TL.coq(cnt), TL.free(cnt)))
    defs.append(("fs_call_arg", [], "Z", str(arg_code), set()))
    defs.append(("fs_record_flag", [], "bool", "true" if flag else "false", set()))
    defs.append(("fs_suppl_guard", ["n"], "bool", TL.coq(guards["suppl"]), TL.free(guards["suppl"])))
    defs.append(("fs_yvec", VP, "list Q", v_coq(yv), v_free(yv)))
    defs.append(("fs_sdvec", VP, "list Q", v_coq(stored["optim_state[ysd_vec]"]), v_free(stored["optim_state[ysd_vec]"])))
    sup = guards.get("sdsuppl", ("(0 # 1)", set()))
    defs.append(("fs_sdsuppl", ["logX", "logS", "u", "xn"], "Q", sup[0], sup[1]))
    # fval = mean(<stored y vector>)
    fv_node, fv_vecs = est["self.fval"]
    m = stat_of(fv_node, fv_vecs, "mean")
    if m is None:
        fail(fv_node, "self.fval is not np.mean(<sample vector>) (optionally .item() / float())")
    defs.append(("fs_fval_is_mean_of_yvec", [], "bool", "true" if m == yv else "false", set()))
    # fsd = std(<stored y vector>) / sqrt(<divisor>)
    fs_node, fs_vecs = est["self.fsd"]
    e = strip_scalar(fs_node)
    if not (isinstance(e, ast.BinOp) and isinstance(e.op, ast.Div) and stat_of(e.left, fs_vecs, "std") is not None and isinstance(e.right, ast.Call)
            and TL.is_np(e.right.func, "sqrt") and len(e.right.args) == 1 and not e.right.keywords):
        fail(fs_node, "self.fsd is not np.std(<sample vector>) / np.sqrt(<divisor>)")
    sd_v = stat_of(e.left, fs_vecs, "std")
    # the divisor: an integer expression over the size of the stored y vector
    div = e.right.args[0]
    sizes = [n for n in ast.walk(div) if size_of(n, fs_vecs) is not None]
    size_ok = all(size_of(n, fs_vecs) == yv for n in sizes)

    class Sub(ast.NodeTransformer):
        def visit(self, node):
            if size_of(node, fs_vecs) is not None:
                return ast.Name(id="__n", ctx=ast.Load())
            return self.generic_visit(node)
    div2 = ast.fix_missing_locations(Sub().visit(ast.parse(ast.unparse(div), mode="eval").body))
    std_ = TL.State({}, {})
    std_.loc["__n"] = ("par", "n")
    dv = TL.coerce(TL.tr(div2, std_), "Z", div)
    defs.append(("fs_fsd_is_std_over_sqrt", [], "bool", "true" if (sd_v == yv and size_ok) else "false", set()))
    defs.append(("fs_sem_div", ["n"], "Z", TL.coq(dv), TL.free(dv)))
    info["logger_call_sites_in_tail"] = sum(1 for s in tail for c in ast.walk(s) if isinstance(c, ast.Call) and same(c.func, "self.function_logger"))
    if info["logger_call_sites_in_tail"] != 1:
        fail(fn, "more than one logger call site after the loop")

    # --- x, display, result
    region("final:x")
    i_x = find_one(tail, lambda s: assigns_place(s, "self.x"), "store to self.x", fn)
    xs = tail[i_x]
    if not (isinstance(xs, ast.Assign) and len(xs.targets) == 1):
        fail(xs, "self.x is not stored by a plain assignment")
    known_x = {"self.var_transf.inverse_transf(self.u)": "inverse_transf(self.u)", "self.var_transf.inverse_transf(self.u_best)": "inverse_transf(self.u_best)",
               "self.u": "self.u", "self.u.copy()": "self.u"}
    xsrc = next((v for k, v in known_x.items() if same(xs.value, k)), None)
    if xsrc is None:
        fail(xs, "self.x is not computed from self.u by var_transf.inverse_transf")
    if i_x < i_g:
        fail(xs, "self.x is computed before the returned iterate is chosen")
    defs.append(("x_source", [], "string", cstr(xsrc), set()))
    region("final:result")
    i_res = find_one(tail, lambda s: any(isinstance(c, ast.Call) and isinstance(c.func, ast.Name) and c.func.id == "OptimizeResult" for c in ast.walk(s)),
                     "construction of the OptimizeResult", fn)
    rs = tail[i_res]
    if not (isinstance(rs, ast.Assign) and len(rs.targets) == 1 and isinstance(rs.targets[0], ast.Name) and isinstance(rs.value, ast.Call)
            and len(rs.value.args) == 1 and not rs.value.keywords and isinstance(rs.value.args[0], ast.Name)):
        fail(rs, "the result is not `<name> = OptimizeResult(<object>)`")
    if not (i_res == len(tail) - 2 and isinstance(tail[-1], ast.Return) and isinstance(tail[-1].value, ast.Name) and tail[-1].value.id == rs.targets[0].id):
        fail(tail[-1], "optimize() does not end with `return <the OptimizeResult just built>`")
    if i_res < i_x:
        fail(rs, "the OptimizeResult is built before self.x is computed")
    defs.append(("result_ctor_arg", [], "string", cstr(rs.value.args[0].id), set()))
    region("final:display")
    display_locals = set()
    for i, s in enumerate(tail):
        if i in (i_g, i_x, i_res, len(tail) - 1):
            continue
        # `yval_vec = self.yval if np.isscalar(self.yval) else self.yval.copy()` before the guard: a display local (read only by the log lines)
        if isinstance(s, ast.Assign) and len(s.targets) == 1 and isinstance(s.targets[0], ast.Name) and i < i_g and \
                all(place(n) == "self.yval" or isinstance(n, (ast.IfExp, ast.Call, ast.Name, ast.Load, ast.Attribute)) for n in ast.walk(s.value)) and \
                {place(n) for n in ast.walk(s.value) if isinstance(n, ast.Attribute) and place(n)} <= {"self.yval"}:
            display_locals.add(s.targets[0].id)
        if not is_display(s, display_locals):
            fail(s, "statement after the loop is neither part of a modelled region nor a whitelisted timing / logging statement")
    # the display locals may be read only by display statements (never stored into the state)
    for nm in display_locals:
        for i, s in enumerate(tail):
            if i in (i_x, i_res) and any(isinstance(n, ast.Name) and n.id == nm for n in ast.walk(s)):
                fail(s, f"display local {nm} flows into the result")
    info["tail_statements"] = len(tail)


def logger_default_flag():
    with warnings.catch_warnings():
        warnings.simplefilter("ignore")
        tree = ast.parse((REPO / SRC_LOG).read_text())
    for n in ast.walk(tree):
        if isinstance(n, ast.FunctionDef) and n.name == "__call__":
            names = [a.arg for a in n.args.args]
            if "record_duplicate_data" in names:
                d = n.args.defaults[names.index("record_duplicate_data") - (len(names) - len(n.args.defaults))]
                if isinstance(d, ast.Constant) and type(d.value) is bool:
                    return d.value
    raise Untranslatable("default of record_duplicate_data not found in FunctionLogger.__call__", "final:resample")


# ----------------------------------------------------------------------------- OptimizeResult.set_attributes

def cstr(s):
    return '"' + s.replace('"', '""') + '"'


def parse_result(defs, info):
    region("final:result")
    TL.SRC = SRC_RES
    with warnings.catch_warnings():
        warnings.simplefilter("ignore")
        tree = ast.parse((REPO / SRC_RES).read_text())
    cls = [n for n in tree.body if isinstance(n, ast.ClassDef) and n.name == "OptimizeResult"]
    if len(cls) != 1:
        raise Untranslatable("class OptimizeResult not found exactly once", "final:result")
    meths = {n.name: n for n in cls[0].body if isinstance(n, ast.FunctionDef)}
    init = meths.get("__init__")
    ib = TL.body_wo_doc(init) if init else []
    ok = init is not None and [a.arg for a in init.args.args] == ["self", "bads"] and len(ib) == 2 and same(ib[0].value if isinstance(ib[0], ast.Expr) else ib[0], "super().__init__()") \
        and isinstance(ib[1], ast.If) and same(ib[1].test, "bads is not None") and not ib[1].orelse and len(ib[1].body) == 1 \
        and isinstance(ib[1].body[0], ast.Expr) and same(ib[1].body[0].value, "self.set_attributes(bads)")
    if not ok:
        fail(init or cls[0], "OptimizeResult.__init__ is not `super().__init__(); if bads is not None: self.set_attributes(bads)`")
    sa = meths.get("set_attributes")
    if sa is None or [a.arg for a in sa.args.args] != ["self", "bads"]:
        fail(cls[0], "set_attributes(self, bads) not found")
    setitem = meths.get("__setitem__")
    if setitem is None or not any(isinstance(c, ast.Call) and same(c.func, "dict.__setitem__") for c in ast.walk(setitem)):
        fail(cls[0], "__setitem__ does not store through dict.__setitem__")

    def key_of(s):
        if isinstance(s, ast.Assign) and len(s.targets) == 1 and isinstance(s.targets[0], ast.Subscript) and isinstance(s.targets[0].value, ast.Name) \
                and s.targets[0].value.id == "self" and isinstance(s.targets[0].slice, ast.Constant) and isinstance(s.targets[0].slice.value, str):
            return s.targets[0].slice.value
        return None

    def pure(e):
        for n in ast.walk(e):
            if isinstance(n, (ast.NamedExpr, ast.Await, ast.Yield, ast.YieldFrom, ast.Lambda)):
                return False
        return True

    def arm(stmts, node):
        """a block assigning exactly one key -> (key, source text)"""
        if len(stmts) != 1:
            fail(node, "an arm of a conditional of set_attributes does not consist of one assignment / one nested conditional")
        s = stmts[0]
        k = key_of(s)
        if k is not None:
            if not pure(s.value):
                fail(s, "source expression not understood")
            return k, ast.unparse(s.value)
        if isinstance(s, ast.If) and s.orelse:
            ka, a = arm(s.body, s)
            kb, b = arm(s.orelse, s)
            if ka != kb or not pure(s.test):
                fail(s, "the arms of a conditional of set_attributes assign different keys")
            return ka, f"({a}) if ({ast.unparse(s.test)}) else ({b})"
        fail(s, "statement of set_attributes not understood")

    pairs, locals_ = [], {}
    for s in TL.body_wo_doc(sa):
        k = key_of(s)
        if k is not None:
            if not pure(s.value):
                fail(s, "source expression not understood")
            txt = ast.unparse(s.value)
            if isinstance(s.value, ast.Name) and s.value.id in locals_:
                txt = locals_[s.value.id]
            pairs.append((k, txt))
            continue
        if isinstance(s, ast.If) and s.orelse:
            pairs.append(arm([s], s))
            continue
        # try: __version__ = version("pybads") except PackageNotFoundError: __version__ = None; <logging>
        if isinstance(s, ast.Try) and len(s.body) == 1 and isinstance(s.body[0], ast.Assign) and len(s.body[0].targets) == 1 and isinstance(s.body[0].targets[0], ast.Name) \
                and same(s.body[0].value, 'version("pybads")') and len(s.handlers) == 1 and not s.orelse and not s.finalbody:
            nm = s.body[0].targets[0].id
            h = s.handlers[0]
            hb_ok = h.body and isinstance(h.body[0], ast.Assign) and len(h.body[0].targets) == 1 and isinstance(h.body[0].targets[0], ast.Name) \
                and h.body[0].targets[0].id == nm and isinstance(h.body[0].value, ast.Constant) and h.body[0].value.value is None
            for x in h.body[1:]:
                if not ((isinstance(x, ast.Assign) and len(x.targets) == 1 and isinstance(x.targets[0], ast.Name) and same(x.value, 'logging.getLogger("BADS")')) or
                        (isinstance(x, ast.Expr) and isinstance(x.value, ast.Call) and call_name(x.value) in ("logger.warning", "logger.warn"))):
                    hb_ok = False
            if not hb_ok:
                fail(s, "the version lookup of set_attributes is not the whitelisted try / except")
            locals_[nm] = "installed version of 'pybads', None when the package metadata is missing"
            continue
        if isinstance(s, ast.Expr) and isinstance(s.value, ast.Constant) and isinstance(s.value.value, str):
            continue
        fail(s, "statement of set_attributes not understood")
    ks = [k for k, _ in pairs]
    if len(set(ks)) != len(ks):
        fail(sa, f"a key is assigned twice by set_attributes: {ks}")
    defs.append(("result_assembly", [], "list (string * string)", "[" + ";\n   ".join(f"({cstr(k)}, {cstr(v)})" for k, v in pairs) + "]", set()))
    info["result_assembly"] = pairs
    TL.SRC = SRC


# ----------------------------------------------------------------------------- driver

BINDER_TY = {"level": "Z", "piter": "Z", "nfs": "Z", "am": "Z", "n": "Z", "fq": "Q", "sigma": "Q", "h_fval": "Q", "h_fsd": "Q",
             "ys": "list Q", "sds": "list Q", "cy": "Q", "cf": "Q", "cs": "Q", "sdsup": "Q", "spec": "bool", "logX": "list (list Q)", "logS": "list Q", "u": "list Q", "xn": "Z"}

REGION_OF = {"final_guard": "guard", "sel_quantile_arg": "select", "sel_score": "select", "sel_skip": "select", "sel_idx_y": "select", "sel_idx_f": "select",
             "sel_idx_s": "select", "sel_idx_u": "select", "sel_keys": "select", "fs_guard": "resample", "fs_alloc_y": "resample", "fs_alloc_sd": "resample",
             "fs_count": "resample", "fs_call_arg": "resample", "fs_record_flag": "resample", "fs_suppl_guard": "resample", "fs_yvec": "resample",
             "fs_sdvec": "resample", "fs_sdsuppl": "resample", "fs_fval_is_mean_of_yvec": "resample", "fs_fsd_is_std_over_sqrt": "resample", "fs_sem_div": "resample",
             "x_source": "x", "result_ctor_arg": "result", "result_assembly": "result"}


def parse():
    with _Tables():
        TL.SRC = SRC
        with warnings.catch_warnings():
            warnings.simplefilter("ignore")
            tree = ast.parse((REPO / SRC).read_text())
        methods, cls = TL.methods_of(tree)
        if "optimize" not in methods:
            raise Untranslatable("method optimize not found", "final:guard")
        defs, info = [], {}
        parse_tail(methods["optimize"], defs, info)
        parse_result(defs, info)
        region("final:driver")
        names = [d[0] for d in defs]
        if len(set(names)) != len(names) or set(names) != set(REGION_OF):
            raise Untranslatable(f"definitions emitted {names} are not the fixed set", "final:driver")
        for name, params, t, body, fr in defs:
            extra = set(fr) - set(params)
            if extra:
                raise Untranslatable(f"definition {name} reads {sorted(extra)}, which the modelled expression does not", "final:" + REGION_OF[name])
        info["definitions"] = names
        return defs, info


def render(defs):
    lines = ["(* GENERATED by translate/final.py from " + SRC + " (the statements of optimize() after the main loop) and " + SRC_RES,
             "   (OptimizeResult.set_attributes) on every ./check run - do not edit, never committed.",
             "   Parameters: level = optim_state['uncertainty_handling_level'], piter = the local poll_iteration, nfs = options['noise_final_samples'] (after the reserve),",
             "   fq = options['final_quantile'], sigma = sqrt(2) * erfcinv(src_sel_quantile_arg fq) (oracle), h_fval / h_fsd = one row of the re-estimated history,",
             "   am = np.argmin over the scores without their first src_sel_skip rows (oracle), ys / sds = the fresh observations / reported SDs in call order,",
             "   cy cf cs = yval / fval / fsd of the chosen iterate, sdsup = src_fs_sdsuppl logX logS u xn (the SD supplement; logX / logS = the logger's X / S rows, u = self.u, xn = function_logger.Xn), spec = options['specify_target_noise'],",
             "   n = size of the stored y vector.  src_fs_call_arg: 0 = self.u, 1 = self.x, 2 = self.u_best. *)",
             "From Coq Require Import ZArith QArith Bool List String.", "From PV Require Import Model.FinalLib.", "Import ListNotations.", "Open Scope Z_scope.", ""]
    for name, params, t, body, fr in defs:
        binder = "".join(f" ({p} : {BINDER_TY[p]})" for p in params)
        if t in ("string", "list string", "list (string * string)"):
            body = f"({body})%string"
        lines.append(f"Definition src_{name}{binder} : {t} := {body}.")
    return "\n".join(lines) + "\n"


LAST = {}


def changed_definitions(defs):
    try:
        base = json.loads(Path(__file__).with_name("final_baseline.json").read_text())
    except Exception:
        return None
    return [name for name, params, t, body, fr in defs if base.get(name) != body]


def emit():
    try:
        defs, info = parse()
        text = render(defs)
    except Exception as ex:      # fail closed on ANYTHING (also a crash of the translator itself): never leave a stale translation behind
        OUT.parent.mkdir(parents=True, exist_ok=True)
        OUT.write_text("(* GENERATED by translate/final.py: the source is NOT translatable, no definition emitted.\n   "
                       + repr(ex).replace("*)", "* )").replace("(*", "( *") + " *)\n")
        LAST.update(region=getattr(ex, "region", TL._REGION[0]), changed=None, error=repr(ex), defs=None, info=None)
        if isinstance(ex, Untranslatable):
            raise
        raise Untranslatable(f"translator crashed: {ex!r}", TL._REGION[0])
    OUT.parent.mkdir(parents=True, exist_ok=True)
    if not OUT.exists() or OUT.read_text() != text:
        OUT.write_text(text)
    ch = changed_definitions(defs)
    LAST.update(region=None, changed=ch, error=None, defs=defs, info=info)
    return dict(emitted=str(OUT), definitions=len(defs), changed_vs_baseline=ch, tail_statements=info.get("tail_statements"))


def regions_to_search():
    """'guard' / 'select' / 'resample' / 'x' / 'result' tags the plug-ins direct their search at; [] = nothing known (search everything)"""
    if LAST.get("region"):
        r = LAST["region"]
        for tag in ("guard", "select", "resample", "result", "display"):
            if tag in r:
                return [tag]
        if r.endswith(":x"):
            return ["x"]
        return ["any"]
    if LAST.get("changed"):
        return sorted({REGION_OF.get(n, "any") for n in LAST["changed"]})
    return []


if __name__ == "__main__":
    import sys
    if "--baseline" in sys.argv:
        defs, info = parse()
        Path(__file__).with_name("final_baseline.json").write_text(json.dumps({d[0]: d[3] for d in defs}, indent=1) + "\n")
    print(json.dumps(emit(), indent=1, default=str))
    print(OUT.read_text())
