"""Fail-closed translator: body of pybads/acquisition_functions/acq_fcn_lcb.py -> coq/gen/Src_lcb.v (over R).

Accepted shape of `acq_fcn_lcb(xi, func_count, gp, sqrt_beta=None)` (anything else raises Untranslatable,
which ./check counts as a broken tie):

    <name> = xi.shape[0|1]                 -> shape[1] becomes the real parameter n_vars, shape[0] is ignored
    t = <expr>                             -> Definition
    if sqrt_beta is None:                  -> the DEFAULT branch is the translated one
        a, b = <lit>, <lit>                -> Definitions
        sqrt_beta = <expr>                 -> Definition
    elif ...: sqrt_beta = <call> | raise   -> user-supplied schedules: not translated, must not bind other names
    f_mu, f_s2 = gp.predict(xi)            -> two real parameters (GP mean and variance: oracle)
    f_s = <expr>; z = <expr>               -> Definitions
    return z, f_mu, f_s

Expression grammar: + - * / , ** <non-negative int literal>, unary minus, bound names, int literals, decimal
literals, np.sqrt, np.log, np.pi.  Decimal literals are translated as the decimal rational WRITTEN in the source
text ("0.1" -> 1/10): the binary64 rounding of literals (0.1 is not 1/10 in IEEE) is outside the model.

`evaluate(defs, env)` interprets the same intermediate tree in Python floats; the C15 tie compares it with the real
function on generated inputs (translator validation).
"""
from __future__ import annotations

import ast
import math
import os
import re
from pathlib import Path

VERIF = Path(__file__).resolve().parent.parent
REPO = Path(os.environ.get("VERIF_REPO", "/repo"))
SRC = "pybads/acquisition_functions/acq_fcn_lcb.py"
OUT = VERIF / "coq" / "gen" / "Src_lcb.v"
PARAMS = ["n_vars", "func_count", "f_mu", "f_s2"]


class Untranslatable(Exception):
    pass


def _fail(node, why):
    raise Untranslatable(f"{SRC}:{getattr(node, 'lineno', '?')}: {why}: {ast.dump(node)[:160] if isinstance(node, ast.AST) else node}")


def _is_np(node, name):
    return (isinstance(node, ast.Attribute) and isinstance(node.value, ast.Name) and node.value.id == "np"
            and node.attr == name)


def expr(node, bound, src):
    """ast expression -> IR tuple."""
    if isinstance(node, ast.BinOp):
        if isinstance(node.op, ast.Pow):
            if not (isinstance(node.right, ast.Constant) and type(node.right.value) is int and 0 <= node.right.value <= 8):
                _fail(node, "exponent is not a small non-negative integer literal")
            return ("pow", expr(node.left, bound, src), node.right.value)
        ops = {ast.Add: "+", ast.Sub: "-", ast.Mult: "*", ast.Div: "/"}
        if type(node.op) not in ops:
            _fail(node, "operator not in grammar")
        return ("bin", ops[type(node.op)], expr(node.left, bound, src), expr(node.right, bound, src))
    if isinstance(node, ast.UnaryOp) and isinstance(node.op, ast.USub):
        return ("neg", expr(node.operand, bound, src))
    if isinstance(node, ast.Constant):
        text = ast.get_source_segment(src, node)
        if type(node.value) is int and re.fullmatch(r"\d+", text or ""):
            return ("int", int(text))
        if type(node.value) is float and re.fullmatch(r"\d+\.\d+", text or ""):
            ip, fp = text.split(".")
            return ("dec", int(ip + fp), 10 ** len(fp), text)
        _fail(node, "literal not in grammar")
    if isinstance(node, ast.Name):
        if node.id not in bound:
            _fail(node, f"free name {node.id}")
        return ("ref", node.id)
    if _is_np(node, "pi"):
        return ("pi",)
    if isinstance(node, ast.Call) and not node.keywords and len(node.args) == 1:
        if _is_np(node.func, "sqrt"):
            return ("sqrt", expr(node.args[0], bound, src))
        if _is_np(node.func, "log"):
            return ("ln", expr(node.args[0], bound, src))
    _fail(node, "expression not in grammar")


def parse():
    """Return (defs, info): defs = ordered list of (name, IR); raises Untranslatable."""
    path = REPO / SRC
    src = path.read_text()
    tree = ast.parse(src)
    fns = [n for n in tree.body if isinstance(n, ast.FunctionDef) and n.name == "acq_fcn_lcb"]
    if len(fns) != 1:
        raise Untranslatable("acq_fcn_lcb not found exactly once")
    fn = fns[0]
    args = [a.arg for a in fn.args.args]
    if args != ["xi", "func_count", "gp", "sqrt_beta"]:
        _fail(fn, f"unexpected signature {args}")
    if not (len(fn.args.defaults) == 1 and isinstance(fn.args.defaults[0], ast.Constant) and fn.args.defaults[0].value is None):
        _fail(fn, "sqrt_beta default is not None")
    body = list(fn.body)
    if body and isinstance(body[0], ast.Expr) and isinstance(body[0].value, ast.Constant) and isinstance(body[0].value.value, str):
        body = body[1:]
    bound = {"func_count": "param"}       # name -> kind
    defs = []
    seen_predict = seen_if = seen_return = False

    def define(name, ir):
        if name in bound and name != "sqrt_beta":
            _fail(name, f"name {name} bound twice")
        defs.append((name, ir))
        bound[name] = "def"

    for st in body:
        if seen_return:
            _fail(st, "statement after return")
        if isinstance(st, ast.Assign) and len(st.targets) == 1:
            tg, val = st.targets[0], st.value
            # name = xi.shape[k]
            if (isinstance(tg, ast.Name) and isinstance(val, ast.Subscript) and isinstance(val.value, ast.Attribute)
                    and isinstance(val.value.value, ast.Name) and val.value.value.id == "xi" and val.value.attr == "shape"
                    and isinstance(val.slice, ast.Constant) and val.slice.value in (0, 1)):
                if val.slice.value == 1:
                    if "n_vars" in bound.values():
                        _fail(st, "xi.shape[1] bound twice")
                    bound[tg.id] = "n_vars"
                else:
                    bound[tg.id] = "ignored"
                continue
            # f_mu, f_s2 = gp.predict(xi)
            if (isinstance(tg, ast.Tuple) and isinstance(val, ast.Call) and isinstance(val.func, ast.Attribute)
                    and val.func.attr == "predict" and isinstance(val.func.value, ast.Name) and val.func.value.id == "gp"
                    and len(val.args) == 1 and isinstance(val.args[0], ast.Name) and val.args[0].id == "xi" and not val.keywords):
                names = [e.id for e in tg.elts if isinstance(e, ast.Name)]
                if names != ["f_mu", "f_s2"] or seen_predict:
                    _fail(st, "gp.predict result not bound to (f_mu, f_s2) exactly once")
                bound["f_mu"] = "param"
                bound["f_s2"] = "param"
                seen_predict = True
                continue
            if isinstance(tg, ast.Name):
                usable = {k for k, v in bound.items() if v in ("param", "def", "n_vars")}
                define(tg.id, expr(val, usable, src))
                continue
            _fail(st, "assignment not in grammar")
        if isinstance(st, ast.If):
            if seen_if:
                _fail(st, "second if")
            seen_if = True
            t = st.test
            if not (isinstance(t, ast.Compare) and isinstance(t.left, ast.Name) and t.left.id == "sqrt_beta"
                    and len(t.ops) == 1 and isinstance(t.ops[0], ast.Is) and isinstance(t.comparators[0], ast.Constant)
                    and t.comparators[0].value is None):
                _fail(st, "first branch is not `sqrt_beta is None`")
            for s2 in st.body:
                if not (isinstance(s2, ast.Assign) and len(s2.targets) == 1):
                    _fail(s2, "statement in default branch not an assignment")
                tg, val = s2.targets[0], s2.value
                usable = {k for k, v in bound.items() if v in ("param", "def", "n_vars")}
                if isinstance(tg, ast.Tuple) and isinstance(val, ast.Tuple) and len(tg.elts) == len(val.elts):
                    for a, b in zip(tg.elts, val.elts):
                        if not isinstance(a, ast.Name):
                            _fail(s2, "tuple target")
                        ir = expr(b, usable, src)
                        if ir[0] not in ("int", "dec"):
                            _fail(s2, "tuple assignment of non-literals")
                        define(a.id, ir)
                elif isinstance(tg, ast.Name):
                    define(tg.id, expr(val, usable, src))
                else:
                    _fail(s2, "assignment not in grammar")
            if "sqrt_beta" not in bound:
                _fail(st, "default branch does not bind sqrt_beta")
            # the other branches: only `sqrt_beta = <call>` or raise
            rest = st.orelse
            while rest:
                if len(rest) != 1 or not isinstance(rest[0], ast.If):
                    _fail(rest[0], "else branch not an elif chain")
                for s2 in rest[0].body:
                    ok = isinstance(s2, ast.Raise) or (isinstance(s2, ast.Assign) and len(s2.targets) == 1
                                                       and isinstance(s2.targets[0], ast.Name)
                                                       and s2.targets[0].id == "sqrt_beta")
                    if not ok:
                        _fail(s2, "non-default branch binds something else than sqrt_beta")
                rest = rest[0].orelse
            continue
        if isinstance(st, ast.Return):
            v = st.value
            if not (isinstance(v, ast.Tuple) and [getattr(e, "id", None) for e in v.elts] == ["z", "f_mu", "f_s"]):
                _fail(st, "return is not (z, f_mu, f_s)")
            seen_return = True
            continue
        _fail(st, "statement not in grammar")
    names = [n for n, _ in defs]
    for need in ("t", "sqrt_beta", "f_s", "z"):
        if names.count(need) != 1:
            raise Untranslatable(f"{need} defined {names.count(need)} times")
    if not (seen_predict and seen_if and seen_return):
        raise Untranslatable("missing predict / default branch / return")
    nv = [k for k, v in bound.items() if v == "n_vars"]
    info = dict(source=str(path), definitions=names, n_vars_name=nv[0] if nv else None)
    return defs, bound, info


def coq_of(ir, bound):
    k = ir[0]
    if k == "int":
        return str(ir[1])
    if k == "dec":
        return f"({ir[1]} / {ir[2]})"
    if k == "pi":
        return "PI"
    if k == "ref":
        kind = bound[ir[1]]
        if kind == "n_vars":
            return "n_vars"
        if kind == "param":
            return ir[1]
        return "(lcb_" + ir[1] + " " + " ".join(PARAMS) + ")"
    if k == "neg":
        return f"(- {coq_of(ir[1], bound)})"
    if k == "bin":
        return f"({coq_of(ir[2], bound)} {ir[1]} {coq_of(ir[3], bound)})"
    if k == "pow":
        return f"({coq_of(ir[1], bound)} ^ {ir[2]})"
    if k == "sqrt":
        return f"(sqrt {coq_of(ir[1], bound)})"
    if k == "ln":
        return f"(ln {coq_of(ir[1], bound)})"
    raise Untranslatable("IR " + repr(ir))


def emit():
    defs, bound, info = parse()
    lines = ["(* GENERATED by translate/lcb.py from " + SRC + " on every ./check run - do not edit, never committed.",
             "   Parameters: n_vars = xi.shape[1], func_count, (f_mu, f_s2) = gp.predict(xi) (oracle reals).",
             "   Decimal literals are the rationals written in the source text. *)",
             "From Coq Require Import Reals.", "Open Scope R_scope.", ""]
    for name, ir in defs:
        lines.append(f"Definition lcb_{name} ({' '.join(PARAMS)} : R) : R := {coq_of(ir, bound)}.")
    text = "\n".join(lines) + "\n"
    OUT.parent.mkdir(parents=True, exist_ok=True)
    if not OUT.exists() or OUT.read_text() != text:
        OUT.write_text(text)
    info["emitted"] = str(OUT)
    return info


def evaluate(defs, bound, env):
    """Interpret the IR in Python floats.  env: n_vars, func_count, f_mu, f_s2.  Returns dict name -> value."""
    vals = {}

    def ev(ir):
        k = ir[0]
        if k == "int":
            return float(ir[1])
        if k == "dec":
            return ir[1] / ir[2]
        if k == "pi":
            return math.pi
        if k == "ref":
            kind = bound[ir[1]]
            if kind == "n_vars":
                return float(env["n_vars"])
            if kind == "param":
                return float(env[ir[1]])
            return vals[ir[1]]
        if k == "neg":
            return -ev(ir[1])
        if k == "bin":
            a, b = ev(ir[2]), ev(ir[3])
            op = ir[1]
            return a + b if op == "+" else a - b if op == "-" else a * b if op == "*" else a / b
        if k == "pow":
            return ev(ir[1]) ** ir[2]
        if k == "sqrt":
            return math.sqrt(ev(ir[1]))
        if k == "ln":
            return math.log(ev(ir[1]))
        raise Untranslatable("IR " + repr(ir))

    for name, ir in defs:
        vals[name] = ev(ir)
    return vals


if __name__ == "__main__":
    print(emit())
    print(OUT.read_text())
